"""K1 unit: real unifex::async_pass<int> (harness/k1_async_pass.cpp, C++20) against the Coq model
AsyncPass (coq/Proto/AsyncPassDefs.v, handler 'asyncpass')."""
import os, re
from k1 import Unit

# Which model the implementation is compared with:
#   "as_written": completion_forwarder's hop sees the final receiver's stop token (the tree as it is;
#                 hop_stoppable = true whenever the receivers' scheduler honours stop).  On this
#                 variant call_value_iff_accepted is REFUTED (Properties_C16_pass.v) and the driver's
#                 monitor fires on the real code (finding 12).
#   "fixed":      the forwarder's receiver answers get_stop_token with unstoppable_token
#                 (hop_stoppable = false): the variant all theorems are proved for.  Switch to this
#                 once /repo carries the fix; on an unfixed tree it additionally reports the
#                 correspondence break at the hop (the scheduler's read of the stop state).
MODEL_VARIANT = "fixed"
MODEL_VARIANT = os.environ.get("VERIF_C16PASS_VARIANT", MODEL_VARIANT)   # development override only


class AsyncPass(Unit):
    name = "async_pass/AsyncPass"; driver = "k1_async_pass"; cfg = "shim20"; handler = "asyncpass"
    bound = {"quick": 2, "thorough": 3}
    maxruns = {"quick": 3000, "thorough": 40000}
    nrandom = {"quick": 150, "thorough": 2000}

    def programs(self, tier):
        quick = [
            "c,a", "c,a,s0", "c,a,s1", "c,a,s0,s1",
            "x,a,s1", "c,a,tc", "c,a,ta", "c,ta,s0", "a,tc,s0", "x,ta",
            "c,a,tc,s1", "c,a,ta,s0",
        ]
        more = ["x,a", "x,a,s0", "x,a,s0,s1", "c,tc", "a,ta", "c,a,tc,ta", "c,a,tc,s0", "c,a,ta,s1",
                "c,a,tc,s0,s1", "c,a,ta,s0,s1", "x,a,tc,s0", "c,a,s0,s0", "a,tc,tc,s0", "c,ta,ta,s0"]
        progs = [(p, "stop") for p in quick]
        progs += [(p, "deaf") for p in ("c,a,s0", "c,a,s0,s1", "c,a,tc,s1")]
        # monitor-only: every receiver destroys (and poisons) its operation state inside the completion
        # signal; an access to a cancellable state_ afterwards shows the poison (cancellable.hpp
        # stop_type::start touches state_ after another thread may have completed the operation)
        progs += [("c,a", "deaf", "destroy")]
        if tier != "quick":
            progs += [("c,a,s0", "deaf", "destroy"), ("c,a,ta", "deaf", "destroy")]
            progs += [(p, "stop") for p in more] + [(p, "deaf") for p in quick[3:] + more[:6]]
        return progs

    def model_args(self, prog):
        hop = "stop" if (prog[1] == "stop" and MODEL_VARIANT == "as_written") else "deaf"
        return "%s %s" % (hop, prog[0])

    def project(self, prog, events):
        if len(prog) > 2:          # destroy mode: no lock-step (start() frames cannot be named), monitor only
            return []
        kinds = prog[0].split(",")
        target = {t: int(k[1:]) for t, k in enumerate(kinds) if k[0] == "s"}
        reg_done, inline_cb, stop_done, sync_first = set(), set(), set(), set()
        pend_dereg = {}
        out = []
        for e in events:
            m = re.match(r"t(\d+) (\S+) ?(.*)$", e)
            t, name, rest = int(m.group(1)), m.group(2), m.group(3)
            if name.startswith("!"):
                out.append((t, (name + " " + rest).strip()))
            elif name == "w":
                out.append((t, "w " + rest))
            elif name.startswith("cs"):
                k = int(name[2:])
                out.append((t, name + " " + rest))
                mm = re.match(r"O\.\S+ (\d+)->(\d+)", rest)
                if mm and not int(mm.group(1)) & 4 and int(mm.group(2)) & 4 and k not in inline_cb:
                    pend_dereg[t] = k      # this thread won try_complete(k): cleanup_ comes next
            elif name.startswith("sync"):
                k = int(name[4:])
                if rest.startswith("S."):
                    out.append((t, name + " " + rest))
                elif k not in sync_first:
                    sync_first.add(k)
                    out.append((t, name + " " + rest))
                elif rest.endswith(" 1"):   # the spin loop: only the read that ends it
                    out.append((t, name + " " + rest))
            elif name.startswith("ext"):
                k = int(name[3:])
                ml = re.match(r"L\.(\S+) (\d+)$", rest)
                mc = re.match(r"C\.(\S+) (\d+)->(\d+) (ok|fail)$", rest)
                if t == k and k not in reg_done:
                    # try_add_callback: a load that sees stop requested, or the locking CAS
                    # (a failed CAS prints the value it found)
                    if (ml and int(ml.group(2)) & 1) or (mc and mc.group(4) == "fail" and int(mc.group(2)) & 1):
                        reg_done.add(k); inline_cb.add(k); out.append((t, name + " REG 1"))
                    elif mc and mc.group(4) == "ok":
                        reg_done.add(k); out.append((t, name + " REG 0"))
                elif target.get(t) == k and t not in stop_done:
                    # request_stop: sees it already requested, or sets the bit (and locks)
                    if (ml and int(ml.group(2)) & 1) or (mc and mc.group(4) == "fail" and int(mc.group(2)) & 1):
                        stop_done.add(t); out.append((t, name + " SEEN"))
                    elif mc and mc.group(4) == "ok" and int(mc.group(3)) & 1:
                        stop_done.add(t); out.append((t, name + " SET"))
                elif ml and ml.group(1) == "acq":
                    out.append((t, name + " OBS %d" % (int(ml.group(2)) & 1)))   # scheduler's stop_requested()
                elif mc and mc.group(4) == "ok" and pend_dereg.get(t) == k:
                    del pend_dereg[t]
                    out.append((t, name + " DEREG"))                            # remove_callback took the lock
        return out

    def post_check(self, prog, summary, proj):
        if len(prog) > 2:
            return None
        if "aborted=0" not in summary:
            return "model aborted (std::terminate) on a run the implementation survived: " + summary
        if "all_done=1" not in summary:
            return "model threads not finished at the end of a complete implementation run: " + summary
        return None
