"""K1 unit for C03: the real inplace_stop_source/token/callback against Proto/StopSourceDefs.v.
Program = (threads, bodies), see harness/k1_stopsource.cpp for the syntax."""
import re
from k1 import Unit

QUICK = [
    ("R0,D0/S", "-"),                    # registration + deregistration racing one stop request
    ("R0,D0/S/S", "-"),                  # two concurrent request_stop callers
    ("R0/W0,S/W0,S", "0=D0"),            # the callback destroys its own registration; two requesters
    ("R0,R1/W1,S", "1=D0"),              # a callback deregisters another, still linked, callback
    ("R0,R1/W1,S", "0=D1"),              # a callback deregisters one that already ran (notifier thread)
    ("R0,R1,D1/W0,S/S", "1=D0"),         # dereg racing stop, callback 1 possibly inline
    ("R0,Q,D0/S,Q", "-"),                # registration racing the stop, stop_requested observed
    ("R0,D0/R1,D1/S", "-"),              # three threads
    ("R0/W0,S/W0,D0", "0=Q"),            # destructor on a third thread waits for the running callback
    ("R0/W0,S/W0,D0", "0=R1,D1"),        # callback registers (inline) and destroys another one
    ("S,R0,D0/S", "0=S"),                # inline execution inside registration, nested request_stop
    ("R0,R1,R2/W2,S,D2/W2,D1", "2=D0/1=Q"),
    ("S,R0", "0=D0,Q"),                  # registered after the stop: inline, destroys itself from inside, on the stopping thread
    ("S/R0", "0=D0,Q"),                  # ... on another thread (or dequeued by the notifier if it registers first)
]
THOROUGH = QUICK + [
    ("R0,R1,D0,D1/S/S", "0=Q/1=Q"),
    ("R0,D0/R1,D1/S,R2,D2", "2=S"),
    ("R0,R1/W1,S/W1,D1,D0", "1=Q/0=Q"),
    ("R0,R1,R2/W2,S/W2,S", "2=D1/1=D0/0=D2"),
    ("R0/W0,S,R1,D1/W0,D0", "0=R2,D2/1=Q/2=S"),
    ("R0,R1/W1,S,Q/W1,D0/W1,D1", "0=Q/1=Q"),
    ("R0,S,D0/R1,S,D1/R2,S,D2", "0=Q/1=Q/2=Q"),
    ("R0,R1,R2,D2,D1,D0/S", "-"),
    ("S/R0/R1", "0=D0/1=D1,S"),
    ("R1,S/W1,R0", "0=D0,R2,D2/1=Q"),
]

def _wf(prog):
    """each callback id constructed at most once and destroyed at most once (threads + bodies)"""
    text = prog[0].replace("/", ",")
    if prog[1] != "-":
        text += "," + ",".join(b.split("=", 1)[1] for b in prog[1].split("/"))
    ins = [w for w in text.split(",") if w and w != "-"]
    for k in "RD":
        ids = [w[1:] for w in ins if w[0] == k]
        if len(ids) != len(set(ids)):
            return False
    return True

def _parse(events):
    parsed = []
    for e in events:
        m = re.match(r"t(\d+) (\S+) ?(.*)$", e)
        parsed.append((int(m.group(1)), m.group(2), m.group(3)))
    nxt = [None] * len(parsed); last = {}
    for i in range(len(parsed) - 1, -1, -1):
        t = parsed[i][0]
        nxt[i] = last.get(t); last[t] = i
    return parsed, nxt

def _lock_word(parsed, nxt, i, wordname):
    """lock-granularity rewriting of one access of the lock word -> projected event or None"""
    t, name, rest = parsed[i]
    m = re.match(r"([LSC])\.(\S+) (.*)$", rest)
    op, order, vals = m.group(1), m.group(2), m.group(3)
    if op == "S":
        return "state REL.%s %s" % (order, vals)
    if op == "C" and vals.endswith(" ok"):
        a, b = vals[:-3].split("->")
        if int(b) & 2 and not int(a) & 2:
            return "state ACQ.%s %s->%s" % (order, a, b)
        return "state UNCLASSIFIED " + rest
    # an observation: a load, or the value a failed CAS read.  It is one the code acted on unless
    # the same thread's next event is again an access of the lock word (it fed the CAS or a spin).
    v = vals.split("->")[0].split(" ")[0]
    j = nxt[i]
    feeds = j is not None and parsed[j][1] == wordname and order != "acq"
    return None if feeds else "state OBS.%s %s" % (order, v)

class StopSource(Unit):
    name = "stop_source/StopSource"; driver = "k1_stopsource"; cfg = "shim17"; handler = "stopsource"
    maxruns = {"quick": 3000, "thorough": 60000}
    nrandom = {"quick": 200, "thorough": 3000}
    drop_rs = False
    def programs(self, tier):
        progs = QUICK if tier == "quick" else THOROUGH
        assert all(_wf(p) for p in progs)
        return progs
    def model_args(self, prog):
        return "%s %s" % (prog[0], prog[1])
    def project(self, prog, events):
        parsed, nxt = _parse(events)
        out = []
        for i, (t, name, rest) in enumerate(parsed):
            if name == "src.state":
                e = _lock_word(parsed, nxt, i, "src.state")
                if e:
                    out.append((t, e))
            elif name == "mark":
                v = int(rest.split(" ")[-1])
                if v == 19:
                    continue
                kind = {1: "dereg", 2: "end", 3: "waitreg"}[v // 10]
                out.append((t, "%s %d" % (kind, v % 10)))
            elif re.fullmatch(r"cb\d\.done", name):
                if rest == "L.acq 0":
                    continue
                out.append((t, name + " " + rest))
            elif name in ("!exec", "!dret") or (name == "!rs" and not self.drop_rs):
                out.append((t, name[1:] + " " + rest))
        return out
    def post_check(self, prog, summary, proj):
        m = re.search(r"fin=(\d+) stop=(\d) locked=(\d)", summary)
        if not m:
            return "bad model summary: " + summary
        if "0" in m.group(1):
            return "model threads not all finished at the end of a complete implementation run: " + summary
        if m.group(3) != "0":
            return "model lock still held at the end: " + summary
        return None

# ---- two sources: fused_stop_source<inplace_stop_token> and inplace_stop_token_adapter<other token>
TWO_QUICK = [
    ("A,R0,D0,U/s", "-"),                # attach, client callback on the inner source, detach, racing upstream stop
    ("A,U/s/S", "-"),                    # upstream stop racing a direct request_stop on the inner source
    ("R0,A,D0/s,Q", "0=Q"),              # attach racing the upstream stop (inline forward inside attach)
    ("A,R0/W0,s/W0,D0", "0=Q"),          # destructor on a third thread racing the forwarded notification
    ("A,R0,U/W0,s,q", "0=D0"),           # inner callback destroys itself while being notified via the forwarder
]
TWO_THOROUGH = TWO_QUICK + [
    ("A,R0,R1,D1,U/s/S,Q", "0=Q/1=Q"),
    ("s,A,R0,D0,U/S", "0=S"),
    ("A,R0,D0/s/U", "0=Q"),
]

def _two_programs(tier, mode):
    progs = TWO_QUICK if tier == "quick" else TWO_THOROUGH
    if mode != "fused":
        # the adapters hand the inner token out of subscribe(): clients can use it only after A
        progs = [(a, b) for a, b in progs if a.split("/")[0].split(",")[0] in ("A", "s")]
        progs = [("A,R0,D0/s,Q", "0=Q")] + progs
    if mode == "adapter_dm" and tier == "quick":
        progs = progs[:3]
    return [(a, b, mode) for a, b in progs]

class TwoSourceInner(StopSource):
    """events of the inner source; forwarded request_stop calls resolved after the fact"""
    handler = "stopsource_in"; drop_rs = True
    maxruns = {"quick": 1500, "thorough": 30000}
    nrandom = {"quick": 100, "thorough": 2000}
    def __init__(self, mode):
        self.mode = mode
        self.name = "stop_source/%s-inner" % mode
    def programs(self, tier):
        progs = _two_programs(tier, self.mode)
        assert all(_wf(p) for p in progs)
        return progs
    def model_args(self, prog):
        ths = []
        for th in prog[0].split("/"):
            ws = []
            for w in th.split(","):
                if w in ("s", "A"):
                    ws.append("F")
                elif w in ("q", "U", "-", ""):
                    continue
                else:
                    ws.append(w)
            ths.append(",".join(ws) if ws else "-")
        return "%s %s" % ("/".join(ths), prog[1])
    def project(self, prog, events):
        out = StopSource.project(self, prog, events)
        # which placeholders ran: any inner access by the thread between its "ub" and "us"/"att"
        parsed, _ = _parse(events)
        nthreads = len(prog[0].split("/"))
        ran = {t: [] for t in range(nthreads)}
        open_ = {}
        for t, name, rest in parsed:
            if name == "!ub":
                open_[t] = False
            elif name in ("!us", "!att"):
                ran[t].append(open_.pop(t))
            elif name == "src.state" and t in open_:
                open_[t] = True
        mask = 0; k = 0
        for t, th in enumerate(prog[0].split("/")):
            n_ph = sum(1 for w in th.split(",") if w in ("s", "A"))
            flags = ran[t] + [False] * (n_ph - len(ran[t]))
            for f in flags[:n_ph]:
                if f:
                    mask |= 1 << k
                k += 1
        return [(1000 + mask, "cfg")] + out

class TwoSourceUp(Unit):
    """events of the upstream source: the forwarding callback is callback 9 with an empty body"""
    driver = "k1_stopsource"; cfg = "shim17"; handler = "stopsource_up"
    maxruns = {"quick": 1500, "thorough": 30000}
    nrandom = {"quick": 100, "thorough": 2000}
    def __init__(self, mode):
        self.mode = mode
        self.name = "stop_source/%s-upstream" % mode
    def programs(self, tier):
        return _two_programs(tier, self.mode)
    def model_args(self, prog):
        mp = {"s": "S", "q": "Q", "A": "R9", "U": "D9"}
        ths = []
        for th in prog[0].split("/"):
            ws = [mp[w] for w in th.split(",") if w in mp]
            ths.append(",".join(ws) if ws else "-")
        return "%s -" % "/".join(ths)
    def project(self, prog, events):
        parsed, nxt = _parse(events)
        out = []
        for i, (t, name, rest) in enumerate(parsed):
            if name == "up.state":
                e = _lock_word(parsed, nxt, i, "up.state")
                if e:
                    out.append((t, e))
            elif name == "mark" and rest.endswith(" 19"):
                out.append((t, "dereg 9"))
            elif name == "fwd.done":
                if rest == "L.acq 0":
                    continue
                out.append((t, "cb9.done " + rest))
            elif name == "!us":
                out.append((t, "rs " + rest))
            elif name == "!uret":
                out.append((t, "dret 9"))
        return out
    def post_check(self, prog, summary, proj):
        m = re.search(r"fin=(\d+) stop=(\d) locked=(\d)", summary)
        if not m:
            return "bad model summary: " + summary
        if "0" in m.group(1):
            return "model threads not all finished at the end of a complete implementation run: " + summary
        return None
