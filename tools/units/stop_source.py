"""K1 unit for C03: the real inplace_stop_source/token/callback against Proto/StopSourceDefs.v.
Program = (threads, bodies), see harness/k1_stopsource.cpp for the syntax."""
import re
from k1 import Unit

QUICK = [
    ("R0,D0/S", "-"),                    # registration + deregistration racing one stop request
    ("R0,D0/S/S", "-"),                  # two concurrent request_stop callers
    ("R0/W0,S/W0,S", "0=D0"),            # the callback destroys its own registration; two requesters
    ("R0,R1/W1,S", "1=D0"),              # a callback deregisters another, still linked, callback
    ("R0,R1/W1,S", "0=D1"),              # a callback deregisters one that already ran (notifier thread)
    ("R0,R1,D1/W0,S/S", "1=D0"),         # dereg racing stop, callback 1 possibly inline
    ("R0,Q,D0/S,Q", "-"),                # registration racing the stop, stop_requested observed
    ("R0,D0/R1,D1/S", "-"),              # three threads
    ("R0/W0,S/W0,D0", "0=Q"),            # destructor on a third thread waits for the running callback
    ("R0/W0,S/W0,D0", "0=R1,D1"),        # callback registers (inline) and destroys another one
    ("S,R0,D0/S", "0=S"),                # inline execution inside registration, nested request_stop
    ("R0,R1,R2/W2,S,D2/W2,D1", "2=D0/1=Q"),
]
THOROUGH = QUICK + [
    ("R0,R1,D0,D1/S/S", "0=Q/1=Q"),
    ("R0,D0/R1,D1/S,R2,D2", "2=S"),
    ("R0,R1/W1,S/W1,D1,D0", "1=Q/0=Q"),
    ("R0,R1,R2/W2,S/W2,S", "2=D1/1=D0/0=D2"),
    ("R0/W0,S,R1,D1/W0,D0", "0=R2,D2/1=Q/2=S"),
    ("R0,R1/W1,S,Q/W1,D0/W1,D1", "0=Q/1=Q"),
    ("R0,S,D0/R1,S,D1/R2,S,D2", "0=Q/1=Q/2=Q"),
    ("R0,R1,R2,D2,D1,D0/S", "-"),
]

class StopSource(Unit):
    name = "stop_source/StopSource"; driver = "k1_stopsource"; cfg = "shim17"; handler = "stopsource"
    maxruns = {"quick": 3000, "thorough": 60000}
    nrandom = {"quick": 200, "thorough": 3000}
    def programs(self, tier):
        return QUICK if tier == "quick" else THOROUGH
    def model_args(self, prog):
        return "%s %s" % (prog[0], prog[1])
    def project(self, prog, events):
        parsed = []
        for e in events:
            m = re.match(r"t(\d+) (\S+) ?(.*)$", e)
            parsed.append((int(m.group(1)), m.group(2), m.group(3)))
        # index of the next event of the same thread
        nxt = [None] * len(parsed); last = {}
        for i in range(len(parsed) - 1, -1, -1):
            t = parsed[i][0]
            nxt[i] = last.get(t); last[t] = i
        out = []
        for i, (t, name, rest) in enumerate(parsed):
            if name == "src.state":
                m = re.match(r"([LSC])\.(\S+) (.*)$", rest)
                op, order, vals = m.group(1), m.group(2), m.group(3)
                if op == "S":
                    out.append((t, "state REL.%s %s" % (order, vals)))
                elif op == "C" and vals.endswith(" ok"):
                    a, b = vals[:-3].split("->")
                    if int(b) & 2 and not int(a) & 2:
                        out.append((t, "state ACQ.%s %s->%s" % (order, a, b)))
                    else:
                        out.append((t, "state UNCLASSIFIED " + rest))
                else:
                    # an observation: a load, or the value a failed CAS read.  It is one the code acted
                    # on unless the same thread's next event is again an access of the lock word
                    # (the load fed the CAS or a spin).
                    v = vals.split("->")[0].split(" ")[0]
                    j = nxt[i]
                    feeds = j is not None and parsed[j][1] == "src.state" and order != "acq"
                    if not feeds:
                        out.append((t, "state OBS.%s %s" % (order, v)))
            elif name == "mark":
                v = int(rest.split(" ")[-1])
                kind = {1: "dereg", 2: "end", 3: "waitreg"}[v // 10]
                out.append((t, "%s %d" % (kind, v % 10)))
            elif re.fullmatch(r"cb\d\.done", name):
                if rest == "L.acq 0":
                    continue
                out.append((t, name + " " + rest))
            elif name in ("!exec", "!dret", "!rs"):
                out.append((t, name[1:] + " " + rest))
        return out
    def post_check(self, prog, summary, proj):
        m = re.search(r"fin=(\d+) stop=(\d) locked=(\d)", summary)
        if not m:
            return "bad model summary: " + summary
        if "0" in m.group(1):
            return "model threads not all finished at the end of a complete implementation run: " + summary
        if m.group(3) != "0":
            return "model lock still held at the end: " + summary
        return None
