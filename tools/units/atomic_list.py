"""K1 unit for the link-level atomic_intrusive_list (serves C15 and C16): the real list against the
AtomicList model (coq/Proto/AtomicListDefs.v)."""
import re
from k1 import Unit

class AtomicList(Unit):
    """program = (mode, nn, prog0, prog1, ...) as k1_atomic_list.cpp takes it.
    Projection onto the model's events (the model has one event per atomic access except for the
    plain spin lock `lock(lk)`, which is one EAcq step):
      * `!ret r` -> `ret r`, `!skip` -> `skip`; every other action is dropped;
      * inside lock(lk) [pop_front: head_, first.rest; try_remove: item.rest after the re-check of
        item.self; push_front / latch_and_drain / unlatch: head_] the feeding loads and failed CASes
        are dropped, the successful `C.acq v->v|1 ok` is the model's EAcq;
      * inside try_lock_checking every access is kept (the model steps through PT0..PT4);
      * a thread is inside try_lock_checking from a load of a self field (sentinel_.self /
        item.self) until its `C.rlx .. ok`; the one self load that follows a successful
        try_lock_checking in try_remove is the re-check (not a new try_lock_checking);
      * values read from / CASed on storage the driver already overwrote (after `!free n<d>`) are
        printed FREED (the handler masks the same accesses: handed back and no try_remove pending);
      * the operation K (kick) is not part of the model."""
    name = "atomic_list/AtomicList"; driver = "k1_atomic_list"; cfg = "shim17"; handler = "atomiclist"
    bound = {"quick": 2, "thorough": 3}
    maxruns = {"quick": 1500, "thorough": 40000}
    nrandom = {"quick": 250, "thorough": 4000}
    def programs(self, tier):
        quick = [
            # the async_mutex profile: push_back / pop_front / try_remove / empty
            ("plain", "2", "B0", "P", "B1"),
            ("plain", "2", "B0B1", "PP", "E"),
            ("plain", "2", "B0", "B1", "PEP"),
            ("plain", "2", "B0B1", "R0", "P"),
            ("plain", "3", "B0B1", "R1P", "B2R0"),
            ("plain", "3", "B0B1B2", "R1", "PP"),
            ("plain", "3", "B0F1", "PE", "R0B2"),
            ("plain", "4", "B0B1", "B2R0", "R1PB3"),
            # the async_manual_reset_event profile
            ("latch", "2", "F0", "F1", "DQQ"),
            ("latch", "2", "F0F1", "DQQ", "R0L"),
            ("latch", "3", "F0F1", "DQQQ", "R0UF2"),
            ("latch", "2", "F0R0", "DQUL", "F1DQ"),
            ("latch", "3", "F0F1F2", "DQQ", "R1R0"),
            ("latch", "3", "F0F1", "R0R1E", "DQF2"),
        ]
        if tier == "quick":
            return quick
        more = [
            ("plain", "4", "B0B1B2B3", "PPPP", "R1R2"),
            ("plain", "4", "B0B1", "B2B3", "PR2PE"),
            ("plain", "3", "B0R0", "B1R1", "B2PP"),
            ("plain", "3", "F0B1", "PP", "F2R1"),
            ("plain", "4", "B0B1B2", "R0R1R2", "PB3P"),
            ("latch", "4", "F0F1", "F2F3", "DQQQQ"),
            ("latch", "3", "F0F1F2", "DQQQ", "R0R1R2"),
            ("latch", "3", "F0DQ", "F1UF2", "DQQL"),
            ("latch", "4", "F0F1", "DQQU", "F2R0F3DQ"),
        ]
        return quick + more
    def model_args(self, prog):
        return " ".join(prog[1:])
    def project(self, prog, events):
        out = []
        mode = {}        # thread -> "lock" | "tlc"
        recheck = set()  # threads whose next self load is try_remove's re-check
        curop = {}
        freed = set()
        handed = set()
        touched = False; final = ""
        for e in events:
            m = re.match(r"t(\d+) (\S+) ?(.*)$", e)
            T, name, rest = int(m.group(1)), m.group(2), m.group(3)
            if name.startswith("!"):
                a = name[1:]
                if a == "call":
                    curop[T] = rest; mode[T] = "lock"; recheck.discard(T)
                elif a == "ret":
                    if curop.get(T, "") != "K":
                        out.append((T, "ret " + rest))
                    curop[T] = ""
                elif a == "skip":
                    out.append((T, "skip")); curop[T] = ""
                elif a == "free":
                    freed.add(rest)
                elif a == "handback":
                    handed.add(rest)
                elif a == "final":
                    final = rest.split(" ")[-1]
                continue
            mn = re.match(r"(n\d+)\.(self|rest)$", name)
            if mn and mn.group(1) in handed and curop.get(T, "") != "R" + mn.group(1)[1:]:
                touched = True
            opk = rest.split(" ")[0]
            ok = rest.endswith(" ok")
            if mn and mn.group(1) in freed:
                rest = opk + " FREED"
            if name.endswith(".self") and opk.startswith("L."):
                if T in recheck:
                    recheck.discard(T)
                else:
                    mode[T] = "tlc"
                out.append((T, name + " " + rest)); continue
            if opk.startswith("C."):
                if mode.get(T) == "tlc":
                    out.append((T, name + " " + rest))
                    if ok:
                        mode[T] = "lock"
                        if curop.get(T, "").startswith("R"):
                            recheck.add(T)
                elif ok:
                    out.append((T, name + " " + rest))
                continue
            if opk.startswith("L."):
                if mode.get(T) == "tlc":
                    out.append((T, name + " " + rest))
                elif curop.get(T, "") in ("E", "L"):
                    out.append((T, name + " " + rest))
                continue
            out.append((T, name + " " + rest))     # stores
        if not hasattr(self, "_info"):
            self._info = {}
        self._info[(tuple(prog), tuple(out))] = (touched, final)
        return out
    def post_check(self, prog, summary, proj):
        if "quiescent=1" not in summary:
            return "model not quiescent at the end of a complete implementation run: " + summary
        if "linbad=0" not in summary or "crash=0" not in summary:
            return "model flags a specification mismatch / crash: " + summary
        touched, final = getattr(self, "_info", {}).get((tuple(prog), tuple(proj)), (None, ""))
        if touched is not None and ("uaf=1" in summary) != touched:
            return "model and implementation disagree on an access after hand-back (impl %s): %s" % (touched, summary)
        mc = re.search(r"chains=(\S+)", summary)
        if mc and final and mc.group(1) != final:
            return "final chains differ: implementation %s, model %s" % (final, mc.group(1))
        return None

class Keyed:
    """Check wrapper: one specific key for every manifestation of the known defect (try_lock_checking
    loads / CASes the link word of a node that was handed back meanwhile), whatever program and
    schedule exhibited it:  atomic_list/touched-after-hand-back/<rest|self>:<L|C|S>."""
    def __init__(self, chk):
        self.__dict__["_c"] = chk
    def __getattr__(self, n):
        return getattr(self._c, n)
    def __setattr__(self, n, v):
        setattr(self._c, n, v)
    def violation(self, key, replay_path, no_input=False, text=""):
        if key.endswith("/monitor") and "touched after it was handed back" in text:
            m = re.search(r"(rest|self) ([CLS])\.", text)
            key = "atomic_list/touched-after-hand-back" + ("/%s:%s" % (m.group(1), m.group(2)) if m else "")
        return self._c.violation(key, replay_path, no_input, text)

UNITS = [AtomicList]
