"""K1 unit for the concurrent half of C13, type_erase: the real type_erased_stream next-op election
(harness/k1_type_erased_next.cpp) against the model TypeEraseNext (coq/Proto/TypeEraseNextDefs.v,
handler 'typeerasenext')."""
import re
from k1 import Unit

_KIND_TID = {"v": 1, "d": 3, "e": 4}          # model thread id of thread A by the kind of the completion in progress
_TID_CLEANUP = 5


class TypeEraseNext(Unit):
    name = "type_erase/TypeEraseNext"; driver = "k1_type_erased_next"; cfg = "shim17"; handler = "typeerasenext"
    bound = {"quick": 2, "thorough": 3}
    maxruns = {"quick": 2500, "thorough": 30000}
    nrandom = {"quick": 300, "thorough": 3000}

    # (a script that is used up continues with d: "v" = "vd", "-" = "d")
    QUICK = [("v", "stop"), ("d", "stop"), ("e", "stop"), ("ve", "stop"), ("vv", "stop"),
             ("vv", "nostop"), ("ve", "nostop"), ("v", "stop", "cerr")]
    MORE = [("vvv", "stop"), ("vve", "stop"), ("d", "nostop"), ("e", "nostop"), ("vvv", "nostop")]

    def programs(self, tier):
        return list(self.QUICK) if tier == "quick" else list(self.QUICK) + list(self.MORE)

    def model_args(self, prog):
        return prog[1]

    def project(self, prog, events):
        out = []
        a_tid = None                 # model tid of implementation thread 1 (A)
        registering = set()          # threads inside the constructor of a next-op (stop callback registration)
        for e in events:
            m = re.match(r"t(\d+) (\S+) ?(.*)$", e)
            t, n, r = int(m.group(1)), m.group(2), m.group(3)
            if t == 3:
                continue             # the finaliser
            if t == 1:
                if n == "!src.next.complete":
                    a_tid = _KIND_TID.get(r.split(" ")[0], 1)
                elif n == "!src.cleanup.complete":
                    a_tid = _TID_CLEANUP
                mt = a_tid if a_tid is not None else 1
            else:
                mt = t
            if n == "ext.state":
                if re.match(r"C\.\S+ \d+->\d+ ok", r) or r.startswith("S."):
                    registering.discard(t)
                    out.append((mt, "ext.state " + r))
                elif t in registering:
                    # try_lock_unless_stop_requested(false) sees the stop bit: the callback runs inline
                    mm = re.match(r"L\.\S+ (\d+)$", r) or re.match(r"C\.\S+ (\d+)->\d+ fail", r)
                    if mm and int(mm.group(1)) & 1:
                        registering.discard(t)
                        out.append((mt, "ext.state OBS %d" % int(mm.group(1))))
            elif n == "te.ref":
                out.append((mt, "te.ref " + r))
            elif n == "te.src":
                if not r.startswith("L."):
                    out.append((mt, "te.src " + r))
            elif n == "cb.completed":
                if r.endswith(" 1"):
                    out.append((mt, "cb.completed " + r))
            elif n.startswith("!"):
                if n == "!cons.next.ctor":
                    registering.add(t)
                if n in ("!cons.next", "!src.next.complete"):
                    out.append((mt, n + " " + r.split(" ")[0]))      # value / error code: checked by the monitor
                elif n in ("!cons.cleanup", "!src.cleanup.complete"):
                    out.append((mt, n))                              # done / error of the cleanup: checked by the monitor
                else:
                    out.append((mt, (n + " " + r).strip()))
            else:
                out.append((mt, (n + " " + r).strip()))
        return out

    def nontrivial(self, proj):
        # at least two context switches between physical threads (the tids 1, 3, 4, 5 are all thread A)
        phys = [1 if t in (1, 3, 4, 5) else t for t, _ in proj]
        return sum(1 for a, b in zip(phys, phys[1:]) if a != b) >= 2

    def post_check(self, prog, summary, proj):
        f = dict(kv.split("=", 1) for kv in summary.split(" ") if "=" in kv)
        if f.get("quiescent") != "1":
            return "model not quiescent at the end of a complete implementation run: " + summary
        for k in ("uaf", "dup", "vad", "early", "nofwd", "clash", "bad"):
            if f.get(k) != "0":
                return "model reports %s on an implementation trace: %s" % (k, summary)
        if f.get("ndel") != "1" or f.get("finished") != "1" or f.get("delivered") not in ("d", "e"):
            return "model: last next() / cleanup not completed as expected: " + summary
        return None


class TypeEraseNextASan(TypeEraseNext):
    """Same driver under AddressSanitizer/UBSan (the concrete stream is really freed, the destroyed next-op
    storage is ASan-poisoned): thorough only."""
    name = "type_erase/TypeEraseNext-asan"; cfg = "shimasan17"
    maxruns = {"quick": 800, "thorough": 5000}
    nrandom = {"quick": 100, "thorough": 500}

    def programs(self, tier):
        return [] if tier == "quick" else list(TypeEraseNext.QUICK)
