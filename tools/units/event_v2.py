"""K1 lock-step unit for C16: v2::async_manual_reset_event (latch list + cancellable wrapper) vs model EventV2
(coq/Proto/EventV2Defs.v), over the driver harness/k1_event_v2.cpp run with its lifetime monitor off
('logic-only': the completion-logic monitor stays on; the lifetime findings are compared with the model's
ghost counters in post_check instead, and reported by units/event.py run_lifetime)."""
import re
from k1 import Unit


def _bare(v):
    return v[:-2] if v.endswith("|1") else v


class EventV2(Unit):
    """program = (sig0, thread programs over S R Y W<d> X<d> K, 'logic-only').  Thread ids are the same on both
    sides (a K-only thread is an empty model program).  Projection onto the model's events:
      evt.head  lock granularity: the successful lock CAS of lock(head_) (push_front_unless_latched,
                latch_and_drain, unlatch: order acquire) and the unlocking store of the same holder, verbatim;
                try_remove's try_lock_checking CAS (relaxed) and its unlock of head_ are dropped (the model's
                try_remove is atomic at the store that clears w.self); ready()'s load -> LATCH / -;
      w<d>.state  every fetch_or, verbatim;
      w<d>.self   latch_and_drain's redirection of the front item to the local list -> 'S.rel LOCAL'; 'S.rlx 0' (pop_front of the setter's local list, or a successful try_remove) verbatim; the first
                'L.acq 0' of a try_remove = its 'false' answer; everything else of the list (rest words) is dropped;
                the words of the setter's stack-local list are not in the trace at all, so pop_front on the EMPTY
                local list is observed as set() returning: the driver's 'cmd end' of an S command -> 'set returned';
      w<d>.sync   the stack flag of stop_type::start: the first load by the starting thread, later loads only when
                they read 1 (spin), the store by try_complete; renamed by context (the driver names the flag after
                start() returned, two waits started by one thread share the address);
      actions     register / register inline / deregister / handoff / value / done / stop_requested / callback_returned /
                ready=b verbatim."""
    name = "event_v2/EventV2"; driver = "k1_event_v2"; cfg = "shim17"; handler = "eventv2"
    maxruns = {"quick": 2500, "thorough": 60000}
    nrandom = {"quick": 300, "thorough": 4000}
    fx = "0"

    def programs(self, tier):
        q = [("0", "W0", "S", "X0", "K", "logic-only"),
             ("0", "W0", "W1", "S", "X1", "K", "logic-only"),
             ("0", "W0", "SR", "X0", "K", "logic-only"),
             ("1", "W0", "W1", "R", "S", "X1", "logic-only"),
             ("0", "W0Y", "W1", "X0", "X1", "S", "logic-only"),
             ("0", "W0", "W1", "S", "R", "X1", "logic-only"),
             ("1", "W0", "RW1", "X0", "SY", "logic-only"),
             ("0", "W0X0", "S", "K", "logic-only"),
             ("0", "W0W1", "S", "X0", "K", "logic-only")]
        if tier != "quick":
            q += [("0", "W0", "W1", "W2", "S", "X1", "R", "logic-only"), ("1", "W0", "X0", "R", "K", "logic-only"),
                  ("0", "W0", "W1", "S", "S", "X0", "X1", "logic-only"), ("0", "W0", "W1", "SRS", "X0", "Y", "logic-only"),
                  ("0", "W0", "W1", "W2", "S", "X0", "X2", "logic-only"), ("0", "W0W1", "W2", "SR", "X1X0", "K", "logic-only")]
        return q

    def progs_of(self, prog):
        return [p for p in prog[1:] if p != "logic-only"]

    def model_args(self, prog):
        ps = []
        for p in self.progs_of(prog):
            p = p.replace("K", "")
            ps.append(p if p else "-")
        return "%s %s %s" % (self.fx, prog[0], " ".join(ps))

    def project(self, prog, events):
        out = []
        cmd, cmdw = {}, {}
        holding = set()        # threads between lock(head_) and its unlocking store
        lastcs = {}            # thread -> waiter of its last state fetch_or
        syncfirst = set()      # (thread, waiter): first load of the stack flag emitted
        rmfail = set()         # threads whose running try_remove already answered false
        completed = set()      # waiters whose receiver has been completed (implementation side)
        touch_state, touch_self = 0, 0
        def emit(T, s):
            out.append((T, s)); rmfail.discard(T)
        for e in events:
            m = re.match(r"t(\d+) (\S+) ?(.*)$", e)
            T, name, rest = int(m.group(1)), m.group(2), m.group(3)
            if name.startswith("!"):
                a = (name[1:] + " " + rest).strip()
                if a.startswith("cmd "):
                    if a == "cmd end":
                        if cmd.get(T) == "S":
                            emit(T, "set returned")
                        cmd[T] = None
                    elif "returned" not in a:
                        cmd[T] = a[4]; cmdw[T] = int(a[5]) if len(a) > 5 else None
                    continue
                mm = re.match(r"w(\d) (value|done|error)$", a)
                if mm:
                    completed.add(int(mm.group(1)))
                emit(T, a)
                continue
            mw = re.match(r"w(\d)\.(state|self|rest|sync)$", name)
            if mw and mw.group(2) == "state":
                w = int(mw.group(1))
                if rest.startswith("O."):
                    if w in completed:
                        touch_state += 1
                    lastcs[T] = w
                    emit(T, name + " " + rest)
                continue
            if mw and mw.group(2) == "self":
                w = int(mw.group(1))
                # touches after completion are counted at the projection's granularity: the answer point of a
                # try_remove (its repeated loads of the same failed call are below the model's granularity; the
                # lifetime runner of units/event.py sees every access)
                if rest == "S.rlx 0":
                    touch_self += w in completed
                    emit(T, name + " " + rest)
                elif rest.startswith("S.rel") and T in holding and cmd.get(T) == "S":
                    emit(T, name + " S.rel LOCAL")     # latch_and_drain: first.self := &local.head_
                elif rest == "L.acq 0" and T not in rmfail:
                    touch_self += w in completed
                    emit(T, name + " " + rest); rmfail.add(T)
                continue
            if name.endswith(".sync"):
                if rest.startswith("L."):
                    w = cmdw.get(T)
                    v = rest.split(" ")[1]
                    if (T, w) not in syncfirst:
                        syncfirst.add((T, w)); emit(T, "w%d.sync L.acq %s" % (w, v))
                    elif v == "1":
                        emit(T, "w%d.sync L.acq 1" % w)
                elif rest.startswith("S."):
                    emit(T, "w%d.sync %s" % (lastcs.get(T, -1), rest))
                continue
            if name == "evt.head":
                if rest.startswith("C.acq") and rest.endswith(" ok"):
                    holding.add(T); emit(T, name + " " + rest)
                elif rest.startswith("S.") and T in holding:
                    holding.discard(T); emit(T, name + " " + rest)
                elif rest.startswith("L.acq"):
                    emit(T, "evt.head L.acq " + ("LATCH" if _bare(rest.split(" ")[1]) == "LATCH" else "-"))
                continue
        self._touch = (touch_state, touch_self)
        self._touches[tuple(out)] = (touch_state, touch_self)
        return out

    _touches = {}

    def post_check(self, prog, summary, proj):
        if "stuck=1" not in summary or "quiescent=1" not in summary:
            return "model not quiescent at the end of a complete implementation run: " + summary
        m = re.search(r"latched=(\d) hl=(\d) evl=\[([^\]]*)\] ops=(\S*) late=(\d+)/(\d+)/(\d+)", summary)
        if not m:
            return "unparsable model summary: " + summary
        if m.group(2) != "0":
            return "head lock held at the end: " + summary
        ts, tf = self._touches.get(tuple(proj), (None, None))
        ls, lf, lo = int(m.group(5)), int(m.group(6)), int(m.group(7))
        if ts is not None and ((ts > 0) != (ls > 0) or (tf > 0) != (lf > 0)):
            return ("touched-after-completion differs: implementation state:%d self:%d, model late_state=%d late_self=%d"
                    % (ts, tf, ls, lf))
        if lo:
            return "model: stop callback object touched after completion: " + summary
        # the model's verdict on every wait must be what the implementation delivered
        for o in m.group(4).split("/"):
            if not o:
                continue
            w, how, res, req = o.split(":")
            impl = [e for _, e in proj if re.fullmatch(r"%s (value|done)" % w, e)]
            want = {"latched": ["value"], "drained": ["value"], "removed": ["done"], "-": []}[how]
            if [x.split(" ")[1] for x in impl] != want or ([res] if res else []) != want:
                return "wait %s: left the list as '%s' but completions are impl=%r model=%r" % (w, how, impl, res)
        return None
