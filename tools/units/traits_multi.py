"""C11 (static-traits half), N-ARY trait formulas: let_value with n value signatures, let_error with n error
types, when_all with n children, n-ary sequence, variant_sender<S...>  (n = 1, 2, 3), and the binary stop_when
(same shape and same defect as when_all).

Theorems: coq/Properties_C11_multi.v (model coq/Calc/TraitsMultiDefs.v).  Tie (harness/k3_traits_multi.cpp, the
real combinators over component senders with declared traits as template parameters and run-time behaviours):
  (a) mirror   : sender_traits<S> (+ run-time blocking(s)) of the real combinator type == the Gallina mirror
                 evaluated by the extracted model (handler `traitsmulti`)            -> traits_multi/mirror/<COMB>/<field>
  (b) semantics: what the root receiver observed (inline / before return / later, outcome, context) == the
                 model's operational semantics on the same component behaviours        -> traits_multi/semantics/<COMB>
  (c) monitor  : the property itself on the implementation: the traits the HEADERS declare are sound for the
                 observed run, whenever the behaviours of the components that took part are sound for their
                 declared traits.  Direct (same type declared and run) and crossed (traits of every case K x
                 every swept behaviour tuple that is sound for K's declarations; relies on the combinators'
                 operation code not depending on the children's declared traits)       -> traits_multi/monitor/<COMB>/<trait>
"""
import os, re, time
from concurrent.futures import ThreadPoolExecutor
import vlib

PARTS = [1, 2, 3, 4, 5, 6, 7, 8]
FLAGS = "-O0 -g0 -DTM_PART=%d"
BK = {0: "always_inline", 1: "always", 2: "maybe", 3: "never"}
START_CTX = 1


# ------------------------------------------------------------------ the property, evaluated in Python
def time_ok(bk, t):
    return {0: t == "I", 1: t != "A", 2: True, 3: t != "I"}[bk]


def parse_comp(w):
    d, t, o, c = w.split(":")
    b, s, a = (int(x) for x in d.split("/"))
    return {"bk": b, "sd": s, "af": a, "time": t, "out": o, "ctx": int(c)}


def beh_sound(decl, beh):
    """declared traits (bk, sd, af) are sound for the behaviour (affine: completes where it was started)"""
    return time_ok(decl[0], beh["time"]) and (decl[1] or beh["out"] != "d") and (not decl[2] or beh["ctx"] == 0)


def unsound_traits(tr, obs):
    """tr = (bk, sd, af) declared by the combinator, obs = (time, out, ctx): list of violated clauses"""
    bad = []
    if not time_ok(tr[0], obs[0]):
        bad.append("blocking-" + BK[tr[0]])
    if not tr[1] and obs[1] == "d":
        bad.append("sends_done")
    if tr[2] and obs[2] != START_CTX:
        bad.append("affine")
    return bad


def participants(comb, comps, thr, sel):
    """indices of the components whose behaviour takes part in the run"""
    if comb in ("LV", "LE"):
        routed = "v" if comb == "LV" else "e"
        o = comps[0]["out"]
        if o[0] == routed and not thr:
            return [0, 1 + int(o[1:])]
        return [0]
    if comb in ("WA", "SW"):
        return list(range(len(comps)))
    if comb == "VAR":
        return [int(sel)]
    res = []
    for i, c in enumerate(comps):     # SEQ: up to and including the first one that does not send a value
        res.append(i)
        if c["out"][0] != "v":
            break
    return res


_TR = re.compile(r"^TR (\w+) (\d) K=(\d+) \| (.*) \| T (\d)/(\d)/(\d)(?: rt=(\d))?$")
_RUN = re.compile(r"^(LV|LE|WA|SW|VAR|SEQ) (\d) K=(\d+) thr=([01]) sel=(\S+) \| (.*) \| T (\d)/(\d)/(\d) rt=(\d) \| O (.*)$")
_MOD = re.compile(r"^T (\d)/(\d)/(\d) rt=(\d) \| O (.*) \| sound=(\S) comps=(\S)$")


def build(chk):
    lib, err = vlib.build_lib("plain17")
    if err:
        return None, err
    def one(p):
        return p, vlib.build_driver("k3_traits_multi", "plain17", extra_flags=FLAGS % p)
    with ThreadPoolExecutor(4) as ex:
        res = dict(ex.map(one, PARTS))
    for p, (exe, err) in res.items():
        if err:
            return None, "part %d: %s" % (p, err)
    return {p: e for p, (e, _) in res.items()}, None


def run(chk):
    t0 = time.time()
    st = chk.cov.setdefault("traits_multi", {})
    chk.cov["trusted_base"] += [
        "Properties_C11_multi.v: Print Assumptions closed; ocaml/handlers/h_traitsmulti.ml; harness/k3_traits_multi.cpp "
        "(component senders, simulated contexts: a global context id, 'S' = completion on a joined helper thread)",
        "traits_multi crossed monitor assumes the operation code of let_value/let_error/when_all/sequence/variant_sender does "
        "not depend on the children's declared traits (direct runs cover one type per affinity pattern)"]
    exes, err = build(chk)
    if err:
        p = chk.replay_file("traits_multi_build", {"kind": "build-failure", "error": err[-3000:]})
        chk.violation("traits_multi/build", p, no_input=True,
                      text="k3_traits_multi does not compile against the repository: " + err[-300:].replace("\n", " "))
        return
    st["build_s"] = round(time.time() - t0, 1)

    def run_part(p):
        rc, out = vlib.sh([exes[p]], timeout=600)
        return p, rc, out
    with ThreadPoolExecutor(4) as ex:
        outs = list(ex.map(run_part, PARTS))
    tr_lines, run_lines, probes = [], [], []
    for p, rc, out in outs:
        ls = out.splitlines()
        if rc != 0 or not ls:
            rp = chk.replay_file("traits_multi_crash_%d" % p, {"kind": "driver-crash", "part": p, "rc": rc, "tail": out[-2000:],
                                                                "replay": exes[p]})
            chk.violation("traits_multi/crash/part%d" % p, rp, text="k3_traits_multi part %d failed rc=%s after %d lines" % (p, rc, len(ls)))
        for l in ls:
            if l.startswith("TR "):
                tr_lines.append((p, l))
            elif l.startswith("PROBE "):
                probes.append((p, l))
            else:
                run_lines.append((p, l))

    # ------------------------------------------------------------------ (a) compile-time traits of every case
    cases = {}          # (comb, n) -> list of (K, decls, impl traits)
    mlines, meta = [], []
    for p, l in tr_lines:
        m = _TR.match(l)
        if not m:
            rp = chk.replay_file("traits_multi_parse", {"kind": "unparsable", "line": l})
            chk.violation("traits_multi/unparsable", rp, no_input=True, text=l[:200])
            continue
        comb, n, K = m.group(1), int(m.group(2)), int(m.group(3))
        decls = [tuple(int(x) for x in d.split("/")) for d in m.group(4).split()]
        tr = (int(m.group(5)), int(m.group(6)), int(m.group(7)))
        rt = int(m.group(8)) if m.group(8) is not None else None     # run-time blocking(s), where the TR line carries it
        cases.setdefault((comb, n), []).append((K, decls, tr, rt))
        sel = "0" if comb == "VAR" else ",".join(str(i) for i in range(n)) if comb in ("WA", "SW") else "-"
        mlines.append("traitsmulti %s %d 0 %s | %s" % (comb, START_CTX, sel, " ".join("%d/%d/%d:I:v0:0" % d for d in decls)))
        meta.append((p, l, comb, n, K, tr, rt))
    mout = vlib.model_run(mlines) if mlines else []
    st["trait_cases"] = len(mlines)
    agree = 0
    for (p, l, comb, n, K, tr, rt), ml, mo in zip(meta, mlines, mout):
        mm = _MOD.match(mo)
        chk.count(("tm-traits", comb, n, K), n >= 2)
        if not mm:
            rp = chk.replay_file("traits_multi_model", {"kind": "model-output", "line": l, "model_in": ml, "model": mo})
            chk.violation("traits_multi/model-output", rp, no_input=True, text="%s -> %s" % (ml[:120], mo[:120]))
            continue
        mt = (int(mm.group(1)), int(mm.group(2)), int(mm.group(3)))
        bad = [f for f, a, b in zip(("blocking", "sends_done", "affine"), tr, mt) if a != b]
        if rt is not None and (rt != int(mm.group(4)) or (rt != tr[0] and tr[0] != 2)):
            bad.append("rt_blocking")
        if not bad:
            agree += 1
            chk.cov["traces_validated_against_impl"] += 1
            continue
        chk.cov["disagreements_checked"] += 1
        rp = chk.replay_file("traits_multi_mirror_%s%d_%d" % (comb, n, K),
                             {"kind": "traits-multi-mirror", "impl": l, "model_in": ml, "model": mo, "fields": bad,
                              "obligation": "TraitsMulti.tr_* mirror sender_traits<S> of the n-ary combinator",
                              "replay": "%s %s %d %d   # and: echo '%s' | ocaml/_build/driver" % (exes[p], comb, n, K, ml)})
        for f in bad:
            chk.violation("traits_multi/mirror/%s/%s" % (comb, f), rp, no_input=True,
                          text="%s n=%d K=%d: %s declared by the headers differs from the mirror | impl: %s | model: %s"
                               % (comb, n, K, f, l[:160], mo[:80]))
    st["trait_cases_agree"] = agree
    # the family must contain every sends_done / affine pattern of every width
    for (comb, n), cs in sorted(cases.items()):
        M = len(cs[0][1])
        for fld, name in ((1, "sends_done"), (2, "affine")):
            pats = set(tuple(d[fld] for d in decls) for _, decls, _, _ in cs)
            if len(pats) != 2 ** M:
                rp = chk.replay_file("traits_multi_cov", {"kind": "family-coverage", "comb": comb, "n": n, "field": name,
                                                          "patterns": sorted(pats)})
                chk.violation("traits_multi/coverage", rp, no_input=True,
                              text="%s n=%d: only %d of %d %s patterns in the family" % (comb, n, len(pats), 2 ** M, name))

    # ------------------------------------------------------------------ (b) runs against the model's semantics, (c) direct monitor
    mlines, meta = [], []
    for p, l in run_lines:
        m = _RUN.match(l)
        if not m:
            rp = chk.replay_file("traits_multi_parse", {"kind": "unparsable", "line": l})
            chk.violation("traits_multi/unparsable", rp, text=l[:200])
            continue
        comb, n, K, thr, sel, cs = m.group(1), int(m.group(2)), int(m.group(3)), int(m.group(4)), m.group(5), m.group(6)
        tr = (int(m.group(7)), int(m.group(8)), int(m.group(9)))
        rt, o = int(m.group(10)), m.group(11)
        mlines.append("traitsmulti %s %d %d %s | %s" % (comb, START_CTX, thr, sel, cs))
        meta.append((p, l, comb, n, K, thr, sel, [parse_comp(w) for w in cs.split()], tr, rt, o))
    mout = vlib.model_run(mlines) if mlines else []
    st["runs"] = len(mlines)
    sweeps = {}        # (comb, n) -> list of (comps, participants, obs, line, part)
    n_sem_ok = n_mon = n_unsound_comps = 0
    hist = {}
    for (p, l, comb, n, K, thr, sel, comps, tr, rt, o), ml, mo in zip(meta, mlines, mout):
        chk.count(("tm-run", comb, n, K, thr, sel, ml), n >= 2)
        replay = "%s %s %d %d | grep -F '%s'   # model: echo '%s' | ocaml/_build/driver" % (
            exes[p], comb, n, K, l.split(" | ")[1], ml)
        mm = _MOD.match(mo)
        if not mm:
            rp = chk.replay_file("traits_multi_model", {"kind": "model-output", "line": l, "model_in": ml, "model": mo})
            chk.violation("traits_multi/model-output", rp, no_input=True, text="%s -> %s" % (ml[:120], mo[:120]))
            continue
        mt = (int(mm.group(1)), int(mm.group(2)), int(mm.group(3)))
        mrt, mobs = int(mm.group(4)), mm.group(5)
        bad = [f for f, a, b in zip(("blocking", "sends_done", "affine", "rt_blocking"), tr + (rt,), mt + (mrt,)) if a != b]
        if rt != tr[0] and tr[0] != 2:
            bad.append("rt_blocking")       # the run-time answer may only refine `maybe`
        for f in sorted(set(bad)):
            chk.cov["disagreements_checked"] += 1
            rp = chk.replay_file("traits_multi_mirror_%s%d_%d" % (comb, n, K),
                                 {"kind": "traits-multi-mirror", "impl": l, "model_in": ml, "model": mo, "fields": bad, "replay": replay})
            chk.violation("traits_multi/mirror/%s/%s" % (comb, f), rp, no_input=True,
                          text="%s n=%d K=%d: %s of the real sender differs from the mirror | impl: %s | model: %s"
                               % (comb, n, K, f, l[:160], mo[:80]))
        if o != mobs:
            chk.cov["disagreements_checked"] += 1
            rp = chk.replay_file("traits_multi_sem_%s%d_%d" % (comb, n, K),
                                 {"kind": "traits-multi-semantics", "impl": l, "model_in": ml, "model": mo,
                                  "obligation": "TraitsMulti.*_obs describes what the real combinator does", "replay": replay})
            chk.violation("traits_multi/semantics/%s" % comb, rp,
                          text="%s n=%d K=%d: observed '%s', model '%s' | %s" % (comb, n, K, o, mobs, l[:200]))
            continue
        n_sem_ok += 1
        chk.cov["traces_validated_against_impl"] += 1
        ow = o.split()
        if len(ow) != 3:
            continue
        obs = (ow[0], ow[1], int(ow[2]))
        part = participants(comb, comps, thr, sel)
        sweeps.setdefault((comb, n), []).append((comps, part, obs, l, p, K))
        hist[obs[0]] = hist.get(obs[0], 0) + 1
        if all(beh_sound((comps[i]["bk"], comps[i]["sd"], comps[i]["af"]), comps[i]) for i in part):
            n_mon += 1
            clauses = unsound_traits(tr, obs)
            if not time_ok(rt, obs[0]):     # the run-time answer unifex::blocking(s) must hold as well
                clauses.append("rt_blocking-" + BK[rt])
            for clause in clauses:
                rp = chk.replay_file("traits_multi_monitor_%s_%s" % (comb, clause),
                                     {"kind": "traits-multi-monitor", "impl": l, "clause": clause, "model": mo,
                                      "why": "the traits declared by the headers for this sender do not hold on this run although every "
                                             "component that took part behaved as its own declared traits promise", "replay": replay})
                chk.violation("traits_multi/monitor/%s/%s" % (comb, clause), rp,
                              text="%s n=%d K=%d declares %s but the run shows %s | %s" % (comb, n, K, "%d/%d/%d" % tr, o, l[:200]))
        else:
            n_unsound_comps += 1
    st["runs_semantics_agree"] = n_sem_ok
    st["runs_monitored_direct"] = n_mon
    st["runs_with_unsound_component_behaviour"] = n_unsound_comps
    st["observed_timing_hist"] = hist

    # ------------------------------------------------------------------ (c) crossed monitor
    n_cross = 0
    for key, cs in sorted(cases.items()):
        comb, n = key
        for K, decls, tr, rt in cs:
            for comps, part, obs, l, p, K0 in sweeps.get(key, []):
                if not all(beh_sound(decls[i], comps[i]) for i in part):
                    continue
                n_cross += 1
                clauses = unsound_traits(tr, obs)
                if rt is not None and not time_ok(rt, obs[0]):
                    clauses.append("rt_blocking-" + BK[rt])
                for clause in clauses:
                    decl_s = " ".join("%d/%d/%d" % d for d in decls)
                    rp = chk.replay_file("traits_multi_monitor_%s_%s" % (comb, clause),
                                         {"kind": "traits-multi-monitor-crossed", "case": "%s n=%d K=%d" % (comb, n, K),
                                          "declared_components": decl_s, "declared_by_headers": "%d/%d/%d" % tr, "clause": clause,
                                          "run_on_case": K0, "run": l,
                                          "why": "case K declares these traits (TR line); the behaviours of this run (same combinator, "
                                                 "same n, run on case run_on_case) are sound for K's component declarations, and the "
                                                 "observed completion contradicts the clause",
                                          "replay": "%s %s %d %d   # traits;   %s %s %d %d | grep -F '%s'   # run"
                                                    % (exes[6 if comb == "LV" else 7 if comb == "LE" else 8],
                                                       comb, n, K, exes[p], comb, n, K0, l.split(" | ")[1])})
                    chk.violation("traits_multi/monitor/%s/%s" % (comb, clause), rp,
                                  text="%s n=%d K=%d (components %s) declares %d/%d/%d but a run with sound component behaviours shows %s | %s"
                                       % (comb, n, K, decl_s, tr[0], tr[1], tr[2], " ".join(str(x) for x in obs), l[:160]))
    st["crossed_monitor_pairs"] = n_cross
    chk.cov["traces_validated_against_impl"] += n_cross

    # ------------------------------------------------------------------ real-library probes of the `never` claim
    st["probes"] = [l for _, l in probes]
    for p, l in probes:
        m = re.match(r"PROBE (\w+) (\S+) blocking=(\d) inline=(-?\d)", l)
        if m and int(m.group(3)) == 3 and int(m.group(4)) == 1:
            comb = m.group(1)
            rp = chk.replay_file("traits_multi_monitor_%s_blocking-never_real" % comb,
                                 {"kind": "traits-multi-probe", "line": l,
                                  "why": "%s of schedule(static_thread_pool) and then(just(), sleep) declares blocking=never and "
                                         "completed on the calling thread inside start()" % m.group(2), "replay": "%s PROBE" % exes[p]})
            chk.violation("traits_multi/monitor/%s/blocking-never" % comb, rp, text="real library senders: %s" % l)
    st["seconds"] = round(time.time() - t0, 1)
