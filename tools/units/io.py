"""K1 units for C14: the real io_epoll_context (harness/k1_epoll_rq.cpp, harness/k1_epoll_io.cpp, both
compile a private copy of io_epoll_context.cpp with the syscall wrappers of harness/c14_sys.hpp)
against the models RemoteQueue (coq/Proto/RemoteQueueDefs.v) and IoCancel (coq/Proto/IoCancelDefs.v)."""
import os, re
from k1 import Unit

# Which variant of the IoCancel model the real code is tied to:
#   "as_written"  /repo before the repairs of findings 6, 8 and 15   (init ... fixed := false)
#   "fixed"       /repo with out/C14/fix_epoll_*.diff applied          (init ... fixed := true)
# Flip this single line to "fixed" once the diffs of the C14 report are applied to /repo.
MODEL_VARIANT = "as_written"
# (development / mutation tests only: VERIF_C14_MODEL_VARIANT=fixed overrides the constant)
VARIANT = os.environ.get("VERIF_C14_MODEL_VARIANT") or MODEL_VARIANT


class EpollRemoteQueue(Unit):
    """Projection of a k1_epoll_rq run onto RemoteQueue.  Owned: every access to remoteQueue_.head_
    ('rq.head'; the only unnamed pointer ever stored there is run()'s stop operation -> STOP), the
    syscalls on the eventfd (write / the epoll_wait that returns it / read) and the actions
    'exec <item>' and 'run returned'; of the stop source of run()'s token (C03's protocol) only the two
    linearisation points: the registration of run()'s callback by the I/O thread (its lock CAS
    0->2 = 'src REG'; an observed stop bit instead = 'src REG-INLINE') and the stopper's stop-bit
    CAS 0->3 ('src SET').  Thread ids are the same in the implementation and the model
    (0 = I/O thread, 1..k producers, k+1 stopper)."""
    name = "io_epoll_context/RemoteQueue"; driver = "k1_epoll_rq"; cfg = "shim17"; handler = "remotequeue"
    bound = {"quick": 2, "thorough": 3}
    maxruns = {"quick": 2500, "thorough": 30000}
    nrandom = {"quick": 300, "thorough": 3000}

    def programs(self, tier):
        progs = [("1", "1", "end"), ("1", "2", "any"), ("2", "1", "any"), ("2", "2", "end"), ("1", "1", "pre"),
                 ("2", "1", "pre")]
        if tier != "quick":
            progs += [("3", "1", "any"), ("2", "2", "any"), ("3", "2", "end"), ("1", "3", "any")]
        return progs

    def model_args(self, prog):
        n, items, stop = int(prog[0]), prog[1], prog[2]
        return "%s %s" % (",".join([items] * n) if n else "-", "0 1" if stop == "pre" else "1 0")

    def project(self, prog, events):
        out = []
        running = False      # the I/O thread is inside run()
        reg_done = False     # run()'s callback registration has been decided
        for e in events:
            m = re.match(r"t(\d+) (\S+) ?(.*)$", e)
            t, n, r = int(m.group(1)), m.group(2), m.group(3)
            if n == "!run" and r == "begin":
                running = True
            elif n == "src":
                if t == 0:
                    if running and not reg_done:
                        if re.match(r"C\.\S+ 0->2 ok", r):
                            out.append((0, "src REG")); reg_done = True
                        else:
                            mm = re.match(r"L\.\S+ (\d+)$", r) or re.match(r"C\.\S+ (\d+)->\d+ fail", r)
                            if mm and int(mm.group(1)) & 1:
                                out.append((0, "src REG-INLINE")); reg_done = True
                elif re.match(r"C\.\S+ 0->3 ok", r):
                    out.append((t, "src SET"))
            elif n == "rq.head":
                out.append((t, "rq.head " + re.sub(r"#\d+", "STOP", r)))
            elif n == "!write" and r.startswith("evfd "):
                out.append((t, "!write evfd"))
            elif n == "!epoll_wait" and r.endswith("-> evfd"):
                out.append((t, "!epoll_wait -> evfd"))
            elif n == "!read" and r.startswith("evfd "):
                out.append((t, "!read evfd " + r.split(" ")[-1]))
            elif n == "!exec":
                out.append((t, "!exec " + r))
            elif n == "!run" and r == "returned":
                out.append((t, "!run returned"))
        return out

    def post_check(self, prog, summary, proj):
        f = dict(kv.split("=", 1) for kv in summary.split(" ") if "=" in kv)
        if f.get("returned") != "1":
            return "model: run() has not returned at the end of a complete implementation run: " + summary
        if f.get("tokens") != "0" and prog[2] == "end":
            return "model: a wake-up write is still owed: " + summary
        return None
