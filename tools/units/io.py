"""K1 units for C14: the real io_epoll_context (harness/k1_epoll_rq.cpp, harness/k1_epoll_io.cpp, both
compile a private copy of io_epoll_context.cpp with the syscall wrappers of harness/c14_sys.hpp)
against the models RemoteQueue (coq/Proto/RemoteQueueDefs.v) and IoCancel (coq/Proto/IoCancelDefs.v)."""
import os, re
from k1 import Unit

# Which variant of the IoCancel model the real code is tied to:
#   "as_written"  /repo before the repairs of findings 6, 8 and 15   (init ... fixed := false)
#   "fixed"       /repo with out/C14/fix_epoll_*.diff applied          (init ... fixed := true)
# Flip this single line to "fixed" once the diffs of the C14 report are applied to /repo.
MODEL_VARIANT = "fixed"
# (development / mutation tests only: VERIF_C14_MODEL_VARIANT=fixed overrides the constant)
VARIANT = os.environ.get("VERIF_C14_MODEL_VARIANT") or MODEL_VARIANT


class EpollRemoteQueue(Unit):
    """Projection of a k1_epoll_rq run onto RemoteQueue.  Owned: every access to remoteQueue_.head_
    ('rq.head'; the only unnamed pointer ever stored there is run()'s stop operation -> STOP), the
    syscalls on the eventfd (write / the epoll_wait that returns it / read) and the actions
    'exec <item>' and 'run returned'; of the stop source of run()'s token (C03's protocol) only the two
    linearisation points: the registration of run()'s callback by the I/O thread (its lock CAS
    0->2 = 'src REG'; an observed stop bit instead = 'src REG-INLINE') and the stopper's stop-bit
    CAS 0->3 ('src SET').  Thread ids are the same in the implementation and the model
    (0 = I/O thread, 1..k producers, k+1 stopper)."""
    name = "io_epoll_context/RemoteQueue"; driver = "k1_epoll_rq"; cfg = "shim17"; handler = "remotequeue"
    bound = {"quick": 2, "thorough": 3}
    maxruns = {"quick": 2500, "thorough": 18000}
    nrandom = {"quick": 300, "thorough": 2000}

    def programs(self, tier):
        progs = [("1", "1", "end"), ("1", "2", "any"), ("2", "1", "any"), ("2", "2", "end"), ("1", "1", "pre"),
                 ("2", "1", "pre")]
        if tier != "quick":
            progs += [("3", "1", "any"), ("2", "2", "any"), ("3", "2", "end"), ("1", "3", "any")]
        return progs

    def model_args(self, prog):
        n, items, stop = int(prog[0]), prog[1], prog[2]
        return "%s %s" % (",".join([items] * n) if n else "-", "0 1" if stop == "pre" else "1 0")

    def project(self, prog, events):
        out = []
        running = False      # the I/O thread is inside run()
        reg_done = False     # run()'s callback registration has been decided
        for e in events:
            m = re.match(r"t(\d+) (\S+) ?(.*)$", e)
            t, n, r = int(m.group(1)), m.group(2), m.group(3)
            if n == "!run" and r == "begin":
                running = True
            elif n == "src":
                if t == 0:
                    if running and not reg_done:
                        if re.match(r"C\.\S+ 0->2 ok", r):
                            out.append((0, "src REG")); reg_done = True
                        else:
                            mm = re.match(r"L\.\S+ (\d+)$", r) or re.match(r"C\.\S+ (\d+)->\d+ fail", r)
                            if mm and int(mm.group(1)) & 1:
                                out.append((0, "src REG-INLINE")); reg_done = True
                elif re.match(r"C\.\S+ 0->3 ok", r):
                    out.append((t, "src SET"))
            elif n == "rq.head":
                out.append((t, "rq.head " + re.sub(r"#\d+", "STOP", r)))
            elif n == "!write" and r.startswith("evfd "):
                out.append((t, "!write evfd"))
            elif n == "!epoll_wait" and r.endswith("-> evfd"):
                out.append((t, "!epoll_wait -> evfd"))
            elif n == "!read" and r.startswith("evfd "):
                out.append((t, "!read evfd " + r.split(" ")[-1]))
            elif n == "!exec":
                out.append((t, "!exec " + r))
            elif n == "!run" and r == "returned":
                out.append((t, "!run returned"))
        return out

    def post_check(self, prog, summary, proj):
        f = dict(kv.split("=", 1) for kv in summary.split(" ") if "=" in kv)
        if f.get("returned") != "1":
            return "model: run() has not returned at the end of a complete implementation run: " + summary
        if f.get("tokens") != "0" and prog[2] == "end":
            return "model: a wake-up write is still owed: " + summary
        return None


_ERRNO = {"EISDIR": 21, "EFAULT": 14}


class EpollIoCancel(Unit):
    """Projection of a k1_epoll_io run onto IoCancel for operation <opk> of the run.
    Owned: the operation's state_ / completion_base::enqueued_ ('cenq') / done_op::enqueued_ ('denq') /
    callbackCompleted_ ('cbdone': only the store and the load that sees 1), the syscalls on its
    descriptor (readv/writev = 'io', epoll_ctl ADD/DEL, the epoll_wait that returns its pointer =
    'deliver', the harness' STALE report), the enqueues of its two queue items onto remoteQueue_
    (successful CAS -> 'rq ENQ') and the exchange by which the I/O thread takes them ('rq DEQ top'),
    the linearisation points of its stop source (I/O thread: first lock = REG or an observed stop bit =
    REG-INLINE, later locks = UNREG; stopper: the stop-bit CAS = SET), the peer's first successful
    syscall on the other end of the pipe, and 'complete'.
    Implementation thread -> model thread by role: I/O thread -> 0, but its take of the remote queue
    -> 1 and its epoll_wait result -> 2 (alternatives of the loop); the thread calling start() -> 3;
    peer -> 4; stopper -> 5."""
    driver = "k1_epoll_io"; cfg = "shim17"; handler = "iocancel"
    bound = {"quick": 2, "thorough": 3}
    maxruns = {"quick": 1500, "thorough": 10000}
    nrandom = {"quick": 150, "thorough": 1000}

    def __init__(self, opk=0):
        self.opk = opk
        self.name = "io_epoll_context/IoCancel" + ("" if opk == 0 else "/op%d" % opk)

    def programs(self, tier):
        if self.opk == 1:
            # second operation on the same descriptor after a cancelled one (only meaningful once
            # the first leaves no stale state: tied in the fixed variant only)
            return [("r", "R", "p", "late", "reuse"), ("r", "L", "s", "late", "reuse")] if VARIANT == "fixed" else []
        progs = []
        for k in "rw":
            progs += [(k, "R", "n", "y"), (k, "R", "s", "y"), (k, "L", "s", "y"), (k, "R", "p", "late"),
                      (k, "L", "p", "n"), (k, "R", "s", "n")]
        progs += [("r", "R", "n", "0"), ("w", "L", "n", "0"), ("r", "R", "s", "0"), ("r", "R", "p", "y"),
                  ("r", "R", "n", "dir"), ("r", "L", "n", "fault"), ("r", "R", "s", "fault"),
                  ("r", "R", "p", "late", "reuse"), ("r", "L", "s", "late", "reuse")]
        if tier != "quick":
            progs += [("w", "R", "p", "y"), ("w", "L", "s", "n"), ("r", "L", "n", "y"), ("w", "L", "n", "y"),
                      ("r", "L", "s", "dir"), ("w", "R", "s", "late", "reuse")]
        return progs

    def params(self, prog):
        kind, start, stop, peer = prog[0], prog[1], prog[2], prog[3]
        if self.opk == 1:
            return dict(kind=kind, start=start, pre=0, nstop=0, ready0=0, fail="-", pollable=1)
        return dict(kind=kind, start=start, pre=1 if stop == "p" else 0, nstop=1 if stop == "s" else 0,
                    ready0=1 if peer in ("0", "fault") else 0,
                    fail=str(_ERRNO["EISDIR"]) if peer == "dir" else str(_ERRNO["EFAULT"]) if peer == "fault" else "-",
                    pollable=0 if peer == "dir" else 1)

    def model_args(self, prog):
        p = self.params(prog)
        return "%s %s %s %d %d %d %s %d" % (VARIANT, p["kind"], p["start"], p["pre"], p["nstop"], p["ready0"],
                                           p["fail"], p["pollable"])

    def project(self, prog, events):
        k = self.opk
        opn, src, comp, done = "op%d." % k, "src%d" % k, "COMP%d" % k, "DONE%d" % k
        stop, peer = prog[2], prog[3]
        stopper_t = 2 if stop == "s" else None
        peer_t = (3 if stop == "s" else 2) if peer in ("y", "late") else None
        def role(t):
            return 0 if t == 0 else 5 if t == stopper_t else 4 if t == peer_t else 3
        out = []
        reg_done = False
        started = False     # operation k has been started
        peer_seen = False
        for e in events:
            m = re.match(r"t(\d+) (\S+) ?(.*)$", e)
            t, n, r = int(m.group(1)), m.group(2), m.group(3)
            if n == "!start" and r == "op%d" % k:
                started = True
            if n.startswith(opn):
                f = n[len(opn):]
                if f == "cbdone":
                    if r.endswith(" 1"):
                        out.append((role(t), "op.cbdone " + r))
                else:
                    out.append((role(t), "op.%s %s" % (f, r)))
            elif n == src:
                if t == 0:
                    if re.match(r"C\.\S+ (0->2|1->3) ok", r):
                        out.append((0, "src REG" if not reg_done else "src UNREG")); reg_done = True
                    elif not reg_done and started:
                        mm = re.match(r"L\.\S+ (\d+)$", r) or re.match(r"C\.\S+ (\d+)->\d+ fail", r)
                        if mm and int(mm.group(1)) & 1:
                            out.append((0, "src REG-INLINE")); reg_done = True
                elif t == stopper_t and re.match(r"C\.\S+ 0->3 ok", r):
                    out.append((5, "src SET"))
            elif n == "rq.head":
                mm = re.match(r"C\.\S+ \S+->(\S+) ok", r)
                if mm and mm.group(1) in (comp, done):
                    out.append((role(t), "rq ENQ " + ("COMP" if mm.group(1) == comp else "DONE")))
                mm = re.match(r"X\.\S+ (\S+)->0", r)
                if mm and mm.group(1) in (comp, done):
                    out.append((1, "rq DEQ " + ("COMP" if mm.group(1) == comp else "DONE")))
            elif n in ("!readv", "!writev") and r.startswith("iofd ") and started and t == 0:
                mm = re.match(r"iofd rc=(-?\d+) (\S+)", r)
                if self._mine(k, out):
                    out.append((0, "!io ok" if int(mm.group(1)) >= 0 else "!io -1 " + mm.group(2)))
            elif n == "!epoll_ctl" and " iofd" in r and started:
                mm = re.match(r"(ADD|DEL) iofd .*rc=(-?\d+) (\S+)$", r)
                if mm and self._mine(k, out) and (mm.group(1) == "DEL" or comp in r):
                    out.append((role(t), "!%s %s" % (mm.group(1), mm.group(3))))
            elif n == "!epoll_wait" and "->" in r and comp in r.split("->")[1].strip().split(","):
                out.append((2, "!deliver"))
            elif n == "!STALE" and (" " + comp + " ") in (" " + r + " "):
                out.append((2, "!STALE"))
            elif n in ("!write", "!read") and r.startswith("peerfd ") and t == peer_t and not peer_seen:
                mm = re.match(r"peerfd rc=(-?\d+)", r)
                if int(mm.group(1)) > 0:
                    out.append((4, "!peer")); peer_seen = True
            elif n == "!complete" and r.startswith("op%d " % k):
                w = r.split(" ")
                out.append((0, "!complete " + (w[1] if w[1] != "error" else "error " + w[2])))
        return out

    def _mine(self, k, out):
        """syscalls on the shared descriptor belong to operation k while it is the live one"""
        done = any(e.startswith("!complete") for _, e in out)
        return not done

    def nontrivial(self, proj):
        return len(proj) > 3 and Unit.nontrivial(self, proj)

    def post_check(self, prog, summary, proj):
        f = dict(kv.split("=", 1) for kv in summary.split(" ") if "=" in kv)
        comp = [e for _, e in proj if e.startswith("!complete")]
        want = ",".join(c[len("!complete "):].replace(" ", ":") for c in comp)
        if f.get("completed", "") != want:
            return "model completions %r differ from the implementation's %r: %s" % (f.get("completed"), want, summary)
        if VARIANT == "fixed":
            for key in ("uaf", "stale", "crashed"):
                if f.get(key) != "0":
                    return "fixed model reports %s on an implementation trace: %s" % (key, summary)
            if comp and f.get("reg") != "0":
                return "fixed model: registration left at completion: " + summary
        return None


class EpollXfer(Unit):
    """Data integrity through the real io_epoll_context (harness/k1_epoll_xfer.cpp): a writer loop and a
    reader loop over one pipe of capacity 4096, buffer sizes below / at / above the capacity.  Direct
    monitors only (bytes received = bytes sent, in order; every operation completes once; descriptors
    released): nothing is projected onto a model."""
    name = "io_epoll_context/xfer"; driver = "k1_epoll_xfer"; cfg = "shim17"; handler = "remotequeue"
    ctx = "io_epoll"
    bound = {"quick": 1, "thorough": 2}
    maxruns = {"quick": 150, "thorough": 3000}
    nrandom = {"quick": 40, "thorough": 400}

    def programs(self, tier):
        progs = [("10000", "3000", "1000"), ("5000", "5000", "4096"), ("1", "1", "1"), ("9000", "100", "8192"),
                 ("600", "600", "1")]
        if tier != "quick":
            progs += [("4097", "4097", "1"), ("20000", "4096", "4096"), ("8192", "8192", "8192")]
        return progs

    def model_args(self, prog):
        return "- 0 0"      # nothing is replayed on a model: the projection is empty

    def project(self, prog, events):
        return []


def extra_units():
    return [EpollXfer()]


# ----------------------------------------------------------------------------- io_uring (real threads)
URING_KEYS = {   # (case name prefix, verdict tag) -> key
    ("resubmit", "DOUBLE-REG"): "finding10-stop-callback-registered-twice",
    ("cancelmany", "DOUBLE-REG"): "finding10-stop-callback-registered-twice",
    ("prestop", "LOST"): "finding16-prestopped-operation-not-cancelled",
    ("stoprace", "DATALOSS"): "finding17-transferred-bytes-reported-as-done",
}


def uring_cases(tier):
    cases = [("basic",), ("cancel",), ("prestop",), ("eisdir",), ("stoprace", "200"),
             ("xfer", "10000", "3000", "1000"), ("xfer", "5000", "5000", "4096"), ("xfer", "1", "1", "1"),
             ("remote", "3", "40"), ("release",), ("resubmit", "300"), ("cancelmany", "300"),
             ("resubmit", "640")]     # more completions than the completion ring has slots, harvested in batches: wrap-around
    if tier != "quick":
        cases += [("stoprace", "1000"), ("xfer", "100000", "4096", "4096"), ("xfer", "9000", "100", "8192"),
                  ("remote", "6", "200"), ("resubmit", "700"), ("resubmit", "257"), ("cancelmany", "450")]
        cases += [("basic",), ("cancel",), ("prestop",)] * 10
    return cases


def run_uring(chk):
    """io_uring_context on real threads and the real ring (harness/k1_uring_io.cpp, configuration plain17):
    direct monitors only.  Each case is one process; its single output line is
    'CASE <name> | <verdict> | <details>'."""
    import vlib
    from concurrent.futures import ThreadPoolExecutor
    exe, err = vlib.build_driver("k1_uring_io", "plain17")
    if err:
        p = chk.replay_file("build_k1_uring_io", {"kind": "build-failure", "driver": "k1_uring_io", "error": err})
        chk.violation("io_uring/build", p, no_input=True, text="driver k1_uring_io does not compile against /repo")
        return
    st = chk.cov.setdefault("uring_cases", {"cases": 0, "passed": 0})
    cases = uring_cases(chk.tier)
    def one(c):
        return c, vlib.sh2([exe] + list(c), timeout=400)
    # the cases share nothing; a few at a time (each starts real threads)
    with ThreadPoolExecutor(4) as ex:
        results = list(ex.map(one, cases))
    for c, (rc, out, errt) in results:
        st["cases"] += 1
        chk.count(("uring",) + c, True)
        line = next((l for l in out.split("\n") if l.startswith("CASE ")), "")
        parts = line.split(" | ")
        if rc != 0 or len(parts) < 3:
            p = chk.replay_file("uring_crash_%s" % "_".join(c), {"kind": "driver-crash", "case": c, "rc": rc,
                                "stdout": out[-2000:], "stderr": errt[-2000:], "replay": "%s %s" % (exe, " ".join(c))})
            chk.violation("io_uring/%s/crash" % "_".join(c), p, text="k1_uring_io %s: rc=%d %s" % (" ".join(c), rc, errt[-200:]))
            continue
        verdict = parts[1].strip()
        if not verdict:
            st["passed"] += 1
            continue
        tag = verdict.split(":")[0]
        key = URING_KEYS.get((c[0], tag))
        key = "io_uring/" + (key if key else "monitor-%s/%s" % (tag.lower(), "_".join(c)))
        p = chk.replay_file("uring_%s" % "_".join(c), {"kind": "monitor-failed-on-implementation", "case": c,
                            "verdict": verdict, "details": parts[2].strip(), "replay": "%s %s" % (exe, " ".join(c))})
        chk.violation(key, p, text="[uring %s] %s\n  replay: %s %s" % (" ".join(c), verdict[:300], exe, " ".join(c)))


# ----------------------------------------------------------------------------- FdOwner (K3)
def _fd_alphabet(kind, k):
    ops = []
    for i in range(k):
        ops += ["n%d" % i, "e%d" % i, "d%d" % i]
        if kind == "fd":
            ops.append("x%d" % i)
        for j in range(k):
            ops.append("a%d,%d" % (i, j))
            if i != j:
                ops.append("c%d,%d" % (i, j))
    ops.append("o")
    return ops


def fdowner_cases(chk):
    """(kind, nslots, ops): every sequence of up to 3 operations over two slots, then seeded random
    longer ones over up to 4 slots, biased towards the shapes in which a number is reused
    (close/destroy, somebody else opens, another close/destroy)."""
    import itertools
    rng = chk.rng
    thorough = chk.tier == "thorough"
    cases = []
    for kind in ("fd", "mm"):
        al = _fd_alphabet(kind, 2)
        for n in range(1, 4 if not thorough else 5):
            for seq in itertools.product(al, repeat=n):
                cases.append((kind, 2, list(seq)))
        for _ in range(12000 if thorough else 2500):
            k = rng.choice((1, 2, 3, 4))
            al = _fd_alphabet(kind, k)
            n = rng.randrange(4, 16)
            seq = []
            for _ in range(n):
                seq.append("o" if rng.random() < 0.15 else rng.choice(al))
            cases.append((kind, k, seq))
    return cases


def run_fdowner(chk):
    """K3 tie of safe_file_descriptor / mmap_region with the model FdOwner plus the direct monitor:
    no close of a number that is not open, somebody else's descriptors/mappings stay what they were."""
    import vlib
    exe, err = vlib.build_driver("k3_fdowner", "plain17")
    if err:
        p = chk.replay_file("build_k3_fdowner", {"kind": "build-failure", "driver": "k3_fdowner", "error": err})
        chk.violation("fd_owner/build", p, no_input=True, text="driver k3_fdowner does not compile against /repo")
        return
    cases = fdowner_cases(chk)
    impl_lines = ["%s %d | %s" % (kind, k, " ".join(ops)) for kind, k, ops in cases]
    model_lines = ["fdowner 1 %d %d | %s" % (1 if kind == "fd" else 0, k, " ".join(ops)) for kind, k, ops in cases]
    outs = vlib.run_impl_lines(exe, impl_lines, chunk=2000)
    mouts = vlib.model_run(model_lines)
    st = chk.cov.setdefault("fdowner", {"cases": 0, "agree": 0})
    for (kind, k, ops), line, o, m in zip(cases, impl_lines, outs, mouts):
        st["cases"] += 1
        closes = sum(1 for w in o.split(" ")[0].split(",") if w.startswith("c"))
        chk.count((kind, k, tuple(ops)), closes >= 2)
        who = "fd_owner" if kind == "fd" else "mmap_region"
        what = "double-close" if kind == "fd" else "double-unmap"
        replay = "echo '%s' | %s" % (line, exe)
        if o.startswith("CRASH"):
            p = chk.replay_file("%s_crash" % who, {"kind": "driver-crash", "input": line, "output": o, "replay": replay})
            chk.violation("%s/crash" % who, p, text="%s: %s\n  replay: %s" % (line, o[:200], replay))
            continue
        impl_core, _, sent = o.partition(" sentinels=")
        if ":EBADF" in impl_core or sent != "ok":
            p = chk.replay_file("%s_%s" % (who, what), {"kind": "monitor-failed-on-implementation", "input": line, "output": o,
                                "model": m, "replay": replay})
            why = ("closed a number that was not open (released twice)" if ":EBADF" in impl_core else "") + \
                  ("; somebody else's resource was closed: " + sent if sent != "ok" else "")
            chk.violation("%s/%s" % (who, what), p, text="[%s] %s: %s\n  replay: %s" % (line, why.strip("; "), o[:200], replay))
            continue
        if impl_core != m:
            p = chk.replay_file("%s_corr" % who, {"kind": "correspondence", "obligation": "K3 k3_fdowner vs model handler 'fdowner'",
                                "input": line, "impl": o, "model": m, "replay": replay})
            chk.violation("%s/corr" % who, p, text="[%s] impl: %s   model: %s\n  replay: %s" % (line, o[:200], m[:200], replay))
            continue
        st["agree"] += 1
        chk.cov["traces_validated_against_impl"] += 1
        if closes >= 2 and len(chk.cov["samples"]) < 8 and kind == "fd" and "o" in ops:
            chk.sample({"unit": "FdOwner", "input": line, "output": o})
