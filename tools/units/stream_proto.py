"""K1 units for the concurrent half of C13: the race protocols inside three stream adaptors, each
the real adaptor over the scripted source stream of harness/k1_stream_common.hpp against its E1 model:
  StopImmediately   harness/k1_stop_immediately.cpp   coq/Proto/StopImmediatelyDefs.v   handler 'stopimm'
  TakeUntil         harness/k1_take_until.cpp         coq/Proto/TakeUntilDefs.v         handler 'takeuntil'
  TypeEraseNext     harness/k1_type_erased_next.cpp   coq/Proto/TypeEraseNextDefs.v     handler 'typeerasenext'
"""
import os, re, json
import k1
from k1 import Unit

# Which variant of each model the code of /repo is tied to.  Flip the entry when /repo changes:
#   stop_immediately: "as_written"  next-op start() reads stream_ after constructing the stop callback
#                                   (finding 9) AND handle_signal() reads its receiver's stream_ after
#                                   nextOp_.destruct() (finding "9b")
#                     "fixed9"      finding 9 repaired (commit 6e8955a), 9b still present
#                     "fixed9b"     only 9b repaired
#                     "fixed"       both repaired                                        <- current tree
#   take_until:       "as_written"  trigger_receiver::set_done destroys sourceOp_ (finding 2)
#                     "fixed"       it destroys triggerOp_ (commit e46f32d)                 <- current tree
#   type_erased_stream next-op: one model only (no defect found)
MODEL_VARIANT = {
    "stop_immediately": "fixed",
    "take_until": "fixed",
}
# (development / mutation tests only: VERIF_C13_MODEL_VARIANT_SI / _TU override the constants)
VARIANT_SI = os.environ.get("VERIF_C13_MODEL_VARIANT_SI") or MODEL_VARIANT["stop_immediately"]
VARIANT_TU = os.environ.get("VERIF_C13_MODEL_VARIANT_TU") or os.environ.get("VERIF_C13_MODEL_VARIANT") or MODEL_VARIANT["take_until"]

_EV = re.compile(r"t(\d+) (\S+) ?(.*)$")


def _parse(events):
    out = []
    for e in events:
        m = _EV.match(e)
        out.append((int(m.group(1)), m.group(2), m.group(3)))
    return out


class StopImmediately(Unit):
    """program = (<script of the source: v/d/e per next()>, stop|nostop).  Implementation threads:
    0 = first next(), 1 = A (completes the source's next()s and cleanup), 2 = C (request_stop),
    3 = finaliser.  Model thread ids: 0, 2 as they are; thread A is 1 / 3 / 4 while it completes a
    next(source) with value / done / error (and everything the consumer does inline in that
    completion), 1 when it completes cleanup(source)."""
    name = "stop_immediately"; driver = "k1_stop_immediately"; cfg = "shim17"; handler = "stopimm"
    maxruns = {"quick": 3000, "thorough": 40000}
    nrandom = {"quick": 300, "thorough": 3000}
    variant = VARIANT_SI

    def programs(self, tier):
        progs = [("vd", "nostop"), ("ve", "nostop"), ("d", "stop"), ("e", "stop"), ("vd", "stop"), ("vve", "stop")]
        if tier != "quick":
            progs += [("-", "stop"), ("vvd", "stop"), ("vvvd", "stop"), ("ved", "nostop"), ("vvvvd", "nostop")]
        return progs

    def model_args(self, prog):
        return "%s %s" % (self.variant, prog[1])

    _ACT = {"!cons.next.ctor", "!cons.next.dtor", "!cons.cleanup.ctor", "!cons.cleanup.dtor", "!stream.destroyed",
            "!cons.finished", "!src.next.ctor", "!src.next.start", "!src.next.dtor", "!src.cleanup.ctor",
            "!src.cleanup.start", "!src.cleanup.complete d", "!src.cleanup.dtor", "!src.next.start BAD",
            "!si.handle_signal dead-receiver BAD"}
    _KIND = re.compile(r"^(!cons\.next|!cons\.cleanup|!src\.next\.complete) ([vde])\b")
    _ATID = {"v": 1, "d": 3, "e": 4}

    def project(self, prog, events):
        out = []
        atid = 1
        reg = {}        # impl thread -> inside the registration of the stop callback
        for t, n, r in _parse(events):
            if t == 3:
                continue
            a = (n + " " + r).strip()
            if t == 1:
                m = re.match(r"!src\.next\.complete ([vde])", a)
                if m:
                    atid = self._ATID[m.group(1)]
                elif a.startswith("!src.cleanup.complete"):
                    atid = 1
            mt = atid if t == 1 else t
            if n == "si.state":
                out.append((mt, "si.state " + r))
                if r.startswith("S."):
                    reg[t] = True
            elif n == "si.src":
                if re.match(r"C\.\S+ 0->3 ok", r) or r.startswith("S."):
                    out.append((mt, "si.src " + r))
            elif n == "ext.state":
                if r.startswith("L.acq"):
                    out.append((mt, "ext.state " + r))          # stop_requested() in next-op start()
                elif re.match(r"C\.\S+ \d+->\d+ ok", r) or r.startswith("S."):
                    out.append((mt, "ext.state " + r))
                    reg[t] = False
                elif reg.get(t):
                    mm = re.match(r"L\.\S+ (\d+)$", r) or re.match(r"C\.\S+ (\d+)->\d+ fail", r)
                    if mm and int(mm.group(1)) & 1:
                        out.append((mt, "ext.state OBS %d" % int(mm.group(1))))
                        reg[t] = False
            elif n == "cb.completed":
                if r.endswith(" 1"):
                    out.append((mt, "cb.completed " + r))
            elif n.startswith("!"):
                m = self._KIND.match(a)
                if m:
                    out.append((mt, "%s %s" % (m.group(1), m.group(2))))
                elif a in self._ACT:
                    out.append((mt, a))
        return out

    def post_check(self, prog, summary, proj):
        f = dict(kv.split("=", 1) for kv in summary.split(" ") if "=" in kv)
        if f.get("quiescent") != "1":
            return "model not quiescent at the end of a complete implementation run: " + summary
        if f.get("bad") != "0" or f.get("wrong") != "0":
            return "model flags a protocol violation on an implementation trace: " + summary
        if self.variant == "fixed" and f.get("uaf") != "0":
            return "fixed model reports a use-after-destroy on an implementation trace: " + summary
        return None


class StopImmediatelyASan(StopImmediately):
    """Same driver under AddressSanitizer/UBSan.  Thorough only."""
    name = "stop_immediately/asan"; cfg = "shimasan17"
    maxruns = {"quick": 500, "thorough": 5000}
    nrandom = {"quick": 50, "thorough": 500}

    def programs(self, tier):
        return [] if tier == "quick" else StopImmediately.programs(self, tier)


# ------------------------------------------------------------------------------------------------------
# take_until (model TakeUntil, handler 'takeuntil')

# implementation threads of harness/k1_take_until.cpp
_TU_T0, _TU_TA, _TU_TB, _TU_TC, _TU_TFIN = 0, 1, 2, 3, 4

_TU_PLAIN = {"!cons.next.ctor", "!cons.next.dtor", "!cons.cleanup.ctor", "!cons.cleanup.dtor", "!stream.destroyed",
          "!cons.finished", "!src.next.ctor", "!src.next.start", "!src.next.dtor", "!trg.next.ctor", "!trg.next.start",
          "!trg.next.dtor", "!src.cleanup.ctor", "!src.cleanup.start", "!trg.cleanup.ctor", "!trg.cleanup.start",
          "!cons.cleanup d", "!cons.cleanup e 7", "!cons.cleanup e 8", "!cons.next d",
          "!src.cleanup.dtor", "!src.cleanup.dtor BAD", "!trg.cleanup.dtor", "!trg.cleanup.dtor BAD",
          "!src.cleanup.complete BAD", "!trg.cleanup.complete BAD", "!src.cleanup.complete d", "!trg.cleanup.complete d"}

_TU_QUICK = [("vd", "v", "d", "d", "stop"), ("vvd", "d", "d", "d", "stop"), ("ve", "e", "d", "e", "stop"),
         ("d", "v", "e", "d", "stop"), ("vd", "v", "e", "e", "nostop"), ("e", "d", "d", "d", "nostop")]
_TU_MORE = [("vvvd", "v", "d", "d", "stop"), ("vve", "v", "e", "e", "stop"), ("d", "e", "d", "e", "stop"),
        ("vd", "d", "e", "d", "stop"), ("vvd", "v", "d", "e", "nostop"), ("e", "v", "e", "d", "stop")]


def _tu_norm_action(a):
    """strip the payloads the model does not carry (element values, error codes of next())"""
    for pre in ("!src.next.complete ", "!cons.next "):
        if a.startswith(pre):
            k = a[len(pre):].split(" ")[0]
            return pre + k if k in ("v", "d", "e") else a          # "... BAD" stays as it is
    if a.startswith("!trg.next.complete"):
        return a if a.endswith("BAD") else "!trg.next.complete"
    for pre in ("!src.cleanup.complete ", "!trg.cleanup.complete "):
        if a.startswith(pre + "e "):
            return pre + "e"
    return a


class TakeUntil(Unit):
    name = "take_until/TakeUntil"; driver = "k1_take_until"; cfg = "shim17"; handler = "takeuntil"
    maxruns = {"quick": 2500, "thorough": 40000}
    nrandom = {"quick": 300, "thorough": 3000}

    def programs(self, tier):
        return _TU_QUICK if tier == "quick" else _TU_QUICK + _TU_MORE

    def model_args(self, prog):
        return "%s %s" % (VARIANT_TU, prog[4])

    def project(self, prog, events):
        out = []
        a_tid, b_tid = None, None         # the model thread id that drives physical thread A / B right now
        in_reg = {}                        # thread -> inside the registration window of a next-op start
        for e in events:
            m = re.match(r"t(\d+) (\S+) ?(.*)$", e)
            t, n, r = int(m.group(1)), m.group(2), m.group(3)
            if t == _TU_TFIN:
                continue
            if n.startswith("!"):
                a = _tu_norm_action((n + " " + r).strip())
                if t == _TU_TA:
                    if a.startswith("!src.next.complete "):
                        a_tid = {"v": 1, "d": 2, "e": 3}.get(a.split(" ")[1], a_tid)
                    elif a.startswith("!src.cleanup.complete "):
                        k = a.split(" ")[1]
                        a_tid = {"d": 4, "e": 5}.get(k, 5 if prog[2] == "e" else 4)
                elif t == _TU_TB:
                    if a.startswith("!trg.next.complete"):
                        b_tid = 6
                    elif a.startswith("!trg.cleanup.complete "):
                        k = a.split(" ")[1]
                        b_tid = {"d": 7, "e": 8}.get(k, 8 if prog[3] == "e" else 7)
                if a == "!src.next.ctor":
                    in_reg[t] = True
                elif a == "!src.next.start":
                    in_reg[t] = False
                kept = a
            elif n == "ext.state":
                if re.match(r"C\.\S+ \d+->\d+ ok", r) or r.startswith("S."):
                    kept = "ext.state " + r
                else:
                    # try_lock_unless_stop_requested of a registration sees the stop bit
                    mm = re.match(r"L\.\S+ (\d+)$", r) or re.match(r"C\.\S+ (\d+)->\d+ fail", r)
                    if mm and in_reg.get(t) and int(mm.group(1)) & 1:
                        kept = "ext.state OBS %d" % int(mm.group(1))
                        in_reg[t] = False
                    else:
                        continue
            elif n == "tu.src":
                if re.match(r"C\.\S+ \d+->\d+ ok", r) or r.startswith("S."):
                    kept = "tu.src " + r
                else:
                    mm = re.match(r"L\.\S+ (\d+)$", r) or re.match(r"C\.\S+ (\d+)->\d+ fail", r)
                    if mm and int(mm.group(1)) & 1:
                        kept = "tu.src OBS %d" % int(mm.group(1))
                    elif mm:
                        continue                     # the load that feeds the CAS
                    else:
                        kept = "tu.src " + r         # anything unexpected is shown to the model
            elif n in ("tu.ready", "tu.completed"):
                kept = n + " " + r
            elif n == "cb.completed":
                if not r.endswith(" 1"):
                    continue                         # remove_callback spinning on callbackCompleted_
                kept = "cb.completed " + r
            else:
                continue
            if t == _TU_T0:
                mt = 0
            elif t == _TU_TA:
                mt = a_tid if a_tid is not None else 1
            elif t == _TU_TB:
                mt = b_tid if b_tid is not None else 6
            elif t == _TU_TC:
                mt = 9
            else:
                mt = 100 + t                         # no such model thread
            out.append((mt, kept))
        return out

    def post_check(self, prog, summary, proj):
        f = dict(kv.split("=", 1) for kv in summary.split(" ") if "=" in kv)
        if VARIANT_TU != "fixed":
            return None
        if f.get("quiescent") != "1" or f.get("finished") != "1":
            return "model not quiescent at the end of a complete implementation run: " + summary
        for k in ("uaf", "baddtor", "dup", "ordbad"):
            if f.get(k) != "0":
                return "fixed model flags %s on an implementation trace: %s" % (k, summary)
        for k in ("srcclctor", "srccldtor", "trgclctor", "trgcldtor", "clcompl"):
            if f.get(k) != "1":
                return "fixed model: %s = %s at the end: %s" % (k, f.get(k), summary)
        return None


class TakeUntilASan(TakeUntil):
    """Same driver under AddressSanitizer/UBSan: the stream is really freed when the consumer finishes, the
    storage of the destroyed cleanup-op is ASan-poisoned.  Thorough only."""
    name = "take_until/TakeUntil-asan"; cfg = "shimasan17"
    maxruns = {"quick": 500, "thorough": 4000}
    nrandom = {"quick": 50, "thorough": 500}

    def programs(self, tier):
        return [] if tier == "quick" else [p + ("realfree",) for p in _TU_QUICK]

    def model_args(self, prog):
        return "%s %s" % (VARIANT_TU, prog[4])


# ------------------------------------------------------------------------------------------------------
# type_erased_stream next-op (model TypeEraseNext, handler 'typeerasenext')

_TE_KIND_TID = {"v": 1, "d": 3, "e": 4}          # model thread id of thread A by the kind of the completion in progress
_TE_TID_CLEANUP = 5


class TypeEraseNext(Unit):
    name = "type_erase/TypeEraseNext"; driver = "k1_type_erased_next"; cfg = "shim17"; handler = "typeerasenext"
    bound = {"quick": 2, "thorough": 3}
    maxruns = {"quick": 2500, "thorough": 30000}
    nrandom = {"quick": 300, "thorough": 3000}

    # (a script that is used up continues with d: "v" = "vd", "-" = "d")
    QUICK = [("v", "stop"), ("d", "stop"), ("e", "stop"), ("ve", "stop"), ("vv", "stop"),
             ("vv", "nostop"), ("ve", "nostop"), ("v", "stop", "cerr")]
    MORE = [("vvv", "stop"), ("vve", "stop"), ("d", "nostop"), ("e", "nostop"), ("vvv", "nostop")]

    def programs(self, tier):
        return list(self.QUICK) if tier == "quick" else list(self.QUICK) + list(self.MORE)

    def model_args(self, prog):
        return prog[1]

    def project(self, prog, events):
        out = []
        a_tid = None                 # model tid of implementation thread 1 (A)
        registering = set()          # threads inside the constructor of a next-op (stop callback registration)
        for e in events:
            m = re.match(r"t(\d+) (\S+) ?(.*)$", e)
            t, n, r = int(m.group(1)), m.group(2), m.group(3)
            if t == 3:
                continue             # the finaliser
            if t == 1:
                if n == "!src.next.complete":
                    a_tid = _TE_KIND_TID.get(r.split(" ")[0], 1)
                elif n == "!src.cleanup.complete":
                    a_tid = _TE_TID_CLEANUP
                mt = a_tid if a_tid is not None else 1
            else:
                mt = t
            if n == "ext.state":
                if re.match(r"C\.\S+ \d+->\d+ ok", r) or r.startswith("S."):
                    registering.discard(t)
                    out.append((mt, "ext.state " + r))
                elif t in registering:
                    # try_lock_unless_stop_requested(false) sees the stop bit: the callback runs inline
                    mm = re.match(r"L\.\S+ (\d+)$", r) or re.match(r"C\.\S+ (\d+)->\d+ fail", r)
                    if mm and int(mm.group(1)) & 1:
                        registering.discard(t)
                        out.append((mt, "ext.state OBS %d" % int(mm.group(1))))
            elif n == "te.ref":
                out.append((mt, "te.ref " + r))
            elif n == "te.src":
                if not r.startswith("L."):
                    out.append((mt, "te.src " + r))
            elif n == "cb.completed":
                if r.endswith(" 1"):
                    out.append((mt, "cb.completed " + r))
            elif n.startswith("!"):
                if n == "!cons.next.ctor":
                    registering.add(t)
                if n in ("!cons.next", "!src.next.complete"):
                    out.append((mt, n + " " + r.split(" ")[0]))      # value / error code: checked by the monitor
                elif n in ("!cons.cleanup", "!src.cleanup.complete"):
                    out.append((mt, n))                              # done / error of the cleanup: checked by the monitor
                else:
                    out.append((mt, (n + " " + r).strip()))
            else:
                out.append((mt, (n + " " + r).strip()))
        return out

    def nontrivial(self, proj):
        # at least two context switches between physical threads (the tids 1, 3, 4, 5 are all thread A)
        phys = [1 if t in (1, 3, 4, 5) else t for t, _ in proj]
        return sum(1 for a, b in zip(phys, phys[1:]) if a != b) >= 2

    def post_check(self, prog, summary, proj):
        f = dict(kv.split("=", 1) for kv in summary.split(" ") if "=" in kv)
        if f.get("quiescent") != "1":
            return "model not quiescent at the end of a complete implementation run: " + summary
        for k in ("uaf", "dup", "vad", "early", "nofwd", "clash", "bad"):
            if f.get(k) != "0":
                return "model reports %s on an implementation trace: %s" % (k, summary)
        if f.get("ndel") != "1" or f.get("finished") != "1" or f.get("delivered") not in ("d", "e"):
            return "model: last next() / cleanup not completed as expected: " + summary
        return None


class TypeEraseNextASan(TypeEraseNext):
    """Same driver under AddressSanitizer/UBSan (the concrete stream is really freed, the destroyed next-op
    storage is ASan-poisoned): thorough only."""
    name = "type_erase/TypeEraseNext-asan"; cfg = "shimasan17"
    maxruns = {"quick": 800, "thorough": 5000}
    nrandom = {"quick": 100, "thorough": 500}

    def programs(self, tier):
        return [] if tier == "quick" else list(TypeEraseNext.QUICK)


# ------------------------------------------------------------------------------------------------------
# hook for tools/props/c13.py (and the private tools/props/c13proto_dev.py)

# verdict tag of the direct monitors -> violation key
TAGS = {
    "stop_immediately": {
        "UAF9:": "finding9-start-uses-stream_-after-destruction",
        "UAF9B:": "finding9b-handle_signal-reads-dead-receiver",
    },
    "take_until": {
        "F2-DTOR:": "finding2-trigger-cleanup-destroys-sourceOp",
        "UAF:": "use-after-stream-destroyed",
    },
    "type_erase": {
        "UAF:": "next-op-or-stream-used-after-destruction",
        "BAD:": "operation-on-dead-op-state",
        "UNION:": "union-member-lifetime",
        "ELECT:": "election-wrong-result",
        "REF:": "refcount-protocol",
        "FWD:": "stop-not-forwarded-before-done",
        "NEXT:": "next-completed-not-exactly-once",
        "VALUES:": "value-duplicated-or-invented",
        "CLEANUP:": "cleanup-order",
        "OPS:": "op-states-unbalanced",
        "END:": "consumer-never-finished",
        "VIOL:": "consumer-or-source-contract",
    },
}


class Keyed:
    """Check proxy: a monitor failure is reported under a key that names the defect (from the tag the
    verdict starts with) instead of the generic '<unit>/<program>/monitor'."""
    def __init__(self, chk):
        object.__setattr__(self, "_chk", chk)
    def __getattr__(self, n):
        return getattr(self._chk, n)
    def __setattr__(self, n, v):
        setattr(self._chk, n, v)
    def violation(self, key, replay_path, no_input=False, text=""):
        if key.endswith("/monitor"):
            unit, prog = key.split("/")[0], key.split("/")[-2]
            m = re.match(r"\s*([A-Z][A-Z0-9-]*:)", text or "")
            tag = m.group(1) if m else "FAILED:"
            name = TAGS.get(unit, {}).get(tag) or ("monitor-" + tag.rstrip(":").lower())
            key = "%s/%s/%s" % (unit, name, prog)
            try:      # one replay file per (program, tag): k1 names it by program only
                obj = json.load(open(replay_path))
                newp = replay_path.replace(".json", "_" + re.sub(r"\W+", "_", tag.rstrip(":")) + ".json")
                json.dump(obj, open(newp, "w"), indent=1)
                replay_path = newp
            except (OSError, ValueError):
                pass
        return self._chk.violation(key, replay_path, no_input=no_input, text=text)


def units(tier):
    us = [StopImmediately(), TakeUntil(), TypeEraseNext()]
    if tier != "quick":      # (k1.run_unit builds the driver even for an empty program list)
        us += [StopImmediatelyASan(), TakeUntilASan(), TypeEraseNextASan()]
    only = os.environ.get("VERIF_C13_ONLY")       # development: run the units of one adaptor only
    if only:
        us = [u for u in us if u.name.split("/")[0] == only]
    return us


def trusted_base():
    return [
        "E1 units: Print Assumptions closed for every theorem in Properties_C13_stopimm.v / _takeuntil.v / _typeerase.v "
        "(vm_compute conversions re-checked at Qed)",
        "E1 units: extraction ExtrOcamlBasic only; ocaml/lockstep.ml, handlers/h_stopimm.ml / h_takeuntil.ml / h_typeerasenext.ml glue",
        "E1 units: verif_shim.hpp + dsched (serialises real threads, preempts before atomic accesses only: sequential consistency "
        "and data-race freedom of everything but the named atomics assumed), k1_stream_common.hpp (scripted source stream with "
        "tracked, poisoned op-states; consumer doing what reduce_stream does inline), the three k1 drivers (compiled -O0 so that "
        "reads through dead references reach the poisoned storage)",
        "E1 units, modelled not verified: the stop sources at lock granularity (C03 owns their internals); the scripted sources "
        "ignore stop requests and register no callback on the adaptors' internal stop sources; element values / error codes are "
        "abstracted to kinds in the models and checked by the drivers' direct monitors",
        "E1 units: model variants tied to the code: tools/units/stream_proto.py MODEL_VARIANT = %r" % (MODEL_VARIANT,)]


def run_units(chk):
    """Runs the three K1 units; in the thorough tier each also under shimasan17 (ASan + UBSan under the shim)."""
    kchk = Keyed(chk)
    for u in units(chk.tier):
        k1.run_unit(kchk, u)
