"""K1 units for the concurrent half of C13: the race protocols inside three stream adaptors, each
the real adaptor over the scripted source stream of harness/k1_stream_common.hpp against its E1 model:
  StopImmediately   harness/k1_stop_immediately.cpp   coq/Proto/StopImmediatelyDefs.v   handler 'stopimm'
  TakeUntil         harness/k1_take_until.cpp         coq/Proto/TakeUntilDefs.v         handler 'takeuntil'
  TypeEraseNext     harness/k1_type_erased_next.cpp   coq/Proto/TypeEraseNextDefs.v     handler 'typeerasenext'
"""
import os, re, json
import k1
from k1 import Unit

# Which variant of each model the code of /repo is tied to.  Flip the entry when /repo changes:
#   stop_immediately: "as_written"  next-op start() reads stream_ after constructing the stop callback
#                                   (finding 9) AND handle_signal() reads its receiver's stream_ after
#                                   nextOp_.destruct() (finding "9b")
#                     "fixed9"      finding 9 repaired (commit 6e8955a), 9b still present
#                     "fixed9b"     only 9b repaired
#                     "fixed"       both repaired                                        <- current tree
#   take_until:       "as_written"  trigger_receiver::set_done destroys sourceOp_ (finding 2)
#                     "fixed"       it destroys triggerOp_ (commit e46f32d)                 <- current tree
MODEL_VARIANT = {
    "stop_immediately": "fixed",
    "take_until": "fixed",
}
# (development / mutation tests only: VERIF_C13_MODEL_VARIANT_SI / _TU override the constants)
VARIANT_SI = os.environ.get("VERIF_C13_MODEL_VARIANT_SI") or MODEL_VARIANT["stop_immediately"]

_EV = re.compile(r"t(\d+) (\S+) ?(.*)$")


def _parse(events):
    out = []
    for e in events:
        m = _EV.match(e)
        out.append((int(m.group(1)), m.group(2), m.group(3)))
    return out


class StopImmediately(Unit):
    """program = (<script of the source: v/d/e per next()>, stop|nostop).  Implementation threads:
    0 = first next(), 1 = A (completes the source's next()s and cleanup), 2 = C (request_stop),
    3 = finaliser.  Model thread ids: 0, 2 as they are; thread A is 1 / 3 / 4 while it completes a
    next(source) with value / done / error (and everything the consumer does inline in that
    completion), 1 when it completes cleanup(source)."""
    name = "stop_immediately"; driver = "k1_stop_immediately"; cfg = "shim17"; handler = "stopimm"
    maxruns = {"quick": 3000, "thorough": 40000}
    nrandom = {"quick": 300, "thorough": 3000}
    variant = VARIANT_SI
    thorough_cfgs = ("shimasan17",)     # second configuration of the thorough tier (ASan + UBSan under the shim)

    def programs(self, tier):
        progs = [("vd", "nostop"), ("ve", "nostop"), ("d", "stop"), ("e", "stop"), ("vd", "stop"), ("vve", "stop")]
        if tier != "quick":
            progs += [("-", "stop"), ("vvd", "stop"), ("vvvd", "stop"), ("ved", "nostop"), ("vvvvd", "nostop")]
        return progs

    def model_args(self, prog):
        return "%s %s" % (self.variant, prog[1])

    _ACT = {"!cons.next.ctor", "!cons.next.dtor", "!cons.cleanup.ctor", "!cons.cleanup.dtor", "!stream.destroyed",
            "!cons.finished", "!src.next.ctor", "!src.next.start", "!src.next.dtor", "!src.cleanup.ctor",
            "!src.cleanup.start", "!src.cleanup.complete d", "!src.cleanup.dtor", "!src.next.start BAD",
            "!si.handle_signal dead-receiver BAD"}
    _KIND = re.compile(r"^(!cons\.next|!cons\.cleanup|!src\.next\.complete) ([vde])\b")
    _ATID = {"v": 1, "d": 3, "e": 4}

    def project(self, prog, events):
        out = []
        atid = 1
        reg = {}        # impl thread -> inside the registration of the stop callback
        for t, n, r in _parse(events):
            if t == 3:
                continue
            a = (n + " " + r).strip()
            if t == 1:
                m = re.match(r"!src\.next\.complete ([vde])", a)
                if m:
                    atid = self._ATID[m.group(1)]
                elif a.startswith("!src.cleanup.complete"):
                    atid = 1
            mt = atid if t == 1 else t
            if n == "si.state":
                out.append((mt, "si.state " + r))
                if r.startswith("S."):
                    reg[t] = True
            elif n == "si.src":
                if re.match(r"C\.\S+ 0->3 ok", r) or r.startswith("S."):
                    out.append((mt, "si.src " + r))
            elif n == "ext.state":
                if r.startswith("L.acq"):
                    out.append((mt, "ext.state " + r))          # stop_requested() in next-op start()
                elif re.match(r"C\.\S+ \d+->\d+ ok", r) or r.startswith("S."):
                    out.append((mt, "ext.state " + r))
                    reg[t] = False
                elif reg.get(t):
                    mm = re.match(r"L\.\S+ (\d+)$", r) or re.match(r"C\.\S+ (\d+)->\d+ fail", r)
                    if mm and int(mm.group(1)) & 1:
                        out.append((mt, "ext.state OBS %d" % int(mm.group(1))))
                        reg[t] = False
            elif n == "cb.completed":
                if r.endswith(" 1"):
                    out.append((mt, "cb.completed " + r))
            elif n.startswith("!"):
                m = self._KIND.match(a)
                if m:
                    out.append((mt, "%s %s" % (m.group(1), m.group(2))))
                elif a in self._ACT:
                    out.append((mt, a))
        return out

    def post_check(self, prog, summary, proj):
        f = dict(kv.split("=", 1) for kv in summary.split(" ") if "=" in kv)
        if f.get("quiescent") != "1":
            return "model not quiescent at the end of a complete implementation run: " + summary
        if f.get("bad") != "0" or f.get("wrong") != "0":
            return "model flags a protocol violation on an implementation trace: " + summary
        if self.variant == "fixed" and f.get("uaf") != "0":
            return "fixed model reports a use-after-destroy on an implementation trace: " + summary
        return None


# ------------------------------------------------------------------------------------------------------
# hook for tools/props/c13.py (and the private tools/props/c13proto_dev.py)

# verdict tag of the direct monitors -> violation key
TAGS = {
    "stop_immediately": {
        "UAF9:": "finding9-start-uses-stream_-after-destruction",
        "UAF9B:": "finding9b-handle_signal-reads-dead-receiver",
    },
}


class Keyed:
    """Check proxy: a monitor failure is reported under a key that names the defect (from the tag the
    verdict starts with) instead of the generic '<unit>/<program>/monitor'."""
    def __init__(self, chk):
        object.__setattr__(self, "_chk", chk)
    def __getattr__(self, n):
        return getattr(self._chk, n)
    def __setattr__(self, n, v):
        setattr(self._chk, n, v)
    def violation(self, key, replay_path, no_input=False, text=""):
        if key.endswith("/monitor"):
            unit, prog = key.split("/")[0], key.split("/")[-2]
            m = re.match(r"\s*([A-Z][A-Z0-9-]*:)", text or "")
            tag = m.group(1) if m else "FAILED:"
            name = TAGS.get(unit, {}).get(tag) or ("monitor-" + tag.rstrip(":").lower())
            key = "%s/%s/%s" % (unit, name, prog)
            try:      # one replay file per (program, tag): k1 names it by program only
                obj = json.load(open(replay_path))
                newp = replay_path.replace(".json", "_" + re.sub(r"\W+", "_", tag.rstrip(":")) + ".json")
                json.dump(obj, open(newp, "w"), indent=1)
                replay_path = newp
            except (OSError, ValueError):
                pass
        return self._chk.violation(key, replay_path, no_input=no_input, text=text)


def units():
    us = [StopImmediately()]
    for n in ("TakeUntil", "TypeEraseNext"):
        if n in globals():
            us.append(globals()[n]())
    only = os.environ.get("VERIF_C13_ONLY")       # development: run one unit only
    if only:
        us = [u for u in us if u.name == only]
    return us


def trusted_base():
    return [
        "E1 units: Print Assumptions closed for every theorem in Properties_C13_stopimm.v / _takeuntil.v / _typeerase.v "
        "(vm_compute conversions re-checked at Qed)",
        "E1 units: extraction ExtrOcamlBasic only; ocaml/lockstep.ml, handlers/h_stopimm.ml / h_takeuntil.ml / h_typeerasenext.ml glue",
        "E1 units: verif_shim.hpp + dsched (serialises real threads, preempts before atomic accesses only: sequential consistency "
        "and data-race freedom of everything but the named atomics assumed), k1_stream_common.hpp (scripted source stream with "
        "tracked, poisoned op-states; consumer doing what reduce_stream does inline), the three k1 drivers (compiled -O0 so that "
        "reads through dead references reach the poisoned storage)",
        "E1 units, modelled not verified: the stop sources at lock granularity (C03 owns their internals); the scripted sources "
        "ignore stop requests",
        "E1 units: model variants tied to the code: tools/units/stream_proto.py MODEL_VARIANT = %r" % (MODEL_VARIANT,)]


def run_units(chk):
    """Runs the three K1 units; in the thorough tier each also under its second configuration."""
    kchk = Keyed(chk)
    for u in units():
        k1.run_unit(kchk, u)
        if chk.tier != "quick":
            for cfg2 in getattr(u, "thorough_cfgs", ()):
                u2 = type(u)()
                u2.cfg = cfg2
                u2.name = u.name + "@" + cfg2
                u2.maxruns = dict(u.maxruns, thorough=max(1000, u.maxruns["thorough"] // 8))
                u2.nrandom = dict(u.nrandom, thorough=max(100, u.nrandom["thorough"] // 6))
                k1.run_unit(kchk, u2, key_prefix=u.name)
