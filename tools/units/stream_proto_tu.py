"""K1 unit for the concurrent half of C13, take_until: the real unifex::take_until over two scripted
asynchronous source streams (harness/k1_take_until.cpp) against the model TakeUntil
(coq/Proto/TakeUntilDefs.v, handler 'takeuntil')."""
import os, re
from k1 import Unit

# Which variant of the model the real code is tied to:
#   "as_written"  take_until.hpp before e46f32d: trigger_receiver::set_done destroys sourceOp_
#                 (DESIGN.md section 8, finding 2)                                   (p_fixed = false)
#   "fixed"       it destroys triggerOp_ -- the code of /repo now                    (p_fixed = true)
MODEL_VARIANT = "fixed"
# (development / mutation tests only: VERIF_C13_MODEL_VARIANT overrides the constant)
VARIANT = os.environ.get("VERIF_C13_MODEL_VARIANT") or MODEL_VARIANT

# implementation threads of harness/k1_take_until.cpp
T0, TA, TB, TC, TFIN = 0, 1, 2, 3, 4

_PLAIN = {"!cons.next.ctor", "!cons.next.dtor", "!cons.cleanup.ctor", "!cons.cleanup.dtor", "!stream.destroyed",
          "!cons.finished", "!src.next.ctor", "!src.next.start", "!src.next.dtor", "!trg.next.ctor", "!trg.next.start",
          "!trg.next.dtor", "!src.cleanup.ctor", "!src.cleanup.start", "!trg.cleanup.ctor", "!trg.cleanup.start",
          "!cons.cleanup d", "!cons.cleanup e 7", "!cons.cleanup e 8", "!cons.next d",
          "!src.cleanup.dtor", "!src.cleanup.dtor BAD", "!trg.cleanup.dtor", "!trg.cleanup.dtor BAD",
          "!src.cleanup.complete BAD", "!trg.cleanup.complete BAD", "!src.cleanup.complete d", "!trg.cleanup.complete d"}

QUICK = [("vd", "v", "d", "d", "stop"), ("vvd", "d", "d", "d", "stop"), ("ve", "e", "d", "e", "stop"),
         ("d", "v", "e", "d", "stop"), ("vd", "v", "e", "e", "nostop"), ("e", "d", "d", "d", "nostop")]
MORE = [("vvvd", "v", "d", "d", "stop"), ("vve", "v", "e", "e", "stop"), ("d", "e", "d", "e", "stop"),
        ("vd", "d", "e", "d", "stop"), ("vvd", "v", "d", "e", "nostop"), ("e", "v", "e", "d", "stop")]


def _norm_action(a):
    """strip the payloads the model does not carry (element values, error codes of next())"""
    for pre in ("!src.next.complete ", "!cons.next "):
        if a.startswith(pre):
            k = a[len(pre):].split(" ")[0]
            return pre + k if k in ("v", "d", "e") else a          # "... BAD" stays as it is
    if a.startswith("!trg.next.complete"):
        return a if a.endswith("BAD") else "!trg.next.complete"
    for pre in ("!src.cleanup.complete ", "!trg.cleanup.complete "):
        if a.startswith(pre + "e "):
            return pre + "e"
    return a


class TakeUntil(Unit):
    name = "take_until/TakeUntil"; driver = "k1_take_until"; cfg = "shim17"; handler = "takeuntil"
    maxruns = {"quick": 2500, "thorough": 40000}
    nrandom = {"quick": 300, "thorough": 3000}

    def programs(self, tier):
        return QUICK if tier == "quick" else QUICK + MORE

    def model_args(self, prog):
        return "%s %s" % (VARIANT, prog[4])

    def project(self, prog, events):
        out = []
        a_tid, b_tid = None, None         # the model thread id that drives physical thread A / B right now
        in_reg = {}                        # thread -> inside the registration window of a next-op start
        for e in events:
            m = re.match(r"t(\d+) (\S+) ?(.*)$", e)
            t, n, r = int(m.group(1)), m.group(2), m.group(3)
            if t == TFIN:
                continue
            if n.startswith("!"):
                a = _norm_action((n + " " + r).strip())
                if t == TA:
                    if a.startswith("!src.next.complete "):
                        a_tid = {"v": 1, "d": 2, "e": 3}.get(a.split(" ")[1], a_tid)
                    elif a.startswith("!src.cleanup.complete "):
                        k = a.split(" ")[1]
                        a_tid = {"d": 4, "e": 5}.get(k, 5 if prog[2] == "e" else 4)
                elif t == TB:
                    if a.startswith("!trg.next.complete"):
                        b_tid = 6
                    elif a.startswith("!trg.cleanup.complete "):
                        k = a.split(" ")[1]
                        b_tid = {"d": 7, "e": 8}.get(k, 8 if prog[3] == "e" else 7)
                if a == "!src.next.ctor":
                    in_reg[t] = True
                elif a == "!src.next.start":
                    in_reg[t] = False
                kept = a
            elif n == "ext.state":
                if re.match(r"C\.\S+ \d+->\d+ ok", r) or r.startswith("S."):
                    kept = "ext.state " + r
                else:
                    # try_lock_unless_stop_requested of a registration sees the stop bit
                    mm = re.match(r"L\.\S+ (\d+)$", r) or re.match(r"C\.\S+ (\d+)->\d+ fail", r)
                    if mm and in_reg.get(t) and int(mm.group(1)) & 1:
                        kept = "ext.state OBS %d" % int(mm.group(1))
                        in_reg[t] = False
                    else:
                        continue
            elif n == "tu.src":
                if re.match(r"C\.\S+ \d+->\d+ ok", r) or r.startswith("S."):
                    kept = "tu.src " + r
                else:
                    mm = re.match(r"L\.\S+ (\d+)$", r) or re.match(r"C\.\S+ (\d+)->\d+ fail", r)
                    if mm and int(mm.group(1)) & 1:
                        kept = "tu.src OBS %d" % int(mm.group(1))
                    elif mm:
                        continue                     # the load that feeds the CAS
                    else:
                        kept = "tu.src " + r         # anything unexpected is shown to the model
            elif n in ("tu.ready", "tu.completed"):
                kept = n + " " + r
            elif n == "cb.completed":
                if not r.endswith(" 1"):
                    continue                         # remove_callback spinning on callbackCompleted_
                kept = "cb.completed " + r
            else:
                continue
            if t == T0:
                mt = 0
            elif t == TA:
                mt = a_tid if a_tid is not None else 1
            elif t == TB:
                mt = b_tid if b_tid is not None else 6
            elif t == TC:
                mt = 9
            else:
                mt = 100 + t                         # no such model thread
            out.append((mt, kept))
        return out

    def post_check(self, prog, summary, proj):
        f = dict(kv.split("=", 1) for kv in summary.split(" ") if "=" in kv)
        if VARIANT != "fixed":
            return None
        if f.get("quiescent") != "1" or f.get("finished") != "1":
            return "model not quiescent at the end of a complete implementation run: " + summary
        for k in ("uaf", "baddtor", "dup", "ordbad"):
            if f.get(k) != "0":
                return "fixed model flags %s on an implementation trace: %s" % (k, summary)
        for k in ("srcclctor", "srccldtor", "trgclctor", "trgcldtor", "clcompl"):
            if f.get(k) != "1":
                return "fixed model: %s = %s at the end: %s" % (k, f.get(k), summary)
        return None


class TakeUntilASan(TakeUntil):
    """Same driver under AddressSanitizer/UBSan: the stream is really freed when the consumer finishes, the
    storage of the destroyed cleanup-op is ASan-poisoned.  Thorough only."""
    name = "take_until/TakeUntil-asan"; cfg = "shimasan17"
    maxruns = {"quick": 500, "thorough": 4000}
    nrandom = {"quick": 50, "thorough": 500}

    def programs(self, tier):
        return [] if tier == "quick" else [p + ("realfree",) for p in QUICK]

    def model_args(self, prog):
        return "%s %s" % (VARIANT, prog[4])
