"""K1 units of property C19 (cancel wrappers): cancellable/try_complete here; detach_on_cancel and
stop_on_request live in cancel_detach.py / cancel_sor.py and are re-exported below."""
import os, re
import vlib
from k1 import Unit


class TaggedChk:
    """Proxy around vlib.Check: puts the tag of a direct-monitor verdict ("USE-AFTER-DESTROY: ...")
    into the violation key, so that a known finding is matched by what fails, not only where."""
    def __init__(self, chk):
        object.__setattr__(self, "_chk", chk)
    def __getattr__(self, n):
        return getattr(self._chk, n)
    def __setattr__(self, n, v):
        setattr(self._chk, n, v)
    def violation(self, key, replay_path, no_input=False, text=""):
        if key.endswith("/monitor"):
            m = re.match(r"\s*([A-Z][A-Z0-9-]+):", text or "")
            if m:
                key = key + ":" + m.group(1)
                # one replay file per (program, tag): k1 names it by program only
                try:
                    import json
                    obj = json.load(open(replay_path))
                    if obj.get("verdict", "").strip().startswith(m.group(1)):
                        newp = replay_path.replace(".json", "_" + m.group(1).replace("-", "_") + ".json")
                        json.dump(obj, open(newp, "w"), indent=1)
                        replay_path = newp
                except (OSError, ValueError):
                    pass
        return self._chk.violation(key, replay_path, no_input=no_input, text=text)


def cancellable_variant():
    """Which protocol is in the tree: 'fixed' (start_done handshake) or 'asis'.  The model variant is
    chosen by this syntactic probe; the lock-step tie then validates the choice."""
    try:
        src = open(os.path.join(vlib.REPO, "include/unifex/cancellable.hpp")).read()
    except OSError:
        return "asis"
    return "fixed" if "start_done" in src else "asis"


class Cancellable(Unit):
    name = "cancellable"; driver = "k1_cancellable"; cfg = "shim17"; handler = "cancellable"
    maxruns = {"quick": 2500, "thorough": 30000}
    nrandom = {"quick": 300, "thorough": 3000}
    def programs(self, tier):
        progs = []
        for m in ("late", "early"):
            for n in ("sync", "async", "none"):
                for s in ("stop", "nostop", "prestop"):
                    if (n, s) == ("none", "nostop"):
                        continue   # nothing would ever complete the operation
                    progs.append((m, n, s))
        return progs
    def model_args(self, prog):
        return "%d %s %d" % (prog[0] == "early", prog[1][0], cancellable_variant() == "fixed")
    TOUCH = re.compile(r"^(state |cb |nested\.|ext (REG|DEREG)|root )")
    def project(self, prog, events):
        fixed = cancellable_variant() == "fixed"
        prestop = prog[2] == "prestop"
        out = []
        in_tc = {}
        reg_done = False        # thread 0 decided registered / inline
        set_seen = False
        sync_loads = 0
        destroyed = False
        self._truncated = False
        for e in events:
            m = re.match(r"t(\d+) (\S+) ?(.*)$", e)
            t, name, rest = int(m.group(1)), m.group(2), m.group(3)
            if name == "!tc.begin":
                in_tc[t] = True; continue
            if name in ("!tc.win", "!tc.lose"):
                in_tc[t] = False; continue
            if name == "!op_destroyed":
                destroyed = True; out.append((t, "op_destroyed")); continue
            if destroyed and t != 3 and (name == "c.state" or name.startswith("c.cb") or name.startswith("!nested.")):
                # the storage is gone (0xAB): from here on the implementation computes on garbage;
                # the direct monitor has already reported it
                self._truncated = True
                break
            if name == "ext.state":
                mc = re.match(r"C\.(\S+) (\d+)->(\d+) (ok|fail)", rest)
                ml = re.match(r"L\.\S+ (\d+)", rest)
                if mc and mc.group(4) == "ok" and mc.group(2) == "0" and mc.group(3) == "3":
                    set_seen = True
                    out.append((2, "ext SET"))
                elif in_tc.get(t):
                    if mc and mc.group(4) == "ok" and mc.group(1) == "acq":
                        out.append((t, "ext DEREG"))
                elif t == 0 and not reg_done and not (prestop and not set_seen):
                    if mc and mc.group(4) == "ok" and mc.group(2) == "0" and mc.group(3) == "2":
                        reg_done = True; out.append((0, "ext REG 0"))
                    elif (ml and int(ml.group(1)) & 1) or (mc and mc.group(4) == "fail" and int(mc.group(2)) & 1):
                        reg_done = True; out.append((0, "ext REG 1"))
            elif name.startswith("c.cb"):
                if rest in ("S.rel 1", "L.acq 1"):
                    out.append((t, "cb " + rest))
            elif name == "c.state":
                ml = re.match(r"L\.(\S+) (\d+)", rest)
                if ml and in_tc.get(t):
                    if int(ml.group(2)) & 16:          # fixed: the wait for start_done is over
                        out.append((t, "state " + rest))
                else:
                    out.append((t, "state " + rest))
            elif name == "c.sync":
                ml = re.match(r"L\.(\S+) (\d+)", rest)
                if ml and t == 0:
                    sync_loads += 1
                    if fixed or sync_loads == 1 or ml.group(2) == "1":
                        out.append((t, "sync " + rest))   # as is: later loads of 0 are the spin
                else:
                    out.append((t, "sync " + rest))
            elif name == "n.slot":
                out.append((t, "slot " + rest))
            elif name in ("!nested.start", "!nested.stop"):
                if rest:           # "nested.stop ON-DESTROYED-OP"
                    self._truncated = True
                    break
                out.append((t, name[1:]))
            elif name == "!root":
                out.append((t, "root " + rest))
        if not hasattr(self, "_trunc"):
            self._trunc = {}
        self._trunc[(tuple(prog), tuple(out))] = self._truncated
        return out
    def post_check(self, prog, summary, proj):
        # re-derive what project() computed for exactly this projected trace
        late = 0; seen_root = False; destroyed = False
        for t, ev in proj:
            if ev == "op_destroyed":
                destroyed = True
            if ev.startswith("root "):
                if seen_root:
                    late += 1
                seen_root = True
            elif seen_root and self.TOUCH.match(ev) and t != 3:
                late += 1
        m = re.search(r"late=(\d+)", summary)
        if not m or int(m.group(1)) != late:
            return "ghost accounting differs: implementation trace has %d member accesses after the completion, model says %s" % (late, summary)
        if self._trunc.get((tuple(prog), tuple(proj))):
            return None    # truncated at a use-after-destroy (reported by the direct monitor)
        if "dangling=0" not in summary or "hook_bad=0" not in summary:
            return "model flags a bad hook / dangling flag store: " + summary
        if not re.search(r"completions=(value|done) ", summary):
            return "model did not complete exactly once: " + summary
        m = re.search(r"enabled=(\S*)", summary)
        allowed = {"2"} if prog[2] == "nostop" else set()    # nobody ever asked for a stop
        if not m or not set(filter(None, m.group(1).split(","))) <= allowed:
            return "model not quiescent at the end of a complete implementation run: " + summary
        return None


class CancellableAsan(Cancellable):
    """the same driver under AddressSanitizer (thorough tier): the operation storage is really freed"""
    name = "cancellable-asan"; cfg = "shimasan17"
    maxruns = {"quick": 0, "thorough": 4000}
    nrandom = {"quick": 0, "thorough": 500}
    def programs(self, tier):
        return [] if tier == "quick" else Cancellable.programs(self, tier)


class Canary(Unit):
    """canary / watcher / guard: both destructors and alive() on two threads"""
    name = "canary"; driver = "k1_canary"; cfg = "shim17"; handler = "canary"
    bound = {"quick": 3, "thorough": 5}
    maxruns = {"quick": 4000, "thorough": 60000}
    nrandom = {"quick": 300, "thorough": 3000}
    def programs(self, tier):
        return [("0", "0"), ("1", "0"), ("1", "1")]
    def model_args(self, prog):
        return "%s %s" % prog
    def project(self, prog, events):
        out = []; ready = False
        for e in events:
            m = re.match(r"t(\d+) (\S+) ?(.*)$", e)
            t, name, rest = int(m.group(1)), m.group(2), m.group(3)
            if name == "!ready":
                ready = True; continue
            if not ready:
                continue           # construction: canary.watch() happens before both threads
            if name in ("!use", "!w_gone", "!c_gone"):
                if rest:
                    break          # "use AFTER-DESTROY": reported by the monitor
                out.append((t, name[1:])); continue
            loc = {"k.cw": "cw", "k.wc": "wc", "k.ws": "ws"}.get(name)
            if not loc:
                continue
            # spins: the loads / CAS failures that merely wait are dropped
            if loc == "ws" and rest == "L.acq 2":
                continue                                   # ~canary waits while state_ == dead
            if loc == "wc" and rest.startswith("L.acq") and rest != "L.acq 0":
                continue                                   # ~watcher waits for canary_ == null
            if loc == "cw" and rest.startswith("L.acq") and rest != "L.acq 0":
                continue                                   # ~canary waits for watcher_ == null
            if loc == "cw" and rest == "C.acq W|1->0 fail":
                continue                                   # ~watcher retries while watcher_ is locked
            out.append((t, loc + " " + rest))
        return out
    def post_check(self, prog, summary, proj):
        if "late=0" not in summary or "blocked_unheld=0" not in summary:
            return "model flags a late access / an unjustified wait: " + summary
        if "quiescent=1" not in summary:
            return "model not quiescent at the end of a complete implementation run: " + summary
        return None


class CanaryAsan(Canary):
    name = "canary-asan"; cfg = "shimasan17"
    def programs(self, tier):
        return [] if tier == "quick" else Canary.programs(self, tier)


class BasicSender(Unit):
    """create_basic_sender (C++20): recursive mutex + phase + recursion counter, safe / unsafe callbacks"""
    name = "basic_sender"; driver = "k1_basic_sender"; cfg = "shim20"; handler = "basicsender"
    maxruns = {"quick": 2000, "thorough": 20000}
    nrandom = {"quick": 300, "thorough": 3000}
    FIRST = {"sync": "s", "inl": "i", "safe": "f", "unsafe": "u", "none": "n"}
    BREQ = {"nobs": "n", "valstop": "v", "stopval": "s"}
    def programs(self, tier):
        progs = []
        for f in ("sync", "inl", "safe", "unsafe", "none"):
            for s2 in ("nosecond", "safe"):
                for st in ("stop", "nostop", "prestop"):
                    if (f, st) == ("none", "nostop"):
                        continue
                    if (f, s2) == ("unsafe", "safe"):
                        continue   # the user would have to disarm the unsafe callback first
                    if tier == "quick" and st == "prestop" and s2 == "safe":
                        continue
                    progs.append((f, s2, st))
        # re-entrant stop requests: the body event that calls set_value also calls request_stop() on
        # the operation's own source (valstop: after the set_value, stopval: before it); restop: the
        # stop event requests stop again.  `nostop`: the body's request is the only one; `stop`: it
        # races with thread 3's.
        for f in ("sync", "inl", "safe", "unsafe", "none"):
            for bq in ("valstop", "stopval"):
                for s2 in ("nosecond", "safe"):
                    for st in ("nostop", "stop", "prestop"):
                        for rs in ("norestop", "restop"):
                            if (f, s2) == ("unsafe", "safe"):
                                continue
                            if f == "none" and s2 == "nosecond":
                                continue   # no event calls set_value: same as nobs
                            if st == "prestop" and (tier == "quick" or rs == "restop" or s2 == "safe" or bq == "stopval" or f not in ("sync", "safe")):
                                continue   # stopped early: no body event at all
                            if rs == "restop" and bq == "valstop":
                                continue   # thorough: the re-requesting stop event with stopval and with nobs (below)
                            if s2 == "safe" and f in ("sync", "inl") and (bq, st) not in (("valstop", "stop"), ("stopval", "nostop")):
                                continue   # the second callback finds the cell expired
                            if rs == "restop" and ((s2 == "safe" and f != "none") or (st == "stop" and (f, s2) != ("safe", "nosecond"))):
                                continue
                            if tier == "quick":
                                # the second callback only where it is the one that completes (none) or
                                # races with the first safe callback and thread 3 (safe + stop); the
                                # re-requesting stop event with the requests that dispatch it
                                # (stopval + nostop), otherwise not
                                if s2 == "safe" and not ((f == "none" and (bq, st) in (("valstop", "stop"), ("stopval", "nostop")))
                                                         or (f == "safe" and st == "stop")):
                                    continue
                                if (rs == "restop") != (bq == "stopval" and st == "nostop" and s2 == "nosecond"):
                                    continue
                                if f in ("sync", "inl") and (bq, st) == ("stopval", "stop"):
                                    continue
                            progs.append((f, s2, st, bq, rs))
        if tier != "quick":
            for f in ("safe", "unsafe", "none"):
                progs.append((f, "nosecond", "stop", "nobs", "restop"))
        return progs
    def model_args(self, prog):
        bq = prog[3] if len(prog) > 3 else "nobs"
        rs = prog[4] if len(prog) > 4 else "norestop"
        return "%s %d %s %d" % (self.FIRST[prog[0]], prog[1] == "safe", self.BREQ[bq], rs == "restop")
    TOUCH = re.compile(r"^(mutex |cb |body\.|ext (REG|DEREG)|root )")
    def project(self, prog, events):
        prestop = prog[2] == "prestop"
        out = []; reg_done = False; set_seen = False; destroyed = False; trunc = False
        pending = set()       # threads whose body announced a request_stop() not yet linearised
        t3_done = False       # thread 3's request_stop has been linearised
        calls = []            # the body's set_value / set_done calls in order
        parsed = []
        for e in events:
            m = re.match(r"t(\d+) (\S+) ?(.*)$", e)
            parsed.append((int(m.group(1)), m.group(2), m.group(3)))
        for k, (t, name, rest) in enumerate(parsed):
            if name == "!op_destroyed":
                destroyed = True; out.append((t, "op_destroyed")); continue
            if destroyed and t != 4 and (name == "b.mutex" or name.startswith("b.cb") or name.startswith("!body.")):
                trunc = True; break     # the storage is gone; reported by the direct monitor
            if name == "!body.reqstop":
                pending.add(t); continue
            if name in ("!body.set_value", "!body.set_done"):
                calls.append("value" if name.endswith("value") else "done"); continue
            if name == "ext.state":
                mc = re.match(r"C\.(\S+) (\d+)->(\d+) (ok|fail)", rest)
                ml = re.match(r"L\.\S+ (\d+)", rest)
                sees_stop = (ml and int(ml.group(1)) & 1) or (mc and mc.group(4) == "fail" and int(mc.group(2)) & 1)
                if mc and mc.group(4) == "ok" and mc.group(2) == "0" and mc.group(3) == "3":
                    # the winning request_stop: by a body event on its own thread, by thread 3, or
                    # (prestop) by the harness on thread 0 before the operation exists = model thread 3
                    set_seen = True
                    if t in pending:
                        pending.discard(t); out.append((t, "ext SET"))
                    else:
                        t3_done = True; out.append((3, "ext SET"))
                elif t in pending:
                    if sees_stop:      # stop already requested: this request_stop() is a no-op
                        pending.discard(t); out.append((t, "ext SETNO"))
                elif t == 3 and not t3_done:
                    if sees_stop:
                        t3_done = True; out.append((3, "ext SETNO"))
                elif t == 0 and not reg_done and not (prestop and not set_seen):
                    if mc and mc.group(4) == "ok" and mc.group(2) == "0" and mc.group(3) == "2":
                        reg_done = True; out.append((0, "ext REG 0"))
                    elif (ml and int(ml.group(1)) & 1) or (mc and mc.group(4) == "fail" and int(mc.group(2)) & 1):
                        reg_done = True; out.append((0, "ext REG 1"))
                elif mc and mc.group(4) == "ok" and mc.group(1) == "acq":
                    # lock(): remove_callback inside _op::complete() (the next event of this thread
                    # outside the source is the root completion, possibly after waiting for the
                    # callback) - or, on thread 3, request_stop re-locking after its callback
                    nxt = next(((n2, r2) for (t2, n2, r2) in parsed[k + 1:] if t2 == t and n2 != "ext.state"), None)
                    if nxt and (nxt[0] == "!root" or nxt[0].startswith("b.cb")):
                        out.append((t, "ext DEREG"))
            elif name.startswith("b.cb"):
                if rest in ("S.rel 1", "L.acq 1"):
                    out.append((t, "cb " + rest))
            elif name == "b.mutex":
                out.append((t, "mutex " + rest))
            elif name == "n.slot":
                out.append((t, "slot " + rest))
            elif name in ("!body.start", "!body.callback", "!body.stop", "!cb1.call", "!cb1.ret", "!cb2.call", "!cb2.ret"):
                out.append((t, name[1:]))
            elif name == "!root":
                out.append((t, "root " + rest))
        if not hasattr(self, "_trunc"):
            self._trunc = {}
        self._trunc[(tuple(prog), tuple(out))] = trunc
        if not hasattr(self, "_calls"):
            self._calls = {}
        self._calls.setdefault((tuple(prog), tuple(out)), set()).add(",".join(calls))
        return out
    def post_check(self, prog, summary, proj):
        late = 0; seen_root = False
        for t, ev in proj:
            if ev.startswith("root "):
                if seen_root:
                    late += 1
                seen_root = True
            elif seen_root and self.TOUCH.match(ev) and t != 4:
                late += 1
        m = re.search(r"late=(\d+)", summary)
        if not m or int(m.group(1)) != late:
            return "ghost accounting differs: implementation trace has %d accesses after the completion, model says %s" % (late, summary)
        m = re.search(r"badstop=(\d+)", summary)
        if not m or int(m.group(1)) != 0:
            return "model dispatched the stop event to an operation that was not started or had finished: " + summary
        if self._trunc.get((tuple(prog), tuple(proj))):
            return None
        # the body's set_value / set_done calls (ghost of the model) against the logged actions
        m = re.search(r"calls=(\S*) ", summary)
        want = self._calls.get((tuple(prog), tuple(proj)), set())
        if not m or want != {m.group(1)}:
            return "the body's set_value/set_done calls differ: implementation %s, model %s" % (sorted(want), summary)
        if not re.search(r"completions=(value|done) ", summary):
            return "model did not complete exactly once: " + summary
        m = re.search(r"enabled=(\S*)", summary)
        allowed = {"3"} if prog[2] == "nostop" else set()
        if not m or not set(filter(None, m.group(1).split(","))) <= allowed:
            return "model not quiescent at the end of a complete implementation run: " + summary
        return None


class BasicSenderAsan(BasicSender):
    name = "basic_sender-asan"; cfg = "shimasan20"
    maxruns = {"quick": 0, "thorough": 3000}
    nrandom = {"quick": 0, "thorough": 500}
    def programs(self, tier):
        return [] if tier == "quick" else BasicSender.programs(self, tier)


def units(tier):
    """every K1 unit of C19, in the order of the brief (the ASan builds only in the thorough tier)"""
    asan = tier != "quick"
    us = [Cancellable()] + ([CancellableAsan()] if asan else [])
    try:
        from units import cancel_detach
        us += [getattr(cancel_detach, n)() for n in (("DetachOnCancel", "DetachOnCancelAsan") if asan else ("DetachOnCancel",)) if hasattr(cancel_detach, n)]
    except ImportError:
        pass
    try:
        from units import cancel_sor
        us += [getattr(cancel_sor, n)() for n in (("StopOnRequest", "StopOnRequestAsan", "StopOnRequestASan") if asan else ("StopOnRequest",)) if hasattr(cancel_sor, n)]
    except ImportError:
        pass
    us.append(Canary())
    if asan:
        us.append(CanaryAsan())
    us.append(BasicSender())
    if asan:
        us.append(BasicSenderAsan())
    return us
