"""K1 unit for C09: the real spawn_future (harness/k1_future.cpp) against the model Future
(coq/Proto/FutureDefs.v, handler 'future')."""
import os, re
from k1 import Unit

# Which variant of the model the real code is tied to:
#   "as_written"  the code of /repo before the repairs of findings 7, 13 and 14 (p_fixed = false)
#   "fixed"       /repo with the three repairs applied                        (p_fixed = true)
# Flip this single line to "fixed" once the diffs of the C09 report are applied to /repo.
# (The repairs touch disjoint programs: 7 = drop/conndrop of a value whose copy throws, 13 = the
# await/stop programs, 14 = the conndrop programs; with only some of them applied the programs of
# the others keep failing, nothing else does.)
MODEL_VARIANT = "fixed"
# (development / mutation tests only: VERIF_C09_MODEL_VARIANT=fixed overrides the constant)
VARIANT = os.environ.get("VERIF_C09_MODEL_VARIANT") or MODEL_VARIANT

_ST = {"fut.state", "fut.evt", "fut.src", "ext.state", "cb.completed"}
_ACTIONS = ("!val.ctor shared", "!val.dtor shared", "!val.dtor BAD shared", "!val.move THROWS",
            "!fut.dealloc", "!sched.post")


class SpawnFuture(Unit):
    name = "spawn_future/FutureState"; driver = "k1_future"; cfg = "shim17"; handler = "future"
    maxruns = {"quick": 3000, "thorough": 40000}
    nrandom = {"quick": 200, "thorough": 2000}

    def programs(self, tier):
        progs = []
        for o in "ved":
            for fp in ("drop", "await", "stop"):
                progs.append(("v2", o, fp, "nofault"))
        for fp in ("drop", "await", "stop"):
            progs.append(("v2", "v", fp, "fault"))
        # the future is connected but its operation state is destroyed without being started
        progs += [("v2", "v", "conndrop", "nofault"), ("v2", "d", "conndrop", "nofault")]
        if tier != "quick":
            progs += [("v2", "e", "conndrop", "nofault"), ("v2", "v", "conndrop", "fault")]
        # the v1 scope (nest = attach): checked by the direct monitor only.  attach puts its own stop
        # source in between and answers a stop request by completing the spawned operation with done
        # *inside* request_stop (so complete() runs nested in drop() on thread Fut): not this model.
        progs += [("v1", "v", "drop", "nofault"), ("v1", "v", "drop", "fault"), ("v1", "e", "await", "nofault")]
        # a throwing allocation / connect inside spawn_future (strong exception guarantee): monitor only
        progs += [("v2", "v", "allocthrow", "nofault"), ("v2", "v", "connthrow", "nofault"),
                  ("v1", "v", "connthrow", "nofault")]
        if tier != "quick":
            progs += [("v1", o, fp, "nofault") for o in "ved" for fp in ("drop", "await")
                      if ("v1", o, fp, "nofault") not in progs]
            progs += [("v1", "v", "await", "fault")]
        return progs

    def tied(self, prog):
        return prog[0] != "v1" and prog[2] in ("drop", "await", "stop", "conndrop")

    def model_args(self, prog):
        return "%s %s %s %s" % (VARIANT, prog[1], prog[3], prog[2])

    def project(self, prog, events):
        if not self.tied(prog):
            return []
        fp = prog[2]
        evs = []
        for e in events:
            m = re.match(r"t(\d+) (\S+) ?(.*)$", e)
            evs.append((int(m.group(1)), m.group(2), m.group(3)))
        # request_stop on the spawned operation's stop source: first access = SET, the last access
        # of the same thread = END (the leaf's own registration happens before '!spawned' and its
        # deregistration on thread 0; neither belongs to the model)
        spawned = next((i for i, (t, n, r) in enumerate(evs) if n == "!spawned"), len(evs))
        connected = next((i for i, (t, n, r) in enumerate(evs) if n == "!connected"), len(evs))
        src_last = {}
        src_set = {}
        for i, (t, n, r) in enumerate(evs):
            if n == "fut.src" and t != 0 and i > spawned:
                if re.match(r"C\.\S+ 0->3 ok", r):
                    src_set[t] = i
                if t in src_set:
                    src_last[t] = i
        out = []
        for i, (t, n, r) in enumerate(evs):
            if n == "fut.state":
                out.append((t, "fut.state " + r))
            elif n == "fut.evt":
                r2 = re.sub(r"#\d+", "W", r)
                if r2.startswith("L.") and fp in ("drop", "conndrop") and not r2.endswith("SIG"):
                    continue            # drop spinning on evt_.ready()
                out.append((t, "fut.evt " + r2))
            elif n == "fut.src":
                if src_set.get(t) == i:
                    out.append((t, "fut.src SET"))
                elif src_last.get(t) == i:
                    out.append((t, "fut.src END"))
            elif n == "ext.state":
                if re.match(r"C\.\S+ \d+->\d+ ok", r) or r.startswith("S."):
                    out.append((t, "ext.state " + r))
                elif t == 1 and spawned < i < connected:
                    # registration of the stop callback: try_lock_unless_stop_requested sees the stop bit
                    mm = re.match(r"L\.\S+ (\d+)$", r) or re.match(r"C\.\S+ (\d+)->\d+ fail", r)
                    if mm and int(mm.group(1)) & 1:
                        out.append((t, "ext.state OBS %d" % int(mm.group(1))))
            elif n == "cb.completed":
                if r.endswith(" 1"):
                    out.append((t, "cb.completed " + r))
            elif n.startswith("!"):
                a = (n + " " + r).strip()
                if a in _ACTIONS:
                    out.append((t, a))
                elif n == "!root":
                    out.append((t, "!root " + r.split(" ")[0]))
        return out

    def nontrivial(self, proj):
        return len(proj) > 0 and Unit.nontrivial(self, proj)

    def post_check(self, prog, summary, proj):
        if not self.tied(prog):
            return None
        f = dict(kv.split("=", 1) for kv in summary.split(" ") if "=" in kv)
        if f.get("quiescent") != "1":
            return "model not quiescent at the end of a complete implementation run: " + summary
        if f.get("deleted") != "1":
            return "model: shared state deleted %s times: %s" % (f.get("deleted"), summary)
        if VARIANT == "fixed":
            if f.get("uaf") != "0" or f.get("bad") != "0":
                return "fixed model reports use-after-free on an implementation trace: " + summary
            want = {"values_": "values_", "error_": "error_", "none": ""}[f.get("constructed")]
            if f.get("destroyed") != want:
                return "fixed model: constructed/destroyed members differ: " + summary
        want_root = "" if prog[2] in ("drop", "conndrop") else ("done" if f.get("abwon") == "1" else f.get("expected"))
        if f.get("roots") != want_root:
            return "model: future result %r, expected %r: %s" % (f.get("roots"), want_root, summary)
        return None


# ---------------------------------------------------------------------------------------------
# Faults during spawn: harness/k3_spawn_faults.cpp (sequential, cfg plain17) sweeps the k-th fault
# point (allocation, the scope's nest, the sender's copy/move -- which is how nest() of the real
# scopes throws --, connect) over spawn_detached and spawn_future in the v2 / v1 scopes and in
# wrapper scopes with a throwing nest; the direct monitor is evaluated in the driver, every run is
# also compared with the prediction of the SpawnFault model (handler 'spawnfault').
def spawn_fault_cases(tier):
    cases = []
    for sc in ("v2", "v1", "fv2", "fv1"):
        for kind in ("v", "d", "a"):
            cases.append(("detached", sc, kind, "drop"))
        for kind in ("v", "e", "d", "a"):
            for post in ("drop", "await"):
                cases.append(("future", sc, kind, post))
    # the sender handed over as an lvalue with a throwing copy and a noexcept move (real scopes)
    for sc in ("v2", "v1"):
        cases += [("detached", sc, "v", "drop", "lv"), ("future", sc, "v", "drop", "lv"), ("future", sc, "a", "await", "lv")]
    # spawn_detached terminates the process only for an error completion
    cases += [("detached", "v2", "e", "fork"), ("detached", "v2", "v", "fork"),
              ("detached", "v2", "d", "fork"), ("detached", "v1", "e", "fork")]
    return cases


def _stage(fn, where, nth_nest):
    if where == "alloc":
        return "alloc"
    if where == "nest":
        return "nestfut" if (fn == "future" and nth_nest == 0) else "nestop"
    if where in ("move", "copy"):
        return "nestop"
    if where == "connect":
        return "connect"
    return "none"


def run_spawn_faults(chk):
    import vlib
    FN = {"detached": "spawn_detached", "future": "spawn_future"}
    st = chk.cov.setdefault("spawn_faults", {"cases": 0, "runs": 0, "fault_points": 0, "model_compared": 0})
    exe, err = vlib.build_driver("k3_spawn_faults", "plain17")
    if err:
        p = chk.replay_file("build_k3_spawn_faults", {"kind": "build-failure", "driver": "k3_spawn_faults", "error": err})
        chk.violation("spawn_faults/build", p, no_input=True, text="driver k3_spawn_faults does not compile against /repo")
        return
    cases = spawn_fault_cases(chk.tier)
    lines = [" ".join(c) for c in cases]
    outs = vlib.run_impl_lines(exe, lines, timeout=300)
    todo = []   # (case, where, k, impl "t/a/d/s", model line)
    for c, line, o in zip(cases, lines, outs):
        fn, sc = FN[c[0]], c[1]
        st["cases"] += 1
        rp = {"kind": "spawn-fault-sweep", "case": line, "output": o, "replay": "echo '%s' | %s" % (line, exe)}
        if o.startswith("CRASH") or " | " not in o:
            p = chk.replay_file("spawn_faults_%s" % "_".join(c), rp)
            chk.violation("spawn_faults/%s/%s/crash" % (fn, sc), p, text="%s: %s" % (line, o[:200]))
            continue
        parts = o.split(" | ")
        verdict = parts[-1]
        runs = next((x[5:] for x in parts if x.startswith("runs=")), "")
        if verdict.startswith("BAD"):
            for item in verdict[4:].split(";"):
                m = re.match(r"(\w+)@(\d+):(.*)$", item)
                where, k, whats = m.group(1), m.group(2), m.group(3)
                for w in re.findall(r"(\w+)\(([^)]*)\)", whats):
                    p = chk.replay_file("spawn_faults_%s_%s_%s" % ("_".join(c), where, w[0]), dict(rp, fault=where, k=k, what=w[0], detail=w[1]))
                    chk.violation("spawn_faults/%s/%s/%s/%s" % (fn, sc, where, w[0]), p,
                                  text="%s with the %s fault (#%s) in scope %s: %s (%s)" % (fn, where, k, sc, w[0], w[1]))
        nth_nest = 0
        for r in [x for x in runs.split(",") if x]:
            m = re.match(r"(\w+)@(\d+)=(\S+)$", r)
            where, k, vec = m.group(1), int(m.group(2)), m.group(3)
            st["runs"] += 1
            chk.cov["evaluations"] += 1
            if where != "none":
                st["fault_points"] += 1
            todo.append((c, where, k, vec, "spawnfault %s %s" % (c[0], _stage(c[0], where, nth_nest))))
            if where == "nest":
                nth_nest += 1
    if not todo:
        return
    mouts = vlib.model_run([t[4] for t in todo])
    for (c, where, k, vec, ml), mo in zip(todo, mouts):
        st["model_compared"] += 1
        if mo.split(" ")[0] == vec and mo.endswith("refs=0"):
            chk.cov["traces_validated_against_impl"] += 1
            chk._distinct.add(("spawn_faults", c, where, k))
            continue
        chk.cov["disagreements_checked"] += 1
        fn, sc = FN[c[0]], c[1]
        p = chk.replay_file("spawn_faults_model_%s_%s" % ("_".join(c), where),
                            {"kind": "correspondence", "obligation": "k3_spawn_faults run vs SpawnFault model (threw/allocs/deallocs/started)",
                             "case": " ".join(c), "fault": where, "k": k, "impl": vec, "model_query": ml, "model": mo,
                             "replay": "echo '%s' | %s" % (" ".join(c), exe)})
        chk.violation("spawn_faults/%s/%s/%s/model" % (fn, sc, where), p,
                      text="%s fault %s@%d: impl threw/allocs/deallocs/started=%s model=%s" % (" ".join(c), where, k, vec, mo))
