"""K1 units for C06 (schedulers): manual_event_loop/single_thread_context, atomic_intrusive_queue."""
import re, itertools
from k1 import Unit

class EventLoop(Unit):
    """real manual_event_loop / single_thread_context vs coq/Proto/EventLoopDefs.v"""
    name = "event_loop/EventLoop"; driver = "k1_event_loop"; cfg = "shim17"; handler = "eventloop"
    maxruns = {"quick": 600, "thorough": 6000}
    nrandom = {"quick": 80, "thorough": 500}
    def programs(self, tier):
        if tier == "quick":
            return [("ctx", "2", "1.0"), ("ctx", "1,1", "2.0"), ("ctx", "2,1", "1.1"), ("ctx", "1,1,1", "-"),
                    ("ctx", "2,2", "-"), ("ctx", "2,1,1", "3.0"),
                    ("ctxw", "1", "-"), ("ctxw", "1,1", "1.0"), ("ctxw", "2,1", "-"),
                    ("loop", "1", "-"), ("loop", "2", "1.1"), ("loop", "1,1", "-"), ("loop", "2,1", "2.0")]
        progs = []
        for mode in ("ctx", "ctxw", "loop"):
            for counts in ("1", "2", "3", "1,1", "2,1", "2,2", "1,1,1", "2,1,1", "2,2,1", "2,2,2", "1,1,1,1", "3,2"):
                progs.append((mode, counts, "-"))
                first = counts.split(",")
                progs.append((mode, counts, "1.0"))
                if len(first) > 1:
                    progs.append((mode, counts, "2.0,1.%d" % (int(first[0]) - 1)))
        return progs
    def model_args(self, prog):
        return "%d %s %s" % (1 if prog[0] == "loop" else 0, prog[1], prog[2])
    def project(self, prog, events):
        out = []
        for e in events:
            m = re.match(r"t(\d+) (\S+) ?(.*)$", e)
            t, name, rest = int(m.group(1)), m.group(2), m.group(3)
            if name == "loop.mutex":
                out.append((t, "mutex " + rest.split(".")[0]))
            elif name == "loop.cv":
                if rest.startswith("CW"):
                    out.append((t, "cv CW"))
                else:
                    out.append((t, "cv CN " + rest.split("->")[1]))
            elif name == "ctx.thread":
                out.append((t, "thread " + rest.split(".")[0]))
            elif name.startswith("st"):
                it = name[2:]
                mm = re.match(r"C\.\S+ (\d+)->(\d+) ok", rest)
                if mm and not int(mm.group(1)) & 1 and int(mm.group(2)) & 1:
                    out.append((t, "cancel " + it))
                mm = re.match(r"L\.acq (\d+)", rest)
                if mm:
                    out.append((t, "obs %s %d" % (it, int(mm.group(1)) & 1)))
            elif name == "!run":
                out.append((t, "run " + rest.split(" ctx=")[0]))
        return out
    def post_check(self, prog, summary, proj):
        if "final=1" not in summary:
            return "model not final at the end of a complete implementation run: " + summary
        total = sum(int(x) for x in prog[1].split(","))
        m = re.search(r"executed=(\S*) queue=(\S*) late=(\S*)", summary)
        ex = [x for x in m.group(1).split(",") if x]
        qu = [x for x in m.group(2).split(",") if x]
        if len(ex) + len(qu) != total:
            return "model executed+queued != items: " + summary
        if prog[0] != "loop" and qu:
            return "items left in the queue: " + summary
        return None

class AtomicQueue(Unit):
    """real atomic_intrusive_queue<Item,&Item::next> vs coq/Proto/AtomicQueueDefs.v"""
    name = "atomic_queue/AtomicQueue"; driver = "k1_atomic_queue"; cfg = "shim17"; handler = "atomicqueue"
    maxruns = {"quick": 600, "thorough": 2500}
    nrandom = {"quick": 80, "thorough": 300}
    def programs(self, tier):
        if tier == "quick":
            return [("active", "2", "MMF"), ("active", "1,1", "MMF"), ("active", "2,1", "MDMF"),
                    ("active", "1,1,1", "MMF"), ("active", "2,2", "IDMF"), ("active", "1,1", "IADF"),
                    ("inactive", "1,1", "MF"), ("inactive", "2,1", "DMF"), ("inactive", "1", "AMF"),
                    ("active", "2,1,1", "MMMF"), ("active", "2,1", "RMRF"), ("inactive", "1,1", "RRF"),
                    ("inactive", "2o,1", "MF"), ("active", "1o,1o", "MMF"), ("active", "2o,1", "MRMF")]
        progs = []
        for init in ("active", "inactive"):
            for counts in ("1", "2", "3", "1,1", "2,1", "2,2", "1,1,1", "2,1,1", "2,2,2", "3,3", "1,1,1,1",
                           "2o", "1o,1", "2o,1o", "1o,1o,1"):
                for scr in ("F", "MF", "MMF", "MMMF", "IDF", "IADF", "DDF", "MDMDF", "IMAMF", "AF", "AMMF", "RRF", "MRMF"):
                    progs.append((init, counts, scr))
        return progs
    def model_args(self, prog):
        return "%d %s %s" % (1 if prog[0] == "active" else 0, prog[1], prog[2])
    def project(self, prog, events):
        out = []
        for e in events:
            m = re.match(r"t(\d+) (\S+) ?(.*)$", e)
            t, name, rest = int(m.group(1)), m.group(2), m.group(3)
            if name == "q.head":
                out.append((t, "head " + rest))
            elif name == "!wake":
                out.append((t, "wake " + rest))
            elif name == "!direct":
                out.append((t, "direct " + rest))
            elif name == "!batch":
                out.append((t, "batch [%s]" % rest.strip()))
            elif name == "!rbatch":
                out.append((t, "rbatch [%s]" % rest.strip()))
        return out
    def post_check(self, prog, summary, proj):
        if "final=1" not in summary:
            return "model not final at the end of a complete implementation run: " + summary
        m = re.search(r"delivered=(\S*) enq=(\S*) stack=(\S*) ", summary)
        if prog[2].endswith("F") and (m.group(1) != m.group(2) or m.group(3)):
            return "after the final drain delivered != enqueued: " + summary
        total = sum(int(x.rstrip("o")) for x in prog[1].split(","))
        if len([x for x in m.group(2).split(",") if x]) != total:
            return "not every enqueue took effect: " + summary
        return None

class ThreadPool(Unit):
    """real static_thread_pool vs coq/Proto/ThreadPoolDefs.v"""
    name = "thread_pool/ThreadPool"; driver = "k1_thread_pool"; cfg = "shim17"; handler = "threadpool"
    maxruns = {"quick": 450, "thorough": 6000}
    nrandom = {"quick": 60, "thorough": 600}
    def programs(self, tier):
        if tier == "quick":
            return [("dtor", "1", "1,1"), ("dtor", "2", "1"), ("dtor", "2", "1,1"), ("dtor", "2", "2,1"),
                    ("dtor", "3", "1,1"), ("race", "1", "1"), ("race", "2", "1,1"), ("race", "2", "2")]
        progs = []
        for mode in ("dtor", "race"):
            for k in ("1", "2", "3"):
                for counts in ("1", "2", "1,1", "2,1", "2,2", "1,1,1", "2,1,1", "3", "1,1,1,1"):
                    progs.append((mode, k, counts))
        return progs
    def model_args(self, prog):
        return "%d %s %s" % (1 if prog[0] == "race" else 0, prog[1], prog[2])
    def project(self, prog, events):
        out = []
        for e in events:
            m = re.match(r"t(\d+) (\S+) ?(.*)$", e)
            t, name, rest = int(m.group(1)), m.group(2), m.group(3)
            if name == "pool.next":
                out.append((t, "next " + rest))
            elif re.match(r"q\d+\.mutex$", name):
                q = name.split(".")[0]
                if rest.startswith("ML"):
                    out.append((t, "%s ML %s" % (q, rest.split(" ")[1].split("->")[0])))
                else:
                    out.append((t, "%s MU" % q))
            elif re.match(r"q\d+\.cv$", name):
                out.append((t, "%s %s" % (name.split(".")[0], rest.split(".")[0])))
            elif re.match(r"thr\d+$", name):
                out.append((t, "%s %s" % (name, rest.split(".")[0])))
            elif name == "!run":
                out.append((t, "run " + rest))
        return out
    def post_check(self, prog, summary, proj):
        if "final=1" not in summary:
            return "model not final at the end of a complete implementation run: " + summary
        total = sum(int(x) for x in prog[2].split(","))
        m = re.search(r"executed=(\S*) queued=(\S*) late=(\S*)", summary)
        ex = [x for x in m.group(1).split(",") if x]
        qu = [x for x in m.group(2).split(",") if x]
        if len(ex) + len(qu) != total:
            return "model executed+queued != items: " + summary
        if prog[0] == "dtor" and qu:
            return "items left in a queue: " + summary
        return None

class NewThread(Unit):
    """real new_thread_context vs coq/Proto/NewThreadDefs.v"""
    name = "new_thread/NewThread"; driver = "k1_new_thread"; cfg = "shim17"; handler = "newthread"
    maxruns = {"quick": 400, "thorough": 8000}
    nrandom = {"quick": 60, "thorough": 800}
    def programs(self, tier):
        if tier == "quick":
            return [("1", "-"), ("2", "1.0"), ("1,1", "-"), ("1,1", "2.0"), ("2,1", "-"), ("1,1,1", "1.0"),
                    ("1", "-", "d"), ("2,1", "1.0", "d")]      # "d": the completion destroys the operation state
        return [(c, st) + d for c in ("1", "2", "3", "1,1", "2,1", "2,2", "1,1,1", "2,1,1", "1,1,1,1")
                for st in ("-", "1.0") for d in ((), ("d",))]
    def model_args(self, prog):
        return "%s %s" % (prog[0], prog[1])
    def project(self, prog, events):
        counts = [int(x) for x in prog[0].split(",")]
        p = len(counts)
        offs = [sum(counts[:i]) for i in range(p)]
        # which operation does each created thread run?  (its first event locks that operation's mutex)
        ren = {}
        for e in events:
            m = re.match(r"t(\d+) op(\d+)\.(\d+)\.mutex ML", e)
            if m and int(m.group(1)) > p and int(m.group(1)) not in ren:
                ren[int(m.group(1))] = p + 1 + offs[int(m.group(2)) - 1] + int(m.group(3))
        out = []
        for e in events:
            m = re.match(r"t(\d+) (\S+) ?(.*)$", e)
            t, name, rest = int(m.group(1)), m.group(2), m.group(3)
            t = ren.get(t, t)
            if name == "nt.count":
                out.append((t, "count " + rest))
            elif name == "nt.mutex":
                out.append((t, "cm " + rest.split(".")[0]))
            elif name == "nt.cv":
                out.append((t, "cv " + rest.split(".")[0]))
            elif name == "nt.tojoin":
                out.append((t, "join"))
            elif re.match(r"op\d+\.\d+\.mutex$", name):
                out.append((t, "op %s %s" % (name[2:-6], rest.split(".")[0])))
            elif name.startswith("st"):
                mm = re.match(r"L\.acq (\d+)", rest)
                if mm:
                    out.append((t, "obs %s %d" % (name[2:], int(mm.group(1)) & 1)))
            elif name == "!run":
                out.append((t, "run " + rest.split(" new=")[0]))
        return out
    def post_check(self, prog, summary, proj):
        if "final=1" not in summary:
            return "model not final at the end of a complete implementation run: " + summary
        total = sum(int(x) for x in prog[0].split(","))
        m = re.search(r"count=(\d+) completed=(\S*) retired=(\S*)", summary)
        if int(m.group(1)) != 0 or len([x for x in m.group(2).split(",") if x]) != total or \
           len([x for x in m.group(3).split(",") if x]) != total:
            return "model: not every thread completed/retired: " + summary
        return None
