"""K1 unit for C19 / detach_on_cancel: harness/k1_detach.cpp vs the model DetachOnCancel
(coq/Proto/DetachOnCancelDefs.v, handler 'detach')."""
import re
from k1 import Unit


class DetachOnCancel(Unit):
    name = "detach_on_cancel/DetachOnCancel"; driver = "k1_detach"; cfg = "shim17"; handler = "detach"
    maxruns = {"quick": 3000, "thorough": 60000}
    nrandom = {"quick": 600, "thorough": 3000}

    def programs(self, tier):
        progs = []
        for sm in ("stop", "prestop", "nostop"):
            for o in "ved":
                # the child's result only matters when it can reach the receiver
                if tier == "quick" and sm == "prestop" and o != "v":
                    continue
                progs.append((o, sm, "late"))
        # the child completes (with done) only when it sees the stop, inside request_stop / start()
        progs.append(("d", "stop", "inline"))
        progs.append(("d", "prestop", "inline"))
        # thread A completes the child only after the receiver completed: "done at once"
        progs.append(("v", "stop", "late", "hold"))
        progs.append(("e", "prestop", "late", "hold"))
        return progs

    def model_args(self, prog):
        return " ".join(prog)

    def project(self, prog, events):
        out = []                 # [tid, text]
        started = False
        set_tid = None           # the thread that performed request_stop on the receiver's source
        set_deregs = []          # indices in out of the DEREG candidates of that thread
        pending_lock = {}        # tid -> lock() on ext.state acquired, unlock not yet seen
        reg_done = sreg_done = False
        for e in events:
            m = re.match(r"t(\d+) (\S+) ?(.*)$", e)
            if not m:
                continue
            t, name, rest = int(m.group(1)), m.group(2), m.group(3)
            if name == "!start.begin":
                started = True
                continue
            if not started:
                continue         # construction, and the request_stop of the prestop programs
            if name == "ext.state":
                if t == 0:
                    # thread 0 only constructs the callback: REG at the successful lock, or the
                    # first observation of the stop bit (then the callback runs inline)
                    if reg_done:
                        continue
                    if re.match(r"C\.acq_rel 0->2 ok", rest):
                        out.append([t, "ext REG ok"]); reg_done = True
                    else:
                        mm = re.match(r"(?:L\.\S+ (\d+)$|C\.\S+ (\d+)->\d+ fail)", rest)
                        if mm and int(mm.group(1) or mm.group(2)) & 1:
                            out.append([t, "ext REG inline"]); reg_done = True
                    continue
                if re.match(r"C\.acq_rel 0->3 ok", rest):
                    out.append([t, "ext SET"]); set_tid = t
                elif re.match(r"C\.acq \d+->\d+ ok", rest):
                    pending_lock[t] = True      # lock(): remove_callback, or request_stop's re-lock
                elif rest.startswith("S.") and pending_lock.get(t):
                    # the unlock that ends the critical section: the decision taken under the lock
                    # is linearised here (nothing else can touch the source in between)
                    pending_lock[t] = False
                    out.append([t, "ext DEREG"])
                    if t == set_tid:
                        set_deregs.append(len(out) - 1)
            elif name.startswith("d.cb"):
                if re.match(r"S\.\S+ 1$", rest):
                    out.append([t, "cb " + rest])
                elif re.match(r"L\.\S+ 1$", rest):
                    out.append([t, "cb " + rest])
                elif re.match(r"L\.\S+ 0$", rest):
                    pass                        # spinning in remove_callback
                else:
                    out.append([t, "cb " + rest])
            elif name == "d.parentOp":
                out.append([t, "w " + rest])
            elif name == "d.src.state":
                if re.match(r"C\.acq_rel 0->3 ok", rest):
                    out.append([t, "src SET"])
                elif t == 0 and not sreg_done:
                    if re.match(r"C\.acq_rel 0->2 ok", rest):
                        out.append([t, "src REG 0"]); sreg_done = True
                    else:
                        mm = re.match(r"(?:L\.\S+ (\d+)$|C\.\S+ (\d+)->\d+ fail)", rest)
                        if mm and int(mm.group(1) or mm.group(2)) & 1:
                            out.append([t, "src REG 1"]); sreg_done = True
            elif name == "!child.destroyed":
                out.append([t, "child.destroyed"])
            elif name == "!root":
                out.append([t, "root " + rest])
            elif name == "!op_destroyed":
                out.append([t, "op_destroyed"])
        # the thread that ran the callback re-locks the source after the callback returned: its
        # last lock/unlock pair is request_stop's own, not a deregistration
        if set_deregs:
            del out[set_deregs[-1]]
        return [(t, s) for t, s in out]

    def post_check(self, prog, summary, proj):
        want = ["quiescent=1", "freed=1", "late=0", "opd=1", "underflow=0", "cbdtor=1"]
        for w in want:
            if not re.search(r"\b%s\b" % re.escape(w), summary):
                return "model summary at the end of a complete implementation run lacks %s: %s" % (w, summary)
        if not re.search(r"delivered=(value|error|done)@\d+ ", summary):
            return "model did not deliver exactly once: " + summary
        return None


class DetachOnCancelAsan(DetachOnCancel):
    """Same driver under AddressSanitizer (the parent operation and the heap state are really
    freed): thorough tier only."""
    name = "detach_on_cancel/DetachOnCancel-asan"; cfg = "shimasan17"
    maxruns = {"quick": 0, "thorough": 20000}
    nrandom = {"quick": 0, "thorough": 1000}

    def programs(self, tier):
        if tier == "quick":
            return []
        return DetachOnCancel.programs(self, tier)
