"""K1 units (one per protocol/driver pairing)."""
import re, itertools
from k1 import Unit

class WhenAllRefElect(Unit):
    name = "when_all/RefElect"; driver = "k1_when_all"; cfg = "shim17"; handler = "refelect"
    def programs(self, tier):
        progs = []
        sizes = (1, 2, 3) if tier == "quick" else (1, 2, 3, 4)
        for n in sizes:
            combos = list(itertools.product("ved", repeat=n))
            if n >= 3 and tier == "quick":
                combos = [c for c in combos if tuple(sorted(c)) == c][:8]
            if n == 4:
                combos = [c for c in combos if tuple(sorted(c)) == c]
            for c in combos:
                for sm in ("stop", "nostop", "prestop"):
                    if n >= 3 and sm != "stop" and tier == "quick":
                        continue
                    progs.append(("".join(c), sm))
        return progs
    def model_args(self, prog): return prog[0]
    def project(self, prog, events):
        n = len(prog[0]); out = []
        for e in events:
            m = re.match(r"t(\d+) (\S+) ?(.*)$", e)
            t, name, rest = int(m.group(1)), m.group(2), m.group(3)
            mt = t if t < n else n
            if name == "wa.refCount":
                out.append((mt, "rc " + rest))
            elif name == "wa.doneOrError":
                out.append((mt, "doe " + rest))
            elif name == "ext.state":
                mm = re.match(r"C\.\S+ (\d+)->(\d+) ok", rest)
                if mm and not int(mm.group(1)) & 1 and int(mm.group(2)) & 1:
                    out.append((n + 1, "ext SET"))
                mm = re.match(r"L\.acq (\d+)", rest)
                if mm:
                    out.append((mt, "ext OBS %d" % (int(mm.group(1)) & 1)))
            elif name == "!root":
                out.append((mt, "root " + rest))
        return out
    def post_check(self, prog, summary, proj):
        if "quiescent=1" not in summary:
            return "model not quiescent at the end of a complete implementation run: " + summary
        if not re.search(r"delivered=(value|error|done)\b(?!,)", summary):
            return "model did not deliver exactly once: " + summary
        return None


# ------------------------------------------------------------------------------------------------------------
# RegElect: when_all_range / stop_when = the same election + the registration of the stop callback on the
# receiver's token (REG / SET / DEREG / WAIT / CBDONE linearisation points of the external inplace_stop_source) +
# the operation's own stop source (OWN) + the start loop + the owner destroying the operation.
_CAS = re.compile(r"C\.(\S+) (\d+)->(\d+) (ok|fail)$")
_LD = re.compile(r"L\.(\S+) (\d+)$")
_RMW = re.compile(r"([AUX])\.(\S+) (\d+)->(\d+)$")

class _RegElectBase(Unit):
    driver = "?"; cfg = "shim17"; handler = "regelect"; variant = "?"
    maxruns = {"quick": 2500, "thorough": 40000}
    nrandom = {"quick": 150, "thorough": 2000}
    def nkids(self, prog): return 0 if prog[0] == "-" else len(prog[0])
    def model_args(self, prog): return "%s %s %s" % (self.variant, prog[0], prog[1])
    def project(self, prog, events):
        n = self.nkids(prog); out = []
        armed = {}      # thread -> its next decisive access to op.src.state is stopSource_.request_stop()
        elected = {}    # thread -> its fetch_sub returned 1: its next lock of ext.state is DEREG
        regdone = False
        for e in events:
            m = re.match(r"t(\d+) (\S+) ?(.*)$", e)
            t, name, rest = int(m.group(1)), m.group(2), m.group(3)
            if name == "op.refCount":
                out.append((t, "rc " + rest))
                mm = _RMW.match(rest)
                if mm and mm.group(1) == "A":
                    armed[t] = True
                elif mm and mm.group(1) == "U":
                    armed[t] = False
                    if mm.group(3) == "1":
                        elected[t] = True
            elif name == "op.doneOrError":
                out.append((t, "doe " + rest))
                mm = _RMW.match(rest)
                if mm and mm.group(1) == "X" and mm.group(3) == "0":
                    armed[t] = True
            elif name == "op.src.state":
                if not armed.get(t):
                    continue        # the leaves' own registrations / request_stop running their callbacks: C03
                ok, ld = _CAS.match(rest), _LD.match(rest)
                if ok and ok.group(4) == "ok" and (ok.group(2), ok.group(3)) == ("0", "3"):
                    out.append((t, "own SET " + rest)); armed[t] = False
                elif (ld and int(ld.group(2)) & 1) or (ok and ok.group(4) == "fail" and int(ok.group(2)) & 1):
                    out.append((t, "own OBS")); armed[t] = False
                elif ok and ok.group(4) == "ok":
                    out.append((t, "own UNEXPECTED " + rest))
            elif name == "ext.state":
                ok, ld = _CAS.match(rest), _LD.match(rest)
                good = ok and ok.group(4) == "ok"
                if elected.get(t):
                    if good and int(ok.group(3)) == int(ok.group(2)) | 2:
                        out.append((t, "ext DEREG " + rest)); elected[t] = False
                    elif good:
                        out.append((t, "ext UNEXPECTED " + rest))
                elif t == n and not regdone:
                    if good and (ok.group(2), ok.group(3)) == ("0", "2"):
                        out.append((t, "ext REG " + rest)); regdone = True
                    elif (ld and int(ld.group(2)) & 1) or (ok and ok.group(4) == "fail" and int(ok.group(2)) & 1):
                        out.append((t, "ext REG-INLINE")); regdone = True
                    elif good:
                        out.append((t, "ext UNEXPECTED " + rest))
                elif t == n + 1:
                    # request_stop: the CAS 0->3 is SET; the re-lock after the callback returned (C.acq 1->3),
                    # the unlock stores and the loads belong to the source (C03)
                    if good and (ok.group(2), ok.group(3)) == ("0", "3"):
                        out.append((t, "ext SET " + rest))
                    elif good and (ok.group(2), ok.group(3)) != ("1", "3"):
                        out.append((t, "ext UNEXPECTED " + rest))
                elif good:
                    out.append((t, "ext UNEXPECTED " + rest))
            elif name.startswith("op.cb"):
                if rest == "L.acq 0":
                    continue        # spin of the blocking WAIT step
                out.append((t, "cb " + rest))
            elif name.startswith("!leaf") and name.endswith(".start"):
                out.append((t, "start %s %s" % (name[5:-6], rest)))
            elif name.startswith("!leaf") and name.endswith(".complete"):
                if self.variant == "stopwhen":
                    armed[t] = True
            elif name == "!root":
                out.append((t, "root " + rest))
            elif name == "!op_destroyed":
                out.append((t, "op_destroyed"))
        return out
    def post_check(self, prog, summary, proj):
        if "quiescent=1" not in summary:
            return "model not quiescent at the end of a complete implementation run: " + summary
        if not re.search(r"delivered=(value|error|done) ", summary):
            return "model did not deliver exactly once: " + summary
        if " late=0 " not in summary or " badreg=0 " not in summary or " registered=0 " not in summary:
            return "model counted a late access / a live registration at the completion: " + summary
        return None

class WhenAllRangeRegElect(_RegElectBase):
    name = "when_all_range/RegElect"; driver = "k1_when_all_range"; variant = "range"
    def programs(self, tier):
        progs = [("-", sm) for sm in ("stop", "nostop", "prestop")]
        sizes = (1, 2, 3) if tier == "quick" else (1, 2, 3, 4)
        for n in sizes:
            combos = list(itertools.product("ved", repeat=n))
            if n == 2 and tier == "quick":
                combos = [c for c in combos if c in (("v", "v"), ("v", "e"), ("e", "v"), ("d", "e"), ("v", "d"))]
            if n == 3 and tier == "quick":
                combos = [("v", "v", "v"), ("v", "e", "d"), ("d", "v", "e")]
            if n == 4:
                combos = [c for c in combos if tuple(sorted(c)) == c]
            for c in combos:
                for sm in ("stop", "nostop", "prestop"):
                    if n >= 3 and sm != "stop" and tier == "quick":
                        continue
                    progs.append(("".join(c), sm))
        return progs

class StopWhenRegElect(_RegElectBase):
    name = "stop_when/RegElect"; driver = "k1_stop_when"; variant = "stopwhen"
    def programs(self, tier):
        return [(a + b, sm) for a in "ved" for b in "ved" for sm in ("stop", "nostop", "prestop")]

class WhenAllRangeRegElectASan(WhenAllRangeRegElect):
    """Same driver under AddressSanitizer/UBSan (the destroyed operation is really freed): thorough only."""
    name = "when_all_range/RegElect-asan"; cfg = "shimasan17"
    maxruns = {"quick": 800, "thorough": 5000}
    nrandom = {"quick": 50, "thorough": 300}
    def programs(self, tier):
        return [] if tier == "quick" else WhenAllRangeRegElect.programs(self, "quick")

class StopWhenRegElectASan(StopWhenRegElect):
    name = "stop_when/RegElect-asan"; cfg = "shimasan17"
    maxruns = {"quick": 800, "thorough": 5000}
    nrandom = {"quick": 50, "thorough": 300}
    def programs(self, tier):
        return [] if tier == "quick" else StopWhenRegElect.programs(self, tier)

REGELECT_UNITS = (WhenAllRangeRegElect, StopWhenRegElect, WhenAllRangeRegElectASan, StopWhenRegElectASan)
