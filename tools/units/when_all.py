"""K1 units (one per protocol/driver pairing)."""
import re, itertools
from k1 import Unit

class WhenAllRefElect(Unit):
    name = "when_all/RefElect"; driver = "k1_when_all"; cfg = "shim17"; handler = "refelect"
    def programs(self, tier):
        progs = []
        sizes = (1, 2, 3) if tier == "quick" else (1, 2, 3, 4)
        for n in sizes:
            combos = list(itertools.product("ved", repeat=n))
            if n >= 3 and tier == "quick":
                combos = [c for c in combos if tuple(sorted(c)) == c][:8]
            if n == 4:
                combos = [c for c in combos if tuple(sorted(c)) == c]
            for c in combos:
                for sm in ("stop", "nostop", "prestop"):
                    if n >= 3 and sm != "stop" and tier == "quick":
                        continue
                    progs.append(("".join(c), sm))
        return progs
    def model_args(self, prog): return prog[0]
    def project(self, prog, events):
        n = len(prog[0]); out = []
        for e in events:
            m = re.match(r"t(\d+) (\S+) ?(.*)$", e)
            t, name, rest = int(m.group(1)), m.group(2), m.group(3)
            mt = t if t < n else n
            if name == "wa.refCount":
                out.append((mt, "rc " + rest))
            elif name == "wa.doneOrError":
                out.append((mt, "doe " + rest))
            elif name == "ext.state":
                mm = re.match(r"C\.\S+ (\d+)->(\d+) ok", rest)
                if mm and not int(mm.group(1)) & 1 and int(mm.group(2)) & 1:
                    out.append((n + 1, "ext SET"))
                mm = re.match(r"L\.acq (\d+)", rest)
                if mm:
                    out.append((mt, "ext OBS %d" % (int(mm.group(1)) & 1)))
            elif name == "!root":
                out.append((mt, "root " + rest))
        return out
    def post_check(self, prog, summary, proj):
        if "quiescent=1" not in summary:
            return "model not quiescent at the end of a complete implementation run: " + summary
        if not re.search(r"delivered=(value|error|done)\b(?!,)", summary):
            return "model did not deliver exactly once: " + summary
        return None
