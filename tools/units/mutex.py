"""K1 units for C15: the real v1/v2 async_mutex against the MutexV1 / MutexV2 models."""
import re
from k1 import Unit

class MutexV1(Unit):
    """program = (nlock, ntry, handoff|inline).  The model runs the continuation of a resumed
    waiter under the waiter's own thread id; in `inline` mode the implementation runs it nested in
    the unlock() that resumed it, so implementation events are attributed to the locker on whose
    behalf the code runs: after `!acquire j` on implementation thread T, T acts for j."""
    name = "mutex_v1/MutexV1"; driver = "k1_mutex_v1"; cfg = "shim17"; handler = "mutexv1"
    maxruns = {"quick": 3000, "thorough": 60000}
    nrandom = {"quick": 300, "thorough": 4000}
    def programs(self, tier):
        if tier == "quick":
            return [("1", "1", "handoff"), ("2", "0", "handoff"), ("2", "1", "handoff"), ("3", "0", "handoff"),
                    ("3", "1", "handoff"), ("2", "1", "inline"), ("3", "0", "inline"), ("3", "1", "inline")]
        return [(str(n), str(m), mode) for n in (1, 2, 3, 4) for m in (0, 1, 2) for mode in ("handoff", "inline")
                if n + m <= 5]
    def model_args(self, prog): return "%s %s" % (prog[0], prog[1])
    def project(self, prog, events):
        out = []; acting = {}
        for e in events:
            m = re.match(r"t(\d+) (\S+) ?(.*)$", e)
            t, name, rest = int(m.group(1)), m.group(2), m.group(3)
            mt = acting.get(t, t)
            if name == "aq":
                out.append((mt, "aq " + rest))
            elif name.startswith("!"):
                out.append((mt, name[1:] + " " + rest))
                if name == "!acquire" and prog[2] == "inline":
                    acting[t] = int(rest)
        return out
    def post_check(self, prog, summary, proj):
        if "quiescent=1" not in summary:
            return "model not quiescent at the end of a complete implementation run: " + summary
        if "holders=0 waiting=0 unlocked=1 pending=0" not in summary:
            return "model's final state is not the unlocked, empty mutex: " + summary
        return None


class MutexV2(Unit):
    """program = (nlock, ntry, stopmask).  Implementation threads: lockers 0..n-1, try_lock threads
    n..n+ntry-1, then one stop requester per '1' of the mask.  Model threads: lockers 0..n-1, stop
    requester of locker i = n+i, try_lock threads 2n...
    Projection onto the model's events:
      locked / cs<i> / cbdone<i> / sync<i> (= the stack flag stk<i>+off): verbatim, spinning loads dropped;
      src<i> (inplace_stop_source state_) at lock granularity: successful lock CAS, unlocking store,
        the observation of the stop bit by try_lock_unless_stop_requested (OBS), stop_requested() load;
      the waiter list (q.head, q.sent.self, n<i>.self, n<i>.rest) is reduced to its abstract
        operations at their linearization points:
          CLAIM i  = push_back's sentinel_.self.store(&item.rest)      (tail claimed, order fixed)
          PUB i    = push_back's unlock(pred_link, item)               (item visible from head_)
          TAKE k   = pop_front's first.self.store(nullptr)  (try_remove(k) fails from here on)
          POP k / POP none = pop_front's unlock(head_, ...)
          REMOVE i ok = try_remove's unlock(pred_link, rest); REMOVE i fail = item.self read as null
          EMPTY b  = process_queue's head_.load after locked_.store(false)."""
    name = "mutex_v2/MutexV2"; driver = "k1_mutex_v2"; cfg = "shim17"; handler = "mutexv2"
    maxruns = {"quick": 2500, "thorough": 40000}
    nrandom = {"quick": 300, "thorough": 4000}
    hop_stoppable = "1"
    def programs(self, tier):
        if tier == "quick":
            return [("1", "0", "1"), ("2", "0", "00"), ("2", "1", "00"), ("2", "0", "01"), ("2", "0", "11"),
                    ("2", "1", "10"), ("3", "0", "000"), ("3", "0", "010"), ("3", "0", "001"), ("3", "1", "011")]
        progs = []
        for n in (1, 2, 3):
            for m in (0, 1):
                for mask in range(2 ** n):
                    progs.append((str(n), str(m), format(mask, "0%db" % n)))
        progs += [("4", "0", "0000"), ("4", "0", "0110"), ("4", "1", "1001")]
        return progs
    def model_args(self, prog):
        return "%s %s %s" % ("0" if self.hop_stoppable == "1" else "1", prog[2], prog[1])
    def tidmap(self, prog):
        n, m, mask = int(prog[0]), int(prog[1]), prog[2]
        mp = {i: i for i in range(n)}
        for j in range(m):
            mp[n + j] = 2 * n + j
        t = n + m
        for i, c in enumerate(mask):
            if c == "1":
                mp[t] = n + i; t += 1
        return mp
    def project(self, prog, events):
        n, m = int(prog[0]), int(prog[1])
        mp = self.tidmap(prog)
        out = []
        reg_done = set()          # lockers whose callback registration is decided
        sync_first = set()        # threads that did their first load of the sync flag
        expect_empty = set()      # threads that just stored locked_ = false
        inpush = {}               # thread -> item being pushed
        claimed = set()
        headlock = {}             # thread -> (kind of its last successful CAS on q.head, old value)
        zeroed = {}               # thread -> item whose self it just cleared (pop / remove in progress)
        rmfail = set()
        def bare(v): return v[:-2] if v.endswith("|1") else v
        for e in events:
            mm = re.match(r"t(\d+) (\S+) ?(.*)$", e)
            T, name, rest = int(mm.group(1)), mm.group(2), mm.group(3)
            mt = mp[T]
            if name.startswith("!"):
                a = name[1:]
                if a == "cfg":
                    self.hop_stoppable = rest.split("=")[1]
                elif a in ("acquire", "release", "tryfail", "done"):
                    k = int(rest)
                    out.append((mt, "%s %d" % (a, k if k < n else 2 * n + (k - n))))
                continue
            if name == "locked":
                out.append((mt, "locked " + rest))
                if rest == "S.rel 0":
                    expect_empty.add(T)
                continue
            mi = re.match(r"(cs|cbdone|src|stk)(\d+)", name)
            if mi and mi.group(1) == "cs":
                out.append((mt, name + " " + rest)); continue
            if mi and mi.group(1) == "cbdone":
                if rest != "L.acq 0":
                    out.append((mt, name + " " + rest))
                continue
            if mi and mi.group(1) == "stk":
                i = int(mi.group(2))
                if rest.startswith("L."):
                    v = rest.split(" ")[1]
                    if T not in sync_first and T == i:
                        sync_first.add(T); out.append((mt, "sync%d L.acq %s" % (i, v)))
                    elif v == "1":
                        out.append((mt, "sync%d L.acq 1" % i))
                else:
                    out.append((mt, "sync%d %s" % (i, rest)))
                continue
            if mi and mi.group(1) == "src":
                i = int(mi.group(2))
                registering = (T == i and i not in reg_done)
                mc = re.match(r"C\.(\S+) (\d+)->(\d+) (ok|fail)", rest)
                if mc:
                    if mc.group(4) == "ok":
                        out.append((mt, name + " " + rest)); reg_done.add(i) if T == i else None
                    elif registering and int(mc.group(2)) & 1:
                        out.append((mt, "%s OBS %s" % (name, mc.group(2)))); reg_done.add(i)
                    continue
                ml = re.match(r"L\.rlx (\d+)", rest)
                if ml:
                    if registering and int(ml.group(1)) & 1:
                        out.append((mt, "%s OBS %s" % (name, ml.group(1)))); reg_done.add(i)
                    continue
                out.append((mt, name + " " + rest))     # S.rel v, L.acq v
                continue
            # ---- the waiter list
            if name == "q.head" and rest.startswith("L.rlx") and T in expect_empty:
                expect_empty.discard(T)
                out.append((mt, "q EMPTY %d" % (1 if bare(rest.split(" ")[1]) == "SENT" else 0)))
                continue
            mn = re.match(r"n(\d+)\.(self|rest)$", name)
            if mn and mn.group(2) == "rest" and rest == "S.rlx SENT":
                inpush[T] = int(mn.group(1)); continue
            if name == "q.sent.self" and rest.startswith("S.rel") and T in inpush and inpush[T] not in claimed:
                claimed.add(inpush[T]); out.append((mt, "q CLAIM %d" % inpush[T])); continue
            if mn and mn.group(2) == "self" and rest == "L.acq 0":
                x = int(mn.group(1))
                if x not in rmfail:
                    rmfail.add(x); out.append((mt, "q REMOVE %d fail" % x))
                continue
            if mn and mn.group(2) == "self" and rest == "S.rlx 0":
                zeroed[T] = int(mn.group(1))
                if headlock.get(T, ("", ""))[0] == "acq":
                    out.append((mt, "q TAKE %d" % zeroed[T]))
                continue
            if name == "q.head":
                mc = re.match(r"C\.(\S+) (\S+)->(\S+) ok", rest)
                if mc:
                    headlock[T] = (mc.group(1), mc.group(2)); continue
            if (name == "q.head" or (mn and mn.group(2) == "rest")) and rest.startswith("S.rel "):
                v = rest.split(" ")[1]
                if T in inpush and v == "n%d" % inpush[T]:
                    out.append((mt, "q PUB %d" % inpush.pop(T))); continue
                if T in zeroed:
                    x = zeroed.pop(T)
                    if name == "q.head" and headlock.get(T, ("", ""))[0] == "acq":
                        out.append((mt, "q POP %d" % x)); headlock.pop(T, None)
                    else:
                        out.append((mt, "q REMOVE %d ok" % x)); headlock.pop(T, None)
                    continue
                if name == "q.head" and headlock.get(T, ("", ""))[0] == "acq" and headlock[T][1] == "SENT" and v == "SENT":
                    out.append((mt, "q POP none")); headlock.pop(T, None); continue
                continue
        return out
    def post_check(self, prog, summary, proj):
        leak = any(ev.startswith("done") for _, ev in proj) and self.hop_stoppable == "1"
        if "quiescent=1" in summary and "locked=0 queue= tokens=0" in summary:
            return None
        if leak:
            return None      # the monitor reports the leak; the model agrees with the implementation on it
        return "model's final state is not the quiescent, unlocked, empty mutex: " + summary

UNITS = [MutexV1, MutexV2]
