"""K1 unit: the stop-request thunk of task<> (task.hpp _sr_thunk_promise_base) vs the SrThunk model.
Implementation threads: t0 connect/start (runs the stop callback inline when stop was requested before the
registration), t1 completes the leaf, t2 external request_stop, t3 the scheduler's run loop (runs the task's
completion and the deferred stop request).  Model threads are logical: 0 = the stop callback, 1 = the deferred stop
request, 2 = complete_and_choose_continuation."""
import re
from k1 import Unit

class SrThunk(Unit):
    name = "task/SrThunk"; driver = "k1_sr_thunk"; cfg = "shim20"; handler = "srthunk"
    bound = {"quick": 2, "thorough": 3}
    maxruns = {"quick": 2500, "thorough": 40000}
    nrandom = {"quick": 150, "thorough": 2000}
    def programs(self, tier):
        return [(k, sm) for k in "ved" for sm in ("stop", "nostop")]
    def model_args(self, prog): return " ".join(prog)
    def project(self, prog, events):
        out = []
        cb_thread = None        # implementation thread that ran the callback's fetch_add and has not enqueued yet
        seg_src = False         # t3 touched thunk.src since its last "!run"
        last_role = 2
        for e in events:
            m = re.match(r"t(\d+) (\S+) ?(.*)$", e)
            t, name, rest = int(m.group(1)), m.group(2), m.group(3)
            if name == "!run" and t == 3:
                seg_src = False
            elif name == "thunk.src" and t == 3:
                seg_src = True
            elif name == "thunk.refCount":
                if rest.startswith("A"):
                    out.append((0, "rc " + rest)); cb_thread = t
                elif rest.startswith("U"):
                    last_role = 1 if seg_src else 2
                    out.append((last_role, "rc " + rest))
                else:
                    out.append((9, "rc " + rest))      # any other access is foreign to the model
            elif name == "!enq" and cb_thread == t:
                out.append((0, "enq")); cb_thread = None
            elif name == "!root":
                out.append((last_role, "root " + rest))
        return out
    def nontrivial(self, proj):
        return any(e.startswith("rc A") for _, e in proj)
    def post_check(self, prog, summary, proj):
        if "resumed=1" not in summary or "quiescent=1" not in summary:
            return "model not quiescent with exactly one resumption at the end of a complete implementation run: " + summary
        return None


class SrThunkDebug(SrThunk):
    """The same driver built WITH assertions and async stacks (no NDEBUG) under schedule control: property C20's
    coroutine path - every schedule of the stop-request thunk must leave the async-stack bookkeeping balanced
    (~ScopedAsyncStackRoot / popAsyncStackFrameCallee assert it) and give the same lock-step trace as the release build."""
    name = "task/SrThunk-debug"; cfg = "shimdbg20"
