"""K1 units for C08: the real v2 / v1 / v0 async_scope against the extracted Scope model.

Programs are (spawners, joiners) strings, see harness/k1_scope*.cpp.  Every scope_reference of the
implementation is one model spawner; `!ref k` marker actions of the drivers say which reference the
following accesses of a thread belong to.  Joiner thread j is model thread n + j."""
import re, vlib
from k1 import Unit

# joiner kind -> model program (c=JClose s=JStop w=JWait y=JSync d=JDone)
JPROG = {
    "v2": {"j": "cwd", "r": "c"},
    "v1": {"j": "cwd", "k": "cscwd", "r": "cs", "q": "cscwd"},
    "v0": {"j": "cwyd", "k": "cswyd", "r": "cs", "q": "cscwyd"},
}

TWO = "cfz"        # spawner kinds that make two scope_references
FAULT = "xwyz"     # spawner kinds whose operation throws: no completer thread

def nrefs(sp):
    return sum(2 if c in TWO else 1 for c in sp)

def plans(variant, sp):
    """model plans: s = PStart (observable receiver), t = PDetach (internal receiver), d = PDrop"""
    det = "s" if variant == "v2" else "t"
    # faults: v2 nest+connect / v1 attach+connect throwing = PFail (p); a spawn_detached / spawn /
    # spawn_future whose construction throws releases what it had been granted = PDrop (d)
    flt = "p" if variant == "v2" else "d"
    return "".join({"s": det, "n": det, "d": "d", "c": "ds", "a": "s", "f": "dt",
                    "x": flt, "w": "d", "y": "p", "z": "dd"}[c] for c in sp) or "-"


class ScopeUnit(Unit):
    variant = "v2"
    handler = "scope"
    cfg = "shim17"
    bound = {"quick": 2, "thorough": 3}
    maxruns = {"quick": 1500, "thorough": 40000}
    nrandom = {"quick": 100, "thorough": 2000}
    def strict(self):
        """The model variant tied to the code: end_scope / end_of_scope sets the event only when
        this very call closed the scope (read open and count = 0).  The variant the code had before
        (set whenever count = 0 was read) is kept in the model only for the refuted theorem; a
        regression to it shows up as the monitor failure `scope touched after ...` and as a
        lock-step difference (an extra `evt SET`)."""
        return 1

    def model_args(self, prog):
        sp, jn = prog[0].replace("-", ""), prog[1]
        return "%d %s %s %s" % (self.strict(), self.variant, plans(self.variant, sp),
                                ",".join(JPROG[self.variant][c] for c in jn) or "-")

    def thread_roles(self, prog):
        """impl thread id -> ('sp', None) | ('jn', j); thread 0 is the owner"""
        sp, jn = prog[0].replace("-", ""), prog[1]
        roles = {0: ("own", None)}
        t = 1
        for c in sp:
            roles[t] = ("spf" if c in "fz" else "sp", None); t += 1
        for c in sp:
            if c != "d" and c not in FAULT:
                roles[t] = ("sp", None); t += 1
        for j, c in enumerate(jn):
            roles[t] = ("jn", j); t += 1
        return roles

    def project(self, prog, events):
        """Attribution of accesses to model threads.  try_record_start (L / C on opState) belongs to
        the reference announced by the thread's last `!ref k` marker (spawn_future makes two in one
        call: the marker names the first, the second follows).  A record_completion (U) is performed
        by whichever thread happens to run the completion (the completer, the thread dropping a
        future, or a thread inside request_stop() whose stop callback wins v1 attach's refcount_
        election), so it is attributed to the marked reference if that one is ready to be released,
        else to the lowest reference that is ready (admitted, not yet released, and dropped or with
        its nested work done); references that are ready are all at the same model pc, so this is a
        relabelling of interchangeable model threads.  An evt set right after such a release
        belongs to the same reference."""
        sp, jn = prog[0].replace("-", ""), prog[1]
        n = nrefs(sp)
        roles = self.thread_roles(prog)
        pl = plans(self.variant, sp)
        op_ref = []           # spawner index -> reference of its operation
        k = 0
        for c in sp:
            op_ref.append(k + (1 if c in TWO else 0)); k += 2 if c in TWO else 1
        cur = {}
        adv = set()
        touched, admitted, released, workdone = set(), set(), set(), set()
        setting = {}          # thread -> reference whose release made it responsible for the set
        out = []
        jprog = [JPROG[self.variant][c] for c in jn]
        jpos = [0] * len(jn)  # next instruction of each closer/joiner
        stop_is_set = [False]
        def own_op(j, kind):
            """joiner j performs its program instruction `kind`; a request_stop() that found the
            stop bit already set touches nothing the model owns: it is placed just before the
            thread's next own instruction (it changes no model state there)"""
            pr = jprog[j]
            if jpos[j] < len(pr) and pr[jpos[j]] == "s" and kind != "s":
                out.append((n + j, "stop NOP")); jpos[j] += 1
            if jpos[j] < len(pr) and pr[jpos[j]] == kind:
                jpos[j] += 1
        def ready(r):
            return r in admitted and r not in released and (pl[r] in "dp" or r in workdone)
        for e in events:
            m = re.match(r"t(\d+) (\S+) ?(.*)$", e)
            t, name, rest = int(m.group(1)), m.group(2), m.group(3)
            role, j = roles.get(t, ("own", None))
            if name == "!ref":
                cur[t] = int(rest); continue
            if role == "own":
                continue      # the owner only constructs / destroys the scope
            own = (n + j) if role == "jn" else cur.get(t, -1)
            keep_setting = False
            if name == "scope.opState":
                if rest.startswith("U."):
                    r = cur.get(t, -1)
                    if not ready(r):
                        cands = [x for x in range(n) if ready(x)]
                        r = cands[0] if cands else own
                    released.add(r)
                    out.append((r, "op " + rest))
                    mo = re.match(r"U\.\S+ (\d+)->", rest)
                    if mo and int(mo.group(1)) == 2:
                        setting[t] = r; keep_setting = True
                elif rest.startswith("L.rlx") or rest.startswith("C."):
                    r = cur.get(t, -1)
                    touched.add(r)
                    out.append((r, "op " + rest))
                    mo = re.match(r"(L\.\S+ (\d+)|C\.\S+ (\d+)->\d+ (ok|fail))$", rest)
                    if mo and mo.group(4) == "ok":
                        admitted.add(r)
                    if role == "spf" and t not in adv:
                        ended = mo and ((mo.group(2) and int(mo.group(2)) % 2 == 0) or mo.group(4) == "ok"
                                        or (mo.group(4) == "fail" and int(mo.group(3)) % 2 == 0))
                        if ended:
                            adv.add(t); cur[t] = r + 1
                else:
                    if role == "jn":
                        own_op(j, "c" if rest.startswith("N.") else "y")
                    out.append((own, "op " + rest))
            elif name == "evt.state":
                who = setting.get(t, own)
                if rest.startswith("X."):
                    out.append((who, "evt SET")); keep_setting = True
                elif rest.startswith("L."):
                    if role == "jn":
                        own_op(j, "W")      # flushes a pending no-op request_stop only
                    if rest.endswith(" SIG"):
                        if role == "jn": own_op(j, "w")
                        out.append((own, "wait 1"))
                elif rest.startswith("C."):
                    if rest.endswith(" ok"):
                        if role == "jn": own_op(j, "w")
                        out.append((own, "wait 0"))
                    elif re.match(r"C\.\S+ SIG->", rest):
                        if role == "jn": own_op(j, "w")
                        out.append((own, "wait 1"))
            elif name == "stop.state":
                mm = re.match(r"C\.\S+ (\d+)->(\d+) ok", rest)
                if mm and not int(mm.group(1)) & 1 and int(mm.group(2)) & 1:
                    if role == "jn": own_op(j, "s")
                    out.append((own, "stop SET"))
                keep_setting = True
            elif name.startswith("!join"):
                mm = re.match(r"!join(\d+)\.(\w+)", name)
                if mm.group(2) == "resume":
                    # after the evt set of a release: same reference; after a ready wait: the joiner
                    out.append((setting.get(t, own), "resume " + mm.group(1))); keep_setting = True
                elif mm.group(2) == "complete":
                    if role == "jn": own_op(j, "d")
                    out.append((own, "join %s done" % mm.group(1)))
                elif mm.group(2) in ("error", "done"):
                    out.append((own, "join %s %s" % (mm.group(1), mm.group(2))))
            elif name.startswith("!leaf"):
                mm = re.match(r"!leaf(\d+)\.(\w+)", name)
                r = op_ref[int(mm.group(1))]
                if mm.group(2) == "start":
                    out.append((r, "leaf %d start" % r))
                elif mm.group(2) == "complete":
                    workdone.add(r)
                    out.append((r, "leaf %d done" % r))
                else:
                    keep_setting = True
            elif name.startswith("!nest") and rest == "done":
                # the copy of an empty (rejected) nest sender is not a scope_reference at all: it
                # never calls try_record_start; its model thread does not exist in this run
                r = op_ref[int(name[5:])]
                # (an admitted v1 attach may also complete with done - when the stop callback wins
                # the refcount_ election - that is the nested work's completion, not a rejection)
                if r in touched and r not in admitted:
                    out.append((r, "nest %d done" % r))
            else:
                keep_setting = True
            if not keep_setting:
                setting.pop(t, None)
            if name.startswith("!stop") and name.endswith(".returned") and role == "jn":
                own_op(j, "R")    # request_stop() has returned: flush a no-op one
        return out

    def post_check(self, prog, summary, proj):
        m = re.search(r"joins_over=(\d) setting=(\d) joined=(\S*) sp=(\S*) evt=(\d) w=(-?\d+)", summary)
        if not m:
            return "unparsable model summary: " + summary
        sp, jn = prog[0].replace("-", ""), prog[1]
        if m.group(1) != "1":
            return "model: some closer/joiner has not finished at the end of a complete implementation run: " + summary
        pcs = m.group(4)
        # a copy of a rejected (empty) nest sender performs no try_record_start at all: its model
        # thread never runs and stays at L
        k = 0
        for c in sp:
            w = 2 if c in TWO else 1
            seg = pcs[k:k + w]
            ok = all(ch in "Ff" for ch in seg) or (c == "c" and seg == "fL")
            # a v0 spawn whose connect throws, or an allocation that throws, happens before any
            # try_record_start: the reference never exists
            if (c == "w" or (c == "x" and self.variant == "v0")) and seg == "L":
                ok = True
            if not ok:
                return "model: reference(s) of spawner %r not finished (%s): %s" % (c, seg, summary)
            k += w
        want = ",".join(str(j) for j, c in enumerate(jn) if "d" in JPROG[self.variant][c])
        got = ",".join(sorted(m.group(3).split(","))) if m.group(3) else ""
        if got != want:
            return "model: joins completed %r, expected %r" % (got, want)
        if (m.group(5), m.group(6)) != ("1", "0") and want:
            return "model: a join completed but the final state is not (event set, opState 0): " + summary
        return None


class ScopeV2(ScopeUnit):
    name = "v2::async_scope/Scope"; driver = "k1_scope"; variant = "v2"
    def programs(self, tier):
        if tier == "quick":
            return [("s", "j"), ("s", "jj"), ("ss", "j"), ("sd", "j"), ("c", "j"), ("sn", "j"),
                    ("d", "jj"), ("ss", "jj"), ("sc", "j"), ("s", "rj"), ("-", "jj"), ("sss", "j"),
                    ("dn", "rj"), ("sd", "jj"), ("x", "j"), ("sx", "j")]
        return [("x", "j"), ("sx", "j"), ("xx", "jj"), ("sxn", "rj"),
                ("s", "j"), ("s", "jj"), ("ss", "j"), ("sd", "j"), ("c", "j"), ("sn", "j"), ("d", "jj"),
                ("ss", "jj"), ("sc", "j"), ("s", "rj"), ("-", "jj"), ("sss", "j"), ("dn", "rj"), ("sd", "jj"),
                ("sss", "jj"), ("scd", "jj"), ("cc", "j"), ("snn", "jj"), ("ssd", "rj"), ("s", "jjj"),
                ("sc", "rjj"), ("nn", "rj"), ("ssn", "jj")]


class ScopeV1(ScopeUnit):
    name = "v1::async_scope/Scope"; driver = "k1_scope_v1"; variant = "v1"
    def programs(self, tier):
        if tier == "quick":
            return [("s", "k"), ("s", "j"), ("a", "k"), ("sa", "k"), ("s", "rj"), ("f", "k"),
                    ("ss", "k"), ("sn", "k"), ("a", "jk"), ("s", "q"), ("sa", "rj"), ("sd", "k"),
                    ("x", "k"), ("w", "j"), ("y", "k"), ("z", "k"), ("sx", "k")]
        return [("x", "k"), ("w", "j"), ("y", "k"), ("z", "k"), ("sx", "k"), ("xy", "jk"), ("sz", "k"), ("yw", "rj"),
                ("s", "k"), ("s", "j"), ("a", "k"), ("sa", "k"), ("s", "rj"), ("f", "k"), ("ss", "k"),
                ("sn", "k"), ("a", "jk"), ("s", "q"), ("sa", "rj"), ("sd", "k"),
                ("ssa", "k"), ("sa", "jk"), ("sf", "k"), ("an", "rj"), ("ss", "kk"), ("saf", "k")]


class ScopeV0(ScopeUnit):
    name = "v0::async_scope/Scope"; driver = "k1_scope_v0"; variant = "v0"
    def programs(self, tier):
        if tier == "quick":
            return [("s", "j"), ("s", "k"), ("ss", "k"), ("s", "rj"), ("sn", "k"), ("s", "jk"),
                    ("ss", "j"), ("s", "q"), ("ss", "rj"), ("-", "jk"), ("x", "j"), ("sx", "k"), ("x", "rj")]
        return [("x", "j"), ("sx", "k"), ("x", "rj"), ("xs", "jk"), ("xx", "q"),
                ("s", "j"), ("s", "k"), ("ss", "k"), ("s", "rj"), ("sn", "k"), ("s", "jk"), ("ss", "j"),
                ("s", "q"), ("ss", "rj"), ("-", "jk"),
                ("sss", "k"), ("ssn", "j"), ("ss", "jk"), ("sn", "rj"), ("ss", "q"), ("sss", "jj")]
