"""K1 units for C07: timed_single_thread_context / TimerQueue and thread_unsafe_event_loop / UnsafeLoop."""
import re
from k1 import Unit

NOW0 = 1000   # dsched's virtual clock starts at 1 s; the models count milliseconds


def parse_ops(s):
    ops = []
    for t in s.split(","):
        m = re.match(r"([at])(-?\d+)([sp+]*)$", t)
        ops.append({"after": m.group(1) == "a", "ms": int(m.group(2)), "stopper": "s" in m.group(3),
                    "prestop": "p" in m.group(3), "own": "+" in m.group(3)})
    return ops


class TimedContext(Unit):
    """Projection of the real timed_single_thread_context run onto the TimerQueue model.
    Owned locations: the context's mutex_ / cv_ / thread_, every operation's stop-source state_ byte
    (at lock granularity: relaxed loads that only feed the following CAS / spin are dropped, failed
    CASes are dropped) and its callback's callbackCompleted_ flag, the clock word, and the actions
    start / fire / done.  Implementation thread -> model thread by role: the library's own thread is
    model thread 0; any other thread acts as starter i between "!start i" and "!started i", as stopper
    i between "!stop i" and "!stopped i", as the destroyer after "!destroy", as the spurious notifier
    after "!poke".  A silent jump of the virtual clock (dsched advances it to the earliest deadline
    when every thread is blocked) becomes visible at the next logged clock value; it is replayed as a
    clock step just before the timer thread re-acquired the mutex after its wait."""
    name = "timed_single_thread_context/TimerQueue"; driver = "k1_timed_context"; cfg = "shim17"; handler = "timerqueue"
    bound = {"quick": 2, "thorough": 3}
    maxruns = {"quick": 1500, "thorough": 20000}
    nrandom = {"quick": 100, "thorough": 1500}

    def programs(self, tier):
        progs = [
            ("a30,a10,a10", "-"),               # order 10,10 (FIFO),30 by sleeping to each deadline
            ("a5,a10,a10,a10", "-"),            # ties behind the head (the walk's <=)
            ("a30,a10,a10,a500s", "-"),         # + a far timer cancelled from another thread
            ("a10s", "20,k"),                   # cancel racing the expiry / the pop
            ("a0s", "-"),                       # zero delay, cancel racing the pop
            ("a20p", "-"),                      # stop requested before start
            ("a20p,a10", "-"),
            ("t-5,t5,a0", "-"),                 # past, future and immediate due times
            ("a10+,a10+", "-"),                 # concurrent arrival, equal due times
            ("a10s,a10", "5,k,5,k"),
            ("a50s,a20s", "30,k"),
        ]
        if tier != "quick":
            progs += [
                ("a30,a10,a10,a500s", "15,k"),
                ("a10s+,a10+,a5", "7,k"),
                ("a20s,a20s,a20", "-"),
                ("t0s,t0", "-"),
                ("a5,a5p,a5s", "5"),
                ("a10s,a30", "w0,25"),
                ("a40s+,a10s+", "10,k,40,k"),
            ]
        return progs

    def model_args(self, prog):
        specs = []
        for o in parse_ops(prog[0]):
            specs.append(("a%d" % o["ms"]) if o["after"] else ("t%d" % (NOW0 + o["ms"])))
        return "%d %s" % (NOW0, ",".join(specs))

    def project(self, prog, events):
        ops = parse_ops(prog[0])
        n = len(ops)
        timer = 2 + sum(1 for o in ops if o["stopper"]) + sum(1 for o in ops if o["own"])
        T_DESTROY, T_POKE, T_CLOCK = 2 * n + 1, 2 * n + 2, 2 * n + 3
        parsed = []
        for e in events:
            m = re.match(r"t(\d+) (\S+) ?(.*)$", e)
            parsed.append((int(m.group(1)), m.group(2), m.group(3)))
        # next access of the same thread to the same location (for the lock-word canonicalisation)
        nxt = [None] * len(parsed)
        last = {}
        for k in range(len(parsed) - 1, -1, -1):
            t, name, rest = parsed[k]
            if name.startswith("src"):
                nxt[k] = last.get((t, name))
                last[(t, name)] = k
        role = {}
        saved = {}
        out = []
        mnow = NOW0
        after_wait = False
        wake_pos, wake_now = None, None

        def jump_to(v):
            """the implementation's clock reads v although only mnow is accounted for: it jumped while
            every thread was blocked, i.e. just before the timer thread's last wake-up"""
            nonlocal mnow
            d = v - mnow
            pos = wake_pos if wake_pos is not None else len(out)
            base = wake_now if wake_now is not None else mnow
            out.insert(pos, (T_CLOCK + d - 1, "clock %d" % (base + d)))
            mnow = v

        for k, (t, name, rest) in enumerate(parsed):
            mt = 0 if t == timer else role.get(t)
            if name.startswith("!"):
                act = name[1:]
                a = rest.split()
                if act == "ready":
                    mnow = int(a[0])
                elif act == "start":
                    role[t] = 1 + int(a[0])
                    out.append((role[t], "start %s" % a[0]))
                elif act == "started":
                    role[t] = None
                elif act == "stop":
                    saved[t] = role.get(t)
                    role[t] = n + 1 + int(a[0])
                elif act == "stopped":
                    role[t] = saved.get(t)
                elif act == "destroy":
                    role[t] = T_DESTROY
                elif act == "poke":
                    role[t] = T_POKE
                elif act in ("fire", "done"):
                    v = int(a[1])
                    if v > mnow:
                        jump_to(v)
                    out.append((0, "%s %s %d" % (act, a[0], v)))
                continue
            if name == "clock":
                mm = re.match(r"CK\.\S+ (-?\d+)->(-?\d+)", rest)
                old, new = int(mm.group(1)), int(mm.group(2))
                if old > mnow:
                    jump_to(old)
                out.append((T_CLOCK + (new - old) - 1, "clock %d" % new))
                mnow = new
            elif name == "mutex":
                kind = rest.split(".")[0]
                if kind == "ML" and t == timer and after_wait:
                    after_wait = False
                    wake_pos, wake_now = len(out), mnow
                out.append((mt, "mutex " + kind))
            elif name == "cv":
                kind = rest.split(".")[0]
                if kind == "CW" and t == timer:
                    after_wait = True
                out.append((mt, "cv " + kind))
            elif name == "thread":
                if rest.startswith("J."):
                    out.append((T_DESTROY, "join"))
            elif name.startswith("src"):
                if rest.startswith("L.rlx"):
                    j = nxt[k]
                    if j is not None and (parsed[j][2].startswith("L.rlx") or parsed[j][2].startswith("C.")):
                        continue        # feeds the CAS / spin that follows
                    out.append((mt, name + " " + rest))
                elif rest.startswith("C."):
                    if rest.endswith(" fail"):
                        # a failed CAS is a load of the value it found; decisive iff nothing follows
                        j = nxt[k]
                        if j is not None and (parsed[j][2].startswith("L.rlx") or parsed[j][2].startswith("C.")):
                            continue
                        seen = re.match(r"C\.\S+ (-?\d+)->", rest).group(1)
                        out.append((mt, "%s L.rlx %s" % (name, seen)))
                        continue
                    out.append((mt, name + " " + rest))
                else:
                    out.append((mt, name + " " + rest))
            elif name.startswith("cb"):
                if rest.startswith("L.") and rest.split()[-1] == "0":
                    continue            # still spinning
                out.append((mt, name + " " + rest))
        return [((T_POKE, "UNMAPPED " + e) if t is None else (t, e)) for t, e in out]

    def post_check(self, prog, summary, proj):
        n = len(parse_ops(prog[0]))
        m = re.search(r"completions=([\d,]*) queue=([\d,]*) quiescent=(\d)", summary)
        if not m:
            return "unparsable model summary: " + summary
        if m.group(1) != ",".join(["1"] * n):
            return "model: not every operation completed exactly once: " + summary
        if m.group(2) != "":
            return "model: queue not empty after a complete implementation run: " + summary
        if m.group(3) != "1":
            return "model not quiescent after a complete implementation run: " + summary
        return None


class UnsafeLoop(Unit):
    """thread_unsafe_event_loop on one thread against the UnsafeLoop model.  Model thread ids are the
    logical actors: 0 = run_until_empty (enter / one iteration / exit), 1+i = start of operation i,
    n+1+i = request_stop on operation i, 2n+1+k = clock advance by k+1 ms.  The model is instantiated
    with the initial value of operation_base::next_/prevPtr_ that the driver found in a freshly
    constructed operation state placed in 0xAB-filled storage ("!links uninit" for the repository as
    it is, "!links null" once the fields have default initialisers)."""
    name = "thread_unsafe_event_loop/UnsafeLoop"; driver = "k1_unsafe_loop"; cfg = "shim17"; handler = "unsafeloop"
    bound = {"quick": 0, "thorough": 0}
    maxruns = {"quick": 4, "thorough": 4}
    nrandom = {"quick": 0, "thorough": 0}

    def __init__(self):
        self.links = {}
        self.uninit_hits = []     # (prog, decisions-less) programs whose run hit the uninitialised read

    def programs(self, tier):
        progs = [
            ("a30,a10,a10", "s0,s1,s2,r", "-"),
            ("a5,a10,a10,a10", "s0,s1,s2,s3,r", "-"),                 # ties behind the head (the walk's <=)
            ("a30,a10,a10,a500", "s0,s1,s2,s3,x3,r", "-"),          # cancel a queued far timer
            ("a30,a10,a500", "s0,s1,s2,r", "1:x2"),                   # cancel from inside a receiver
            ("a10,a20", "s0,r", "0:s1"),                              # start from inside a receiver
            ("t-5,t5,a0", "s0,s1,s2,r", "-"),
            ("a10,a10,a5", "s0,s1,c7,s2,r", "-"),
            ("a10", "s0,c20,x0,r", "-"),                              # stop after the due time passed
            ("a0", "x0,s0,r", "-"),                                   # pre-stopped, zero delay: no link read
            ("t-5", "x0,s0,r", "-"),                                  # pre-stopped, past due time: no link read
            ("a20,a10", "s0,s1,x0,x1,r", "-"),
            ("a10,a10,a10", "s2,s0,s1,r", "-"),                       # ties in start order
            # pre-stopped with a future due time: the cancel callback reads prevPtr_ (DESIGN section 8, 3)
            ("a20", "x0,s0,r", "-"),
            ("a30,a10", "s0,x1,s1,r", "-"),
            ("t50", "x0,s0,r", "-"),
        ]
        if tier != "quick":
            progs += [
                ("a5,a5,a5,a5,a5,a5", "s0,s1,s2,s3,s4,s5,x2,x4,r", "-"),
                ("a40,a30,a20,a10", "s0,s1,s2,s3,r", "3:x0;2:x1"),
                ("a10,a20,a30", "s0,r,s1,c100,s2,r", "-"),
                ("a10,a500", "s0,s1,r", "0:c600"),
                ("a10,a20", "s0,s1,r", "0:x1/c5"),
                ("a10,a20", "x1,s0,r", "0:s1"),
            ]
        return progs

    def project(self, prog, events):
        n = len(prog[0].split(","))
        out = []
        mnow = NOW0
        for e in events:
            m = re.match(r"t(\d+) !(\S+) ?(.*)$", e)
            if not m:
                continue
            act, a = m.group(2), m.group(3).split()
            if act == "links":
                self.links[tuple(prog)] = a[0]
            elif act == "ready":
                mnow = int(a[0])
            elif act == "start":
                out.append((1 + int(a[0]), "start " + a[0]))
            elif act == "uninit":
                out.append((1 + int(a[0]), "uninit " + a[0]))
            elif act == "stop":
                out.append((n + 1 + int(a[0]), "stop " + a[0]))
            elif act in ("fire", "done"):
                out.append((0, "%s %s %s" % (act, a[0], a[1])))
                mnow = max(mnow, int(a[1]))
            elif act in ("enter", "exit"):
                out.append((0, act))
            elif act == "clock":
                v = int(a[0])
                out.append((2 * n + 1 + (v - mnow) - 1, "clock %d" % v))
                mnow = v
        return out

    def model_args(self, prog):
        specs = []
        for t in prog[0].split(","):
            specs.append(t if t[0] == "a" else "t%d" % (NOW0 + int(t[1:])))
        return "%s %d %s" % (self.links.get(tuple(prog), "uninit"), NOW0, ",".join(specs))

    def nontrivial(self, proj):
        return len(proj) >= 4

    def post_check(self, prog, summary, proj):
        hit = [e for _, e in proj if e.startswith("uninit")]
        m = re.search(r"completions=([\d,]*) queue=([\d,]*) crashed=(\d) inloop=(\d)", summary)
        if not m:
            return "unparsable model summary: " + summary
        if hit:
            self.uninit_hits.append((prog, hit[0]))
            return None if m.group(3) == "1" else "model did not record the uninitialised read: " + summary
        if m.group(3) != "0":
            return "model crashed but the implementation did not: " + summary
        if prog[1].endswith(",r"):
            started = set(int(c[1:]) for c in re.findall(r"s\d+", prog[1] + "," + prog[2]))
            comps = m.group(1).split(",")
            for i in started:
                if comps[i] != "1":
                    return "model: started operation %d not completed exactly once: %s" % (i, summary)
            if m.group(2) != "" or m.group(4) != "0":
                return "model: queue not empty / loop still active at the end: " + summary
        return None
