"""K1 unit for C19 (stop_on_request): the real unifex::stop_on_request(tok1..tokn) driven by
harness/k1_stop_on_request.cpp against Proto/StopOnRequestDefs.v (handler 'stoponrequest').
Program = (n, reqmask, premask): n external tokens (sources 0..n, 0 = the receiver's), mask
character i = '1': source i gets a request_stop() from requester thread i+1 / is already
stopped before the operation is connected.  Implementation thread ids = model thread ids
(0 start, i+1 requester of source i, n+2 owner of the receiver)."""
import re, itertools
from k1 import Unit

QUICK = [
    ("0", "1", "0"), ("0", "0", "1"), ("0", "1", "1"), ("0", "0", "0"),
    ("1", "01", "00"), ("1", "10", "00"), ("1", "11", "00"), ("1", "01", "10"), ("1", "10", "01"),
    ("1", "00", "11"), ("1", "00", "00"),
    ("2", "111", "000"), ("2", "011", "000"), ("2", "101", "000"), ("2", "110", "001"),
    ("2", "011", "100"), ("2", "101", "010"), ("2", "000", "000"),
]

def _all(n, pres=None):
    res = []
    for req in itertools.product("01", repeat=n + 1):
        for pre in (pres if pres is not None else itertools.product("01", repeat=n + 1)):
            res.append((str(n), "".join(req), "".join(pre)))
    return res

THOROUGH = _all(0) + _all(1) + _all(2, ["000", "100", "010", "001", "011"]) + [
    ("3", "1111", "0000"), ("3", "0111", "0000"), ("3", "1011", "0100"), ("3", "1101", "0010"),
    ("3", "0110", "1000"), ("3", "1111", "0001"), ("3", "0000", "0000"),
]

_SRC = re.compile(r"s\.src(\d)$")
_CB = re.compile(r"s\.cb(\d)(\+\d+)?$")
_CASOK = re.compile(r"C\.(\S+) (\d+)->(\d+) ok$")
_CASFAIL = re.compile(r"C\.(\S+) (\d+)->(\d+) fail$")
_LOAD = re.compile(r"L\.(\S+) (\d+)$")


class StopOnRequest(Unit):
    name = "stop_on_request/StopOnRequest"; driver = "k1_stop_on_request"; cfg = "shim17"
    handler = "stoponrequest"
    maxruns = {"quick": 3000, "thorough": 10000}
    nrandom = {"quick": 200, "thorough": 1000}

    def programs(self, tier):
        return QUICK if tier == "quick" else THOROUGH

    def model_args(self, prog):
        return "%s %s %s" % prog

    def project(self, prog, events):
        n = int(prog[0])
        out = []
        incomp = set()      # threads currently inside complete()
        for e in events:
            m = re.match(r"t(\d+) (\S+) ?(.*)$", e)
            t, name, rest = int(m.group(1)), m.group(2), m.group(3)
            if name == "s.callbackState":
                out.append((t, "cbs " + rest))
                # request_stop saw ALL_CONSTRUCTED_NOT_CALLED / start()'s CAS failed: complete() follows
                if re.match(r"X\.\S+ 1->", rest) or _CASFAIL.match(rest):
                    incomp.add(t)
                continue
            ms = _SRC.match(name)
            if ms:
                i = int(ms.group(1))
                if t == n + 2:
                    continue            # hand-made teardown of a never-completed operation
                ok, fail, ld = _CASOK.match(rest), _CASFAIL.match(rest), _LOAD.match(rest)
                if t in incomp:
                    # remove_callback: the lock acquisition is DEREG i; its loads, failed CASes and
                    # the unlock store belong to the source (C03)
                    if ok and not int(ok.group(2)) & 2 and int(ok.group(3)) == int(ok.group(2)) | 2:
                        out.append((t, "src%d DEREG %s" % (i, rest)))
                    elif ok:
                        out.append((t, "src%d UNEXPECTED %s" % (i, rest)))
                elif t == 0:
                    # try_add_callback: lock CAS 0->2 = REG; observing the stop bit = inline
                    if ok and (ok.group(2), ok.group(3)) == ("0", "2"):
                        out.append((t, "src%d REG %s" % (i, rest)))
                    elif ok:
                        out.append((t, "src%d UNEXPECTED %s" % (i, rest)))
                    elif ld and int(ld.group(2)) & 1:
                        out.append((t, "src%d REG-INLINE" % i))
                    elif fail and int(fail.group(2)) & 1:
                        out.append((t, "src%d REG-INLINE" % i))
                elif t == i + 1:
                    # request_stop: the CAS 0->3 is SET i; the re-lock after the callback returned
                    # (C.acq 1->3), unlock stores and loads belong to the source
                    if ok and (ok.group(2), ok.group(3)) == ("0", "3"):
                        out.append((t, "src%d SET %s" % (i, rest)))
                    elif ok and (ok.group(2), ok.group(3)) != ("1", "3"):
                        out.append((t, "src%d UNEXPECTED %s" % (i, rest)))
                else:
                    out.append((t, "src%d UNEXPECTED %s" % (i, rest)))
                continue
            mc = _CB.match(name)
            if mc:
                if rest == "L.acq 0":
                    continue            # spin of the blocking WAIT step
                out.append((t, "cb%s %s" % (mc.group(1), rest)))
                continue
            if name == "!root":
                out.append((t, "root " + rest))
                incomp.discard(t)
            elif name == "!op_destroyed":
                out.append((t, "op_destroyed"))
        return out

    def post_check(self, prog, summary, proj):
        anyreq = "1" in prog[1] or "1" in prog[2]
        want = "completions=%d " % (1 if anyreq else 0)
        if "quiescent=1" not in summary:
            return "model not quiescent at the end of a complete implementation run: " + summary
        if want not in summary:
            return "model completions differ from the expected %s: %s" % (want.strip(), summary)
        if "late=0 " not in summary or "badtd=0 " not in summary:
            return "model counted a late access / an incomplete teardown: " + summary
        return None


class StopOnRequestASan(StopOnRequest):
    """Same driver under AddressSanitizer/UBSan (the destroyed operation is really freed): thorough only."""
    name = "stop_on_request/StopOnRequest-asan"; cfg = "shimasan17"
    maxruns = {"quick": 1000, "thorough": 6000}
    nrandom = {"quick": 100, "thorough": 500}

    def programs(self, tier):
        return [] if tier == "quick" else QUICK
