"""C10 — coroutine tasks map sender results faithfully and always run their cleanup.
Proof: coq/Properties_C10_calc.v (TCalc: task-level operational semantics of coroutine bodies, all bodies x all
scripts).  Tie: K2 over generated C++20 coroutine bodies (tools/k2t.py, harness/k2t.hpp) compared event by event
with the extracted model; the extracted monitor and an independent Python monitor run on the implementation's
traces.  K1 (shim20): the stop-request thunk of task<> (refCount_ election) on the real task.hpp under explored
schedules vs the SrThunk model (coq/Properties_C10_srthunk.v).
K3: task<> object operations outside a run (move-construct / move-assign / destroy without awaiting / await) on the
real task<int> vs the TaskBox model (coq/Properties_C10_taskbox.v), tracked by-value arguments.
Below the model: frame allocation, symmetric transfer, compiler generated coroutine code."""
import k1, k2t
from units.sr_thunk import SrThunk
LEVEL = "proof"
def run(chk, replay=None):
    chk.cov["rule"] = ("K2 (C++20): generated coroutine bodies x scripts (leaf outcomes at each suspension point, stop at any "
                       "point); non-trivial = has a stop request, a non-value root outcome or a cleanup action")
    chk.cov["trusted_base"] = ["g++ 12 coroutine code generation", "harness/k2t.hpp", "ocaml/handlers/h_tcalc.ml (rendering)"]
    chk.prove()
    quick = chk.tier == "quick"
    k2t.run_taskbox(chk, 300 if quick else 3000)
    k1.run_unit(chk, SrThunk())
    k2t.run_k2t(chk, n_tus=5 if quick else 24, cases_per_tu=8, scripts_per_case=40 if quick else 80)
