"""C13 — streams deliver the adapted sequence in order and clean up exactly once (sequential half).
Theorems: coq/Properties_C13_calc.v over the SCalc model (coq/Calc/StreamDefs.v): a calculus of stream
pipelines (range / single / never / scripted sources under transform, filter, take_until,
stop_immediately, type_erase, consumed by reduce_stream / for_each) with an operational machine that
mirrors the control flow of the real adaptors.
Tie (K2-stream, tools/k2s.py): generated pipelines x event scripts are compiled against /repo
(harness/k2s.hpp: scripted source stream with tracked next/cleanup operation states in poisoned
storage, armed root stop token) and compared event by event with the extracted model; the property
itself is evaluated on the implementation trace by direct monitors (cleanup once iff started, after
the last next, root after cleanup, tracked op-states destroyed exactly once).
The E1 units for the internal races of take_until / stop_immediately are added below by their owner."""
import k2s
from units import stream_proto
LEVEL = "proof"
def run(chk, replay=None):
    chk.cov["trusted_base"] = [
        "Coq 8.16.1 kernel; Print Assumptions closed for every theorem in Properties_C13_calc.v",
        "extraction ExtrOcamlBasic only; ocaml/handlers/h_scalc.ml (s-expression reader, event printer)",
        "harness/k2s.hpp: scripted source stream, logging callables, armed stop token; tools/k2s.py generator/comparison",
        "sequential runs only: one thread, events injected between quiescent states (races: E1 units)"]
    chk.cov["rule"] = ("K2-stream: generated pipelines x scripts (next/cleanup completions, stop, armed stop); "
                       "non-trivial = has stop / armed stop / error / cleanup error")
    chk.cov["trusted_base"] += stream_proto.trusted_base()
    chk.cov["model_variant"] = dict(stream_proto.MODEL_VARIANT)
    chk.prove()
    k2s.standard_k2s(chk)
    stream_proto.run_units(chk)   # E1: races inside stop_immediately / take_until / type_erased_stream next
