"""C07 — timers never fire early, fire in due-time order, cancel promptly, once; time_point arithmetic
is exact and totally ordered.

Theorems: coq/Properties_C07.v (arithmetic: Arith/MonoClock*, Arith/SortedInsert*) and
coq/Properties_C07_timers.v (Proto/TimerQueue*: timed_single_thread_context; Proto/UnsafeLoop*:
thread_unsafe_event_loop).
Tie:
  K3  harness/k3_c07.cpp: the real monotonic_clock::time_point operators and the real sorted insertions
      (intrusive_heap, timed_single_thread_context::enqueue, thread_unsafe_event_loop::enqueue + its
      cancel callback) against the extracted functions, on inputs aimed at the proofs' case splits;
      direct monitor = the property text evaluated with exact integers on the implementation's output.
  K1  harness/k1_timed_context.cpp / k1_unsafe_loop.cpp: lock-step against TimerQueue / UnsafeLoop under
      dsched with the virtual steady_clock; direct monitors in the drivers.
The io_epoll / io_uring timers (kernel clock) are not covered here."""
import json, os, re
import vlib, k1
from units import timers
from units import epoll_timers

LEVEL = "proof"

NS = 10 ** 9
TICK = 10 ** 7


def trunc_div(a, b):
    q = abs(a) // abs(b)
    return q if (a >= 0) == (b > 0) else -q


def canonical(s, n):
    return -NS < n < NS and (s <= 0 or n >= 0) and (s >= 0 or n <= 0)


def value(s, n):
    return s * NS + n


# ---------------------------------------------------------------------------------------------- K3
def gen_arith(chk):
    rng = chk.rng
    thorough = chk.tier == "thorough"
    secs = [-10 ** 10, -86400, -3, -2, -1, 0, 1, 2, 3, 86400, 10 ** 10]
    nsb = [0, 1, 99, 100, 101, 999999900, 999999999, 10 ** 9, 10 ** 9 + 1, 2 * 10 ** 9 + 5]
    nss = sorted(set(nsb + [-x for x in nsb]))
    ticks_b = [0, 1, 99, 100, TICK - 1, TICK, TICK + 1, 2 * TICK - 1, 2 * TICK, 2 * TICK + 1, 123456789, 5 * TICK, 86400 * TICK + 7, 2 ** 50]
    ticks = sorted(set(ticks_b + [-x for x in ticks_b]))
    cases = []   # (kind, impl_line, model_line, meta)
    for s in secs:
        for n in nss:
            cases.append(("norm", "norm %d %d" % (s, n), "mc_norm %d %d" % (s, n), (s, n)))
    for _ in range(2000 if thorough else 300):
        s = rng.choice([rng.randrange(-5, 6), rng.randrange(-10 ** 11, 10 ** 11)])
        n = rng.choice([rng.randrange(-3 * NS, 3 * NS), rng.randrange(-10 ** 17, 10 ** 17), rng.choice(nss) + rng.randrange(-2, 3)])
        cases.append(("norm", "norm %d %d" % (s, n), "mc_norm %d %d" % (s, n), (s, n)))
    ssmall = [-2, -1, 0, 1, 2] if thorough else [-1, 0, 1, 2]
    pts = [(s, n) for s in ssmall for n in nss]
    pts += [(-10 ** 10, -5), (10 ** 10, 999999999), (86400, 100)]
    for (s, n) in pts:
        tk = ticks if thorough or canonical(s, n) else ticks[::3]
        for d in tk:
            for op in ("add", "sub"):
                cases.append((op, "%s %d %d %d" % (op, s, n, d), "mc_%s %d %d %d" % (op, s, n, d), (s, n, d)))
            if d % 7 == 0 or abs(d) in (1, TICK):
                for op in ("addv", "subv"):
                    cases.append((op[:3], "%s %d %d %d" % (op, s, n, d), "mc_%s %d %d %d" % (op[:3], s, n, d), (s, n, d)))
    for _ in range(3000 if thorough else 400):
        s = rng.randrange(-10 ** 9, 10 ** 9); n = rng.randrange(-NS + 1, NS)
        if not canonical(s, n):
            n = -n
        d = rng.choice([rng.randrange(-2 ** 55, 2 ** 55), rng.randrange(-3 * TICK, 3 * TICK), rng.randrange(-100, 100) * TICK + rng.randrange(-2, 3)])
        op = rng.choice(["add", "sub"])
        cases.append((op, "%s %d %d %d" % (op, s, n, d), "mc_%s %d %d %d" % (op, s, n, d), (s, n, d)))
    # the Coq witness of diff_not_trunc_refuted first, so that it is the reported replay
    cases.append(("diff", "diff 1 0 0 1", "mc_diff 1 0 0 1", (1, 0, 0, 1)))
    pair_pts = pts if thorough else [(s, n) for (s, n) in pts if abs(s) <= 2 and (canonical(s, n) or n % 7 == 0)]
    for (s1, n1) in pair_pts:
        for (s2, n2) in pair_pts:
            cases.append(("diff", "diff %d %d %d %d" % (s1, n1, s2, n2), "mc_diff %d %d %d %d" % (s1, n1, s2, n2), (s1, n1, s2, n2)))
            cases.append(("cmp", "cmp %d %d %d %d" % (s1, n1, s2, n2), "mc_cmp %d %d %d %d" % (s1, n1, s2, n2), (s1, n1, s2, n2)))
    for _ in range(4000 if thorough else 500):
        def pt():
            s = rng.choice([rng.randrange(-3, 4), rng.randrange(-10 ** 10, 10 ** 10)])
            n = rng.choice([rng.randrange(-NS + 1, NS), rng.choice(nss)])
            if rng.random() < 0.8 and not canonical(s, n):
                n = -n if canonical(s, -n) else 0
            return s, n
        (s1, n1), (s2, n2) = pt(), pt()
        if rng.random() < 0.3:
            s2 = s1 + rng.randrange(-1, 2)
        k = rng.choice(["diff", "cmp"])
        cases.append((k, "%s %d %d %d %d" % (k, s1, n1, s2, n2), "mc_%s %d %d %d %d" % (k, s1, n1, s2, n2), (s1, n1, s2, n2)))
    return cases


def gen_queue(chk):
    rng = chk.rng
    thorough = chk.tier == "thorough"
    cases = []
    import itertools
    # all key lists of length <= L over a small alphabet (ties!), plain insertion, for the three real insertions
    L = 6 if thorough else 5
    for n in range(0, L + 1):
        for keys in itertools.product((1, 2, 3), repeat=n):
            if n >= 5 and not thorough and sum(keys) % 3:
                continue
            ops = " ".join("i%d" % k for k in keys)
            cases.append(("heap", "heap " + ops, "sq_heap " + ops, keys))
            if n <= 4 or sum(keys) % 2 == 0:
                cases.append(("ulq", "ulq " + ops, "sq_timed " + ops, keys))
    for n in range(0, 5):
        for keys in itertools.product((1, 2, 3), repeat=n):
            if sum(keys) % 4 == 0:
                ops = " ".join("i%d" % k for k in keys)
                cases.append(("tsq", "tsq " + ops, "sq_timed " + ops, keys))
    # random operation sequences: insert / pop / top / remove (heap), insert / cancel-requeue (loop)
    for _ in range(3000 if thorough else 500):
        ops, sim, nxt = [], [], 0        # sim: the queue as (key, id), simulated only to pick valid ids to remove
        for _ in range(rng.randrange(1, 14)):
            r = rng.random()
            if r < 0.55 or not sim:
                k = rng.choice([rng.randrange(-3, 4), rng.randrange(-1000, 1000)])
                ops.append("i%d" % k)
                pos = len([x for x in sim if x[0] <= k])
                sim.insert(pos, (k, nxt)); nxt += 1
            elif r < 0.7:
                ops.append("p"); sim.pop(0)
            elif r < 0.8:
                ops.append("t")
            else:
                v = rng.choice(sim); sim.remove(v); ops.append("r%d" % v[1])
        ops = " ".join(ops)
        cases.append(("heap", "heap " + ops, "sq_heap " + ops, ()))
    for _ in range(1500 if thorough else 300):
        ops, fresh, nxt = [], [], 0
        for _ in range(rng.randrange(1, 12)):
            if rng.random() < 0.65 or not fresh:
                ops.append("i%d" % rng.choice([rng.randrange(0, 4), rng.randrange(0, 1000)])); fresh.append(nxt); nxt += 1
            else:
                v = rng.choice(fresh); fresh.remove(v); ops.append("x%d" % v)     # each id cancelled at most once
        ops = " ".join(ops)
        cases.append(("ulq", "ulq " + ops, "sq_timed " + ops, ()))
    # pop sequences: insert everything, then pop all (checks min-first, FIFO among ties)
    for _ in range(600 if thorough else 150):
        n = rng.randrange(1, 10)
        ops = ["i%d" % rng.randrange(0, 4) for _ in range(n)] + ["p"] * (n + 1)
        ops = " ".join(ops)
        cases.append(("heap", "heap " + ops, "sq_heap " + ops, ()))
    return cases


def monitor_arith(kind, meta, out):
    """The property ('time_point arithmetic is exact and totally ordered') evaluated with exact integers on
    what the implementation returned.  Returns (ok, key-suffix, text)."""
    try:
        vals = [int(x) for x in out.split()]
    except Exception:
        return False, "crash", "unparsable/crash: " + out[:100]
    if kind == "norm":
        s, n = meta
        rs, rn = vals
        if not canonical(rs, rn):
            return False, "not-canonical", "normalize(%d,%d) = (%d,%d) is not canonical" % (s, n, rs, rn)
        if value(rs, rn) != value(s, n):
            return False, "value", "normalize changes the instant"
    elif kind in ("add", "sub"):
        s, n, d = meta
        if not canonical(s, n):
            return True, "", ""
        rs, rn = vals
        want = value(s, n) + (100 * d if kind == "add" else -100 * d)
        if value(rs, rn) != want or not canonical(rs, rn):
            return False, "inexact", "%s: got (%d,%d), exact instant %d" % (kind, rs, rn, want)
    elif kind == "cmp":
        s1, n1, s2, n2 = meta
        if not (canonical(s1, n1) and canonical(s2, n2)):
            return True, "", ""
        a, b = value(s1, n1), value(s2, n2)
        want = [int(a < b), int(a == b), int(a <= b), int(a > b), int(a >= b), int(a != b)]
        if vals != want:
            return False, "order", "comparison operators %r, exact %r" % (vals, want)
    elif kind == "diff":
        s1, n1, s2, n2 = meta
        if not (canonical(s1, n1) and canonical(s2, n2)):
            return True, "", ""
        d = vals[0]
        exact = value(s1, n1) - value(s2, n2)
        if abs(100 * d - exact) >= 100:
            return False, "error-bound", "difference %d ticks, exact %d ns" % (d, exact)
        if d != trunc_div(exact, 100):
            return False, "not-truncation", ("(%d s,%d ns) - (%d s,%d ns) = %d ticks, but the exact difference %d ns truncates to %d ticks"
                                             % (s1, n1, s2, n2, d, exact, trunc_div(exact, 100)))
    return True, "", ""


def run_k3(chk, replay):
    exe, err = vlib.build_driver("k3_c07", "plain17")
    if err:
        p = chk.replay_file("build_k3", {"kind": "build-failure", "error": err})
        chk.violation("k3_c07/build", p, no_input=True, text="harness k3_c07 no longer compiles against /repo")
        return
    cases = gen_arith(chk) + gen_queue(chk)
    if replay:
        r = json.load(open(replay))
        if "impl_line" in r:
            cases = [(r["kind"], r["impl_line"], r["model_line"], tuple(r["meta"]))]
    mlines = sorted(set(c[2] for c in cases))
    mout = dict(zip(mlines, vlib.model_run(mlines)))
    iout = vlib.run_impl_lines(exe, [c[1] for c in cases], chunk=2000)
    dist = {}
    for (kind, il, ml, meta), io in zip(cases, iout):
        mo = mout[ml]
        dist[kind] = dist.get(kind, 0) + 1
        arith = kind in ("norm", "add", "sub", "diff", "cmp")
        nontrivial = (arith and any(x != 0 for x in meta)) or (not arith and il.count(" ") >= 2)
        chk.count(il, nontrivial)
        mon_ok, mon_key, mon_text = monitor_arith(kind, meta, io) if arith else (True, "", "")
        if not arith and (io.startswith("CRASH") or not io.endswith("| ok")):
            mon_ok, mon_key, mon_text = False, "links", "list links inconsistent / crash: " + io[:100]
        agree = (io == mo)
        if agree and mon_ok:
            chk.cov["traces_validated_against_impl"] += 1
            if nontrivial:
                chk.sample({"impl_line": il, "impl": io[:120], "model": mo[:120]}, limit=4)
            continue
        chk.cov["disagreements_checked"] += 1
        area = "monotonic_clock" if arith else "sorted_insert"
        what = {"norm": "normalize", "add": "add", "sub": "sub"}.get(kind, kind)
        if not mon_ok:
            key = "%s/%s/%s" % (area, what, mon_key)
        else:
            key = "%s/%s/corr" % (area, what)
        rp = chk.replay_file(key.replace("/", "_"),
                             {"kind": kind, "impl_line": il, "model_line": ml, "meta": meta, "impl": io, "model": mo,
                              "monitor": mon_text, "agree_with_model": agree,
                              "obligation": "K3 correspondence MonoClockDefs/SortedInsertDefs vs monotonic_clock.hpp / intrusive_heap.hpp / enqueue",
                              "replay": "echo '%s' | %s" % (il, exe)})
        chk.violation(key, rp, no_input=mon_ok, text="%s: impl=%s model=%s %s" % (il, io[:60], mo[:60], mon_text))
    chk.cov["input_distribution"] = dist


# ---------------------------------------------------------------------------------------------- K1
def run_unsafe_loop(chk):
    u = timers.UnsafeLoop()
    k1.run_unit(chk, u)
    if not u.uninit_hits:
        return
    exe, err = vlib.build_driver(u.driver, u.cfg)
    confirmed = []
    for prog, ev in u.uninit_hits:
        rc, out, errt = vlib.sh2([exe, "crashchild", prog[0], prog[1], prog[2]], timeout=60)
        confirmed.append({"program": list(prog), "event": ev, "forked_child_running_it_for_real": out.strip().split("\n")[-1]})
    rp = chk.replay_file("unsafe_loop_uninit_links",
                         {"kind": "monitor-failed-on-implementation", "unit": u.name,
                          "what": "operation_base::next_/prevPtr_ have no initialiser; started with stop already requested and a "
                                  "future due time, the inline cancel callback tests prevPtr_ != nullptr and writes through it",
                          "cases": confirmed, "model": "Proto/UnsafeLoopDefs.v with lnk0 = LUninit; theorem C07_ul_no_uninit_read_refuted",
                          "replay": "%s %s --replay -    and    %s crashchild %s" % (exe, " ".join(u.uninit_hits[0][0]), exe, " ".join(u.uninit_hits[0][0][:2]))})
    chk.violation("thread_unsafe_event_loop/prestopped/uninit-links", rp,
                  text="cancel callback reads uninitialised next_/prevPtr_ (%d programs; child: %s)"
                       % (len(confirmed), confirmed[0]["forked_child_running_it_for_real"]))


def run(chk, replay=None):
    chk.cov["trusted_base"] = [
        "Coq 8.16.1 kernel; Print Assumptions of every theorem in Properties_C07.v / Properties_C07_timers.v: closed under the global context",
        "extraction ExtrOcamlBasic only; ocaml/lockstep.ml, conv.ml, handlers/h_c07arith.ml, h_timerqueue.ml glue",
        "harness: verif_shim.hpp + dsched (serialises real threads: sequential consistency assumed; virtual steady_clock), "
        "k1_timed_context.cpp, k1_unsafe_loop.cpp, k3_c07.cpp, tools/units/timers.py projections (lock-word canonicalisation, clock-jump replay)",
        "modelled not verified: int64 overflow of time_point arithmetic is outside the model (unbounded Z); the stop source is modelled at "
        "lock granularity (its internals are C03's); plain fields under mutex_ are folded into the lock/unlock steps; "
        "io_epoll/io_uring timers (kernel clock) are not covered"]
    chk.cov["rule"] = ("K3: one case per input line, non-trivial = some operand non-zero / at least two queue operations; "
                       "K1: all schedules with <= bound preemptions plus seeded random ones, distinct = distinct projected traces, "
                       "non-trivial = at least two context switches among owned events (thread_unsafe_event_loop: >= 4 owned events)")
    chk.prove()
    run_k3(chk, replay)
    k1.run_unit(chk, timers.TimedContext())
    k1.run_unit(chk, epoll_timers.EpollTimers())
    run_unsafe_loop(chk)
