"""C07 (preliminary)"""
import k1
from units import timers
LEVEL = "proof"
def run(chk, replay=None):
    chk.prove()
    k1.run_unit(chk, timers.TimedContext())
    u = timers.UnsafeLoop()
    k1.run_unit(chk, u)
    print(u.uninit_hits)
