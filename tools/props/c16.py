"""C16 — events and async_pass wake every waiter exactly once and rendezvous atomically."""
import k1
from units import event, async_pass, event_v2
LEVEL = "proof"
def run(chk, replay=None):
    chk.cov["trusted_base"] = [
        "Coq 8.16.1 kernel; no axioms (Print Assumptions closed) for every theorem in Properties_C16_*.v",
        "extraction ExtrOcamlBasic only; ocaml/lockstep.ml, handlers/h_eventv1.ml, h_autoreset.ml glue",
        "k1_auto_reset.cpp: mailbox scheduler of the driver (one per consumer thread); stop callback of next() not exercised "
        "(cancellation = set_done in the model)",
        "event_v2: Coq model EventV2 tied by lock-step (unit event_v2.EventV2); the logic and lifetime runners of units/event.py remain as direct monitors (driver-side stop token with inplace_stop_token semantics)",
        "harness: verif_shim.hpp + dsched (serialises real threads: sequential consistency assumed; "
        "compare_exchange_weak never fails spuriously), k1_event_v1.cpp (hop_scheduler wrapper logs the hand-off)",
        "modelled not verified: the scheduler the completion is handed to (inline_scheduler / single_thread_context, C06); "
        "the direct monitor checks that the completion arrives exactly once on that scheduler's thread"]
    chk.cov["rule"] = ("K1: all schedules of each program with <= bound preemptions plus seeded random ones; "
                       "distinct = distinct projected traces; non-trivial = at least two context switches among owned events")
    chk.prove()
    k1.run_unit(chk, event.EventV1())
    k1.run_unit(chk, event.AutoReset())
    # event.AutoResetMulti (two concurrent next() on one stream) is NOT run: a stream has one consumer that
    # asks for the next element after the previous next() completed (doc/concepts.md), so the "spurious done"
    # of a second concurrent next() (theorem C16_autoreset_spurious_done_refuted) is outside the property.
    k1.run_unit(chk, async_pass.AsyncPass())
    k1.run_unit(chk, event_v2.EventV2())   # Coq model EventV2 (Properties_C16_eventv2.v), lock-step
    k1.run_unit(chk, event.EventV2Logic())
    # keys name the failing call site (event_v2/touched-after-completion/<word>:<op>), not the program
    event.run_lifetime(chk)
