"""C15 — async_mutex gives mutual exclusion and never loses a waiter.
Theorems: coq/Properties_C15_v1.v (MutexV1) and coq/Properties_C15_v2.v (MutexV2, over an abstract
linearizable waiter list).  Tie (K1): the real v1::async_mutex / v2::async_mutex compiled from the
repository run under dsched on <= 3 lockers (+ try_lock threads, + stop requesters for v2); every
distinct projected trace is replayed on the extracted model and compared event by event; the
drivers' direct monitors check acquire/release alternation, everybody served, no deadlock."""
import k1
from units import mutex
LEVEL = "proof"

class _Keyed:
    """Forwards to the real Check but gives every violation that is a manifestation of finding 12
    (completion_forwarder's scheduler hop is cancellable: a lock that was already granted is
    turned into set_done and the mutex stays locked) ONE specific key, whatever program and
    schedule exhibited it.  The driver's monitor marks those runs with "hop-cancelled"."""
    KEY = "mutex_v2/forwarder-hop-cancellable-lock-leak"
    def __init__(self, chk):
        self.__dict__["_c"] = chk
    def __getattr__(self, n):
        return getattr(self._c, n)
    def __setattr__(self, n, v):
        setattr(self._c, n, v)
    def violation(self, key, replay_path, no_input=False, text=""):
        try:
            txt = open(replay_path).read()
        except Exception:
            txt = ""
        if "hop-cancelled" in txt and ("/monitor" in key or "/deadlock" in key):
            key = self.KEY
        return self._c.violation(key, replay_path, no_input, text)

def run(chk, replay=None):
    chk.cov["trusted_base"] = [
        "Coq 8.16.1 kernel; no axioms (Print Assumptions closed) for every theorem in Properties_C15_v1.v / Properties_C15_v2.v",
        "extraction ExtrOcamlBasic only; ocaml/lockstep.ml, handlers/h_mutexv1.ml, h_mutexv2.ml glue",
        "harness: verif_shim.hpp + dsched (serialises real threads: sequential consistency assumed; the Dekker fences of v2 are therefore not exercised), vh.hpp, k1_mutex_v1.cpp, k1_mutex_v2.cpp",
        "compare_exchange_weak taken as strong (no spurious failures)",
        "v2: the waiter list is ABSTRACT (named assumption; the link-level atomic_intrusive_list.cpp is a separate unit): try_remove and empty atomic, push_back = claim tail + publish, successful pop_front = take (self := null) + publish (head := rest); K1 validates these linearization points against the real list on every explored schedule",
        "v2: inplace_stop_source modelled at lock granularity (C03 owns its internals)"]
    chk.cov["rule"] = ("K1: all schedules of each program with <= bound preemptions plus seeded random ones; "
                       "distinct = distinct projected traces; non-trivial = at least two context switches among owned events")
    chk.prove()
    k1.run_unit(chk, mutex.MutexV1())
    k1.run_unit(_Keyed(chk), mutex.MutexV2())
    import units.atomic_list as _al
    k1.run_unit(_al.Keyed(chk), _al.AtomicList())   # link-level list under both mutexes/events (Properties_C15_list.v)
