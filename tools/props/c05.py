"""C05 — algorithm results equal the documented function of their children's results (dev stub)."""
import k2
LEVEL = "proof"
def run(chk, replay=None):
    chk.cov["rule"] = "K2: generated expressions x scripts; non-trivial = has stop/error/done"
    chk.prove()
    k2.standard_k2(chk)
