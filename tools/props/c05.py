"""C05 — algorithm results equal the documented function of their children's results (dev stub)."""
import k2, k2v2
LEVEL = "proof"
def run(chk, replay=None):
    chk.cov["rule"] = "K2: generated expressions x scripts; non-trivial = has stop/error/done"
    chk.prove()
    k2.standard_k2(chk)
    k2v2.standard_k2v2(chk)   # second-generation model Calc2: more algorithms and throwing value copies (tie; theorems Properties_*_calc2.v)
