"""C05 — algorithm results equal the documented function of their children's results (dev stub)."""
import k2
LEVEL = "proof"
def run(chk, replay=None):
    chk.cov["rule"] = "K2: generated expressions x scripts; non-trivial = has stop/error/done"
    chk.prove()
    quick = chk.tier == "quick"
    k2.run_k2(chk, n_tus=16 if quick else 48, cases_per_tu=8, scripts_per_case=30 if quick else 60)
