"""C05 — algorithm results equal the documented function of their children's results (dev stub)."""
import k2, k2v2
LEVEL = "proof"
def run(chk, replay=None):
    chk.cov["rule"] = "K2: generated expressions x scripts; non-trivial = has stop/error/done"
    chk.prove()
    result_probe(chk)
    k2.standard_k2(chk)
    k2v2.standard_k2v2(chk)   # second-generation model Calc2: more algorithms and throwing value copies (tie; theorems Properties_*_calc2.v)


# documented results (doc/api_reference.md and the headers' comments), written down independently of the program's output
DOCUMENTED = {
    "war_empty": "v[]", "war_v": "v[0]", "war_vvv": "v[0,10,20]",          # values in index order
    "war_vev": "e101", "war_vdv": "d", "war_ved": "e101", "war_vde": "d", "war_eee": "e100",   # the first non-value child decides
    "just_from_v": "v7", "just_from_throw": "e31",
    "jvod_true": "v1", "jvod_false": "d",
    "lvw_v": "v6", "lvw_e": "e5",
    "defer_v": "v9", "defer_d": "v-5",
    "demat_mat_v": "v3", "demat_mat_e": "e33", "demat_mat_d": "v-6",
    "intov_v": "v5", "variant_first": "v8", "variant_second": "d",
    "let_error_maps": "v-1", "let_error_passes_v": "v2", "let_done_maps": "v-2", "upon_done_maps": "v-3", "upon_error_maps": "v-4",
    "repeat_until_3": "v3", "repeat_error": "e37",
    "retry_third_time": "v3", "retry_trigger_done": "d", "retry_trigger_error": "e41",
}


def result_probe(chk):
    """harness/k3_c05_probe.cpp: results of algorithms / input shapes outside the generated grammar (when_all_range, just_from,
    just_void_or_done, let_value_with, defer, into_variant, variant_sender, dematerialize o materialize, repeat/retry results)
    compared with the documented function - a direct monitor on the real code."""
    import re, vlib
    exe, err = vlib.build_driver("k3_c05_probe", "plain17")
    if err:
        p = chk.replay_file("c05probe_build", {"kind": "build-failure", "error": err[-3000:]})
        chk.violation("c05probe/build", p, no_input=True, text="k3_c05_probe does not compile against /repo")
        return
    rc, out = vlib.sh([exe], timeout=120)
    seen = {}
    for l in out.splitlines():
        m = re.match(r"(\w+) = (.*)$", l)
        if m:
            seen[m.group(1)] = m.group(2).strip()
    for name, want in DOCUMENTED.items():
        got = seen.get(name)
        chk.count("c05probe:" + name, want[0] != "v")
        if got == want:
            chk.cov["traces_validated_against_impl"] += 1
            continue
        p = chk.replay_file("c05probe_" + name, {"kind": "result-probe", "probe": name, "documented": want, "observed": got,
                                                 "replay": exe + " | grep '^%s '" % name})
        chk.violation("c05probe/%s" % name, p, text="%s: documented result %s, observed %s" % (name, want, got))
    if (rc != 0 or "END" not in out) and not chk.violations:
        p = chk.replay_file("c05probe_run", {"kind": "probe-crash", "rc": rc, "out": out[-2000:], "replay": exe})
        chk.violation("c05probe/crash", p, text="result probe program failed rc=%d" % rc)
    chk.cov["result_probes"] = len(DOCUMENTED)
