"""C12 — receiver queries (stop token, custom query CPOs) reach all children.
Theorems: coq/Properties_C12_calc.v; tie: K2 (every leaf logs what it observes through its receiver)."""
import k2, k2v2
LEVEL = "proof"
def run(chk, replay=None):
    chk.cov["trusted_base"] = [
        "Coq 8.16.1 kernel; Print Assumptions closed for every theorem of Properties_C12_calc.v",
        "extraction ExtrOcamlBasic only; ocaml/handlers/h_calc.ml",
        "harness/k2.hpp, tools/k2.py",
        "modelled: two user-defined query CPOs, stop token (stopped / stop_possible); get_scheduler/get_allocator are not yet in the model"]
    chk.cov["rule"] = "K2: generated adaptor stacks over leaves that log the answers of their receiver; non-trivial = has with_query_value/unstoppable/when_all/stop_when on the path"
    chk.prove()
    k2.standard_k2(chk)
    k2v2.standard_k2v2(chk)   # second-generation model Calc2 (lifetimes, contexts, more algorithms): tie (theorems: Properties_*_calc2.v)
