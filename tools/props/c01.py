"""C01 — every started operation completes exactly once, never before start."""
import k1, k2, k2v2
from units import when_all
LEVEL = "proof"
def run(chk, replay=None):
    chk.cov["trusted_base"] = [
        "Coq 8.16.1 kernel; no axioms (Print Assumptions closed) for every theorem in Properties_C01.v",
        "extraction ExtrOcamlBasic only; ocaml/lockstep.ml, handlers/h_refelect.ml glue",
        "harness: verif_shim.hpp + dsched (serialises real threads: sequential consistency assumed), vh.hpp leaves, k1_when_all.cpp",
        "modelled not verified: stop-source internals are C03's model; only refCount_/doneOrError_/stop bit/root completion are owned here"]
    chk.cov["rule"] = ("K1: all schedules of each program with <= bound preemptions plus seeded random ones; "
                       "distinct = distinct projected traces; non-trivial = at least two context switches among owned events")
    chk.prove()
    k1.run_unit(chk, when_all.WhenAllRefElect())
    for U in when_all.REGELECT_UNITS: k1.run_unit(chk, U())   # when_all_range / stop_when: election + stop-callback registration (RegElect model)
    k2.standard_k2(chk)   # ties the Calc model (Properties_C01_calc.v) to the real algorithms
    k2v2.standard_k2v2(chk)   # second-generation model Calc2 (lifetimes, contexts, more algorithms): tie (theorems: Properties_*_calc2.v)
