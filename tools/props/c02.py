"""C02 — operation states and captured objects are destroyed exactly once, never early.
Theorems: coq/Properties_C02_calc2.v over the Calc2 model (operation-state lifetimes of every leaf instance in
every expression and script). Tie: K2v2 — the real algorithms over leaves whose operation states log their
destruction, operation state in 0xAB-poisoned storage, plus the direct life-cycle monitor on the implementation
trace. (Self-owning heap operations: C09; cancel wrappers: C19; streams: C13.)"""
import k2v2
LEVEL = "proof"
def run(chk, replay=None):
    chk.cov["trusted_base"] = [
        "Coq 8.16.1 kernel; Print Assumptions closed for every theorem of Properties_C02_calc2.v",
        "extraction ExtrOcamlBasic only; ocaml/handlers/h_calc2.ml",
        "harness/k2v2.hpp (leaf op-states with logging destructors), tools/k2v2.py (batch-wise comparison of stop-callback order)",
        "modelled not verified: lifetimes of stored values / callables / receivers (only operation states of leaves and scheduler items are "
        "tracked); throwing copies/connect/allocation are not in the model (callable throws are)"]
    chk.cov["rule"] = "K2v2: generated expressions x scripts; non-trivial = script with a stop or a non-value completion"
    chk.prove()
    k2v2.standard_k2v2(chk)
