"""C20 — build configuration never changes results (translation validation over the K2 programs);
async-stack bookkeeping balanced (monitor in the debug configurations)."""
import k2
LEVEL = "translation_validation"
CONFIGS = ["plain17", "plain20", "dbg17", "dbg20", "vis17", "vis20", "dbgvis17", "dbgvis20"]
def run(chk, replay=None):
    chk.cov["rule"] = ("the K2 programs (generated sender expressions x event scripts) compiled in each of the 8 configurations "
                       "{C++17,C++20} x {NDEBUG, debug+async stacks} x {continuation visitation 0,1}; every configuration's trace must equal the "
                       "ONE trace of the Calc model, hence each other; non-trivial = has stop/error/done")
    quick = chk.tier == "quick"
    per = {}
    for cfg in CONFIGS:
        before = chk.cov["traces_validated_against_impl"]
        k2.run_k2(chk, n_tus=2 if quick else 12, cases_per_tu=8, scripts_per_case=12 if quick else 40, cfg=cfg, tag="k2" + cfg)
        per[cfg] = chk.cov["traces_validated_against_impl"] - before
    chk.cov["per_configuration_traces_equal_to_model"] = per
    chk.cov["programs"] = chk.cov.get("k2", {}).get("programs", 0)
    chk.cov["explanation"] = "translation validation: 8 build configurations against one model trace"
