"""C20 - build configuration never changes results; async-stack bookkeeping is balanced.

First half (translation validation, by nature): the K2 programs (generated sender expressions x event
scripts) compiled in each of the 8 configurations {C++17, C++20} x {NDEBUG, debug + async stacks} x
{continuation visitation 0, 1}; every configuration's trace must equal the ONE trace of the Calc model,
hence each other.

Second half: theorems coq/Properties_C20_asyncstack.v over the AsyncStack model
(coq/Proto/AsyncStackDefs.v: per-thread chain of roots, frames with parent links, the brackets of
inject_async_stack.hpp around start() and every completion signal, sync_wait's initial_stack_root) for
ALL op trees, ALL traced runs, ALL schedules: no assert fires, roots restored, activations balanced,
parent chain = ancestors.  Tie (tools/k2as.py, harness/k2as.hpp, handler "asyncstack"): in the four debug
configurations the same K2 programs print snapshots of the real bookkeeping at every leaf start / completion
and at the root receiver; the traced run is reconstructed, replayed on the extracted model and the model's
snapshots compared with the implementation's; direct monitors at quiescence; one family of cases under
sync_wait (two threads) and - C++20 - a task<> awaiting the expression (monitors only: the coroutine path
is not modelled); with continuation visitation: async_trace from every leaf against the predicted chain of
receivers."""
import hashlib, os, random, re
import vlib, k2, k2as

LEVEL = "translation_validation"
CONFIGS = ["plain17", "plain20", "dbg17", "dbg20", "vis17", "vis20", "dbgvis17", "dbgvis20"]
DBG = ["dbg17", "dbg20", "dbgvis17", "dbgvis20"]
# development only (mutation runs on a private copy of the repository): VERIF_C20_CONFIGS=dbg17,dbgvis17 restricts the matrix
_ONLY = [c for c in os.environ.get("VERIF_C20_CONFIGS", "").split(",") if c]

L0, L1, L2 = ("leaf", 0), ("leaf", 1), ("leaf", 2)
AS_CORPUS = [   # every adaptor of the calculus at least once, inline and asynchronous children, internal just of done_as_optional
    ("dopt", ("unstop", ("mat", L0))),
    ("letv", ("just", 3), ("wall", L0, ("then", ("add", 1), ("var", 0)))),
    ("lete", ("jerr", 21), ("seq", L0, ("udone", ("add", 2), L1))),
    ("fin", ("letd", ("leafn", 0), ("just", 5)), ("withq", 1, 4, L1)),
    ("wall", ("uerr", ("mul", 2), ("leafn", 0)), ("seq", ("jdone",), L1)),
    ("dopt", ("wall", ("lete", ("leafn", 0), ("leafn", 1)), ("just", 2))),
    ("seq", ("then", ("add", 1), ("just", 1)), ("letv", L0, ("wall", L1, ("var", 0)))),
    ("mat", ("fin", ("wall", L0, L1), ("jerr", 25))),
]
SW_CORPUS = [   # expressions without stop_when (its async_trace finding is reported from the main corpus)
    ("then", ("add", 1), L0),
    ("letv", L0, ("wall", L1, ("var", 0))),
    ("seq", L0, L1),
    ("wall", ("letd", L0, L1), L2),
    ("fin", ("lete", L0, ("var", 0)), L1),
    ("dopt", ("unstop", ("mat", L0))),
]
WAIT_CORPUS = SW_CORPUS + [("wall", ("swhen", L0, L1), L2)]
TASK_CORPUS = SW_CORPUS[:4]


def _build(chk, cases_by_tu, cfg, mode, tag, pure=()):
    cd = vlib.cache_dir()
    gen_dir = os.path.join(cd, "k2src"); os.makedirs(gen_dir, exist_ok=True)
    jobs = []
    for ti, cases in enumerate(cases_by_tu):
        src = k2as.emit_tu(cases, mode, ti in pure)
        h = hashlib.sha256(src.encode()).hexdigest()[:12]
        p = os.path.join(gen_dir, "%s_%s.cpp" % (tag, h))
        if not os.path.exists(p):
            open(p, "w").write(src)
        jobs.append(("%s_%s" % (tag, h), cfg, p, "", True))
    built = vlib.build_many(jobs)
    out = []
    for ti, (j, cases) in enumerate(zip(jobs, cases_by_tu)):
        exe, err = built[(j[0], j[1])]
        if err:
            rp = chk.replay_file("as_build_" + j[0], {"kind": "build-failure", "tu": j[2], "error": err[-3000:]})
            chk.violation("as/build/%s" % cfg, rp, no_input=True, text="async-stack TU does not compile (%s): %s" % (cfg, err[-300:].replace("\n", " ")))
            continue
        out.append((exe, cases, ti in pure))
    return out


def _canon_cascade(trace):
    """like k2.canon, but a stop cascade may interleave the callables of a reactive leaf's completion with the
    other leaves' stop callbacks (delivery order among the callbacks of one stop source is registration order,
    which the Calc model does not track): maximal runs of 'stopseen'/'call' lines that contain a 'stopseen' are sorted"""
    body, _, tail = trace.partition(" # ")
    evs = [x for x in body.split(";") if x and not x.startswith("leak ")]
    out, run = [], []
    def flush():
        out.extend(sorted(run) if any(x.startswith("stopseen ") for x in run) else run)
        del run[:]
    for x in evs:
        if x.startswith("stopseen ") or x.startswith("call "):
            run.append(x)
        else:
            flush(); out.append(x)
    flush()
    return ";".join(out) + " # " + tail


def _wait_scripts(rng, e, n):
    ls = sorted(set(k2.leaves(e)))
    out = []
    for _ in range(n):
        o = ls[:]; rng.shuffle(o)
        out.append((0, " ".join("L%d:%s" % (i, rng.choice(["v3", "v7", "e31", "d"])) for i in o)))
    return out


def asyncstack_tie(chk):
    quick = chk.tier == "quick"
    rng = random.Random(chk.seed * 104729 + 20)
    st = chk.cov.setdefault("asyncstack", {"programs": 0, "runs": 0, "observations": 0, "model_replays": 0,
                                           "snapshots_compared": 0, "sync_wait_runs": 0, "task_runs": 0, "traces_checked": 0,
                                           "distinct_programs_replayed": 0, "stalecache_reproduced": 0, "per_configuration": {}})
    # the K2 programs of the first half (same generator state as k2.run_k2: same expressions as in the NDEBUG
    # configurations), with K2's own inline senders ("pure"), plus the async-stack corpus with observing inline leaves
    krng = random.Random(chk.seed * 7919 + 17)
    rtus = []
    for _ in range(2 if quick else 12):
        cases = []
        for _ in range(8):
            g = k2.Gen(krng); cases.append(g.expr(krng.randint(2, 8)))
        rtus.append(cases)
    tus = [k2.CORPUS] + rtus + [AS_CORPUS]
    pure = set(range(len(tus) - 1))
    scripts = {}
    for cases in tus:
        for e in cases:
            scripts[k2.to_model(e)] = k2.gen_scripts(rng, e, 6 if quick else 24)
    wscripts = {k2.to_model(e): _wait_scripts(rng, e, 3 if quick else 10) for e in WAIT_CORPUS}
    distinct = set()
    per_cfg_calc = st.setdefault("calc_traces_compared", {})

    def violation(kind, cfg, e, pre, sc, verdict, io, exe, line, info, mode):
        chk.cov["disagreements_checked"] += 1
        rec = {"kind": "asyncstack", "configuration": cfg, "mode": mode, "expr": k2.to_model(e), "cpp": k2as.tree_of(e, mode != "plain")[1],
               "prestop": pre, "script": sc, "verdict": verdict, "impl": io, "program": info.get("program") if info else None,
               "model_line": info.get("model_line") if info else None,
               "obligation": "AsyncStack correspondence: snapshots of the real bookkeeping vs the model; direct monitors",
               "replay": "echo '%s' | %s" % (line, exe)}
        rp = chk.replay_file("as_%s" % hashlib.sha256((cfg + mode + k2.to_model(e) + sc).encode()).hexdigest()[:10], rec)
        key = "as/%s" % re.sub(r"[^\w/.-]+", "_", verdict.split(":")[0])
        chk.violation(key, rp, text="[%s %s] %s | %s | %s" % (cfg, mode, k2.to_model(e), sc, verdict[:400]))

    for cfg in DBG:
        if _ONLY and cfg not in _ONLY:
            continue
        per = st["per_configuration"].setdefault(cfg, {"runs": 0, "ok": 0})
        # ---------------- plain K2 runs: model replay + monitors (+ async_trace with visitation) + Calc trace
        for exe, cases, is_pure in _build(chk, tus, cfg, "plain", "k2as" + cfg, pure):
            lines, meta = [], []
            for i, e in enumerate(cases):
                st["programs"] += 1
                for pre, sc in scripts[k2.to_model(e)]:
                    lines.append("%d %d | %s" % (i, pre, sc)); meta.append((e, pre, sc))
            iout = vlib.run_impl_lines(exe, lines, chunk=400)
            cal = vlib.model_run(["calc %d %s | %s" % (pre, k2.to_model(e), sc) for (e, pre, sc) in meta])
            pend = []
            for (e, pre, sc), io, line, co in zip(meta, iout, lines, cal):
                st["runs"] += 1; per["runs"] += 1
                t, _ = k2as.tree_of(e, False, is_pure)
                if io.startswith("CRASH"):
                    violation("crash", cfg, e, pre, sc, "crash: " + io[:300], io, exe, line, None, "plain"); continue
                # first half for free: the trace without the async-stack records equals the Calc model's
                body, _, tail = io.partition(" # ")
                plain = ";".join(x for x in body.split(";") if not x.startswith("as ")) + " # " + tail
                per_cfg_calc[cfg] = per_cfg_calc.get(cfg, 0) + 1
                if k2.canon(plain) != k2.canon(co) and _canon_cascade(plain) == _canon_cascade(co) and not k2.monitor(plain):
                    st["calc_cascade_order_tolerated"] = st.get("calc_cascade_order_tolerated", 0) + 1
                elif k2.canon(plain) != k2.canon(co) or k2.monitor(plain):
                    violation("calc", cfg, e, pre, sc, "calc: trace differs from the Calc model: %s vs %s" % (k2.canon(plain)[:150], k2.canon(co)[:150]),
                              io, exe, line, None, "plain"); continue
                v, info = k2as.check_run(t, io)
                st["observations"] += info.get("observations", 0)
                if not v and "vis" in cfg:
                    v = k2as.check_traces(t, k2as.parse_log(io)[1]); st["traces_checked"] += 1
                if v:
                    violation("", cfg, e, pre, sc, v, io, exe, line, info, "plain"); continue
                pend.append((e, pre, sc, io, line, info))
            mout = vlib.model_run([p[5]["model_line"] for p in pend]) if pend else []
            for (e, pre, sc, io, line, info), mo in zip(pend, mout):
                st["model_replays"] += 1
                v = k2as.compare_with_model(info, mo)
                if not v and "roots=0" in io and "(C " not in info["program"][0]:
                    # no completion bracket at all: every started operation state is alive; its frame's cached stackRoot still
                    # names the destroyed root of its start bracket (C20_stackroot_cache_cleared_refuted), as in the model
                    if info["stalecache"] != info["model_stalecache"]:
                        v = "stalecache: %d frames with a stale stackRoot, the model predicts %d" % (info["stalecache"], info["model_stalecache"])
                    elif info["stalecache"] > 0:
                        st["stalecache_reproduced"] += 1
                if v:
                    violation("", cfg, e, pre, sc, v, io, exe, line, info, "plain"); continue
                st["snapshots_compared"] += len(info["expected"])
                per["ok"] += 1
                chk.cov["traces_validated_against_impl"] += 1
                distinct.add(info["model_line"])
                nontriv = ("S" in sc.split() or pre) or "error" in io or "done" in io
                chk.count(("as", cfg, k2.to_model(e), pre, sc), nontriv)
                if nontriv and cfg == "dbg17":
                    chk.sample({"asyncstack": k2.to_model(e), "script": sc, "program": info["program"][0][:300]}, limit=12)
        # ---------------- under sync_wait (initial_stack_root path), two threads
        for exe, cases, _p in _build(chk, [WAIT_CORPUS], cfg, "wait", "k2asw" + cfg):
            lines, meta = [], []
            for i, e in enumerate(cases):
                for pre, sc in wscripts[k2.to_model(e)]:
                    lines.append("%d %d | %s" % (i, pre, sc)); meta.append((e, pre, sc))
            iout = vlib.run_impl_lines(exe, lines, chunk=400)
            pend = []
            for (e, pre, sc), io, line in zip(meta, iout, lines):
                st["runs"] += 1; per["runs"] += 1; st["sync_wait_runs"] += 1
                t, _ = k2as.tree_of(e, True)
                if io.startswith("CRASH"):
                    violation("crash", cfg, e, pre, sc, "crash: " + io[:300], io, exe, line, None, "wait"); continue
                v, info = k2as.check_run(t, io, True, 2)
                st["observations"] += info.get("observations", 0)
                if v:
                    violation("", cfg, e, pre, sc, v, io, exe, line, info, "wait"); continue
                pend.append((e, pre, sc, io, line, info))
            mout = vlib.model_run([p[5]["model_line"] for p in pend]) if pend else []
            for (e, pre, sc, io, line, info), mo in zip(pend, mout):
                st["model_replays"] += 1
                v = k2as.compare_with_model(info, mo, True)
                if v:
                    violation("", cfg, e, pre, sc, v, io, exe, line, info, "wait"); continue
                st["snapshots_compared"] += len(info["expected"]); per["ok"] += 1
                chk.cov["traces_validated_against_impl"] += 1
                distinct.add(info["model_line"])
                chk.count(("asw", cfg, k2.to_model(e), sc), True)
                if cfg == "dbg17":
                    chk.sample({"asyncstack_sync_wait": k2.to_model(e), "script": sc, "program": [p[:200] for p in info["program"]]}, limit=14)
        # ---------------- C++20: a task<> awaiting the expression (monitors only)
        if cfg.endswith("20"):
            for exe, cases, _p in _build(chk, [TASK_CORPUS], cfg, "task", "k2ast" + cfg):
                lines, meta = [], []
                for i, e in enumerate(cases):
                    for pre, sc in wscripts[k2.to_model(e)]:
                        lines.append("%d %d | %s" % (i, pre, sc)); meta.append((e, pre, sc))
                iout = vlib.run_impl_lines(exe, lines, chunk=400)
                for (e, pre, sc), io, line in zip(meta, iout, lines):
                    st["runs"] += 1; per["runs"] += 1; st["task_runs"] += 1
                    t, _ = k2as.tree_of(e, True)
                    if io.startswith("CRASH"):
                        violation("crash", cfg, e, pre, sc, "crash: " + io[:300], io, exe, line, None, "task"); continue
                    v, info = k2as.check_task_run(t, io)
                    st["observations"] += info.get("observations", 0)
                    if v:
                        violation("", cfg, e, pre, sc, v, io, exe, line, info, "task"); continue
                    per["ok"] += 1
                    chk.count(("ast", cfg, k2.to_model(e), sc), True)
    st["distinct_programs_replayed"] = len(distinct)


def fault_probes_across_configurations(chk):
    """the fault probes of C02 / C04 (k-th connect throws under retry_when / repeat_effect_until; throwing stop-callback
    registration in stop_on_request) built in the four C++17 configurations: which channel completes, and every counter, must be
    identical to the release build's (a throw on a path that is noexcept only in one configuration ends in std::terminate there)"""
    st = chk.cov.setdefault("fault_probes", {"programs": 0, "configurations": 0, "lines_equal": 0})
    for d in ("k3_c02_probe", "k3_c04_probe"):
        base = None
        for cfg in ("plain17", "vis17", "dbg17", "dbgvis17"):
            exe, err = vlib.build_driver(d, cfg)
            if err:
                rp = chk.replay_file("faultprobe_build_%s_%s" % (d, cfg), {"kind": "build-failure", "driver": d, "configuration": cfg, "error": err[-3000:]})
                chk.violation("faultprobe/%s/%s/build" % (d, cfg), rp, no_input=True, text="%s does not compile in configuration %s" % (d, cfg))
                continue
            rc, out = vlib.sh([exe], timeout=120)
            st["configurations"] += 1
            chk.count(("faultprobe", d, cfg), True)
            if cfg == "plain17":
                base = (rc, out)
                st["programs"] += 1
                continue
            if base is not None and (rc, out) == base:
                st["lines_equal"] += len(out.splitlines())
                chk.cov["traces_validated_against_impl"] += 1
                continue
            bl, ol = (base[1].splitlines() if base else []), out.splitlines()
            first = next((i for i in range(max(len(bl), len(ol))) if i >= len(bl) or i >= len(ol) or bl[i] != ol[i]), 0)
            rp = chk.replay_file("faultprobe_%s_%s" % (d, cfg), {"kind": "configuration-differential", "driver": d, "configuration": cfg,
                                 "flags": vlib.CONFIGS[cfg][1], "release": {"rc": base[0] if base else None, "line": bl[first] if first < len(bl) else "<none>"},
                                 "this": {"rc": rc, "line": ol[first] if first < len(ol) else "<none: the program ended>", "tail": out[-600:]},
                                 "replay": exe})
            chk.violation("faultprobe/%s/%s" % (d, cfg), rp,
                          text="%s behaves differently in configuration %s (rc=%s) than in the release build: first difference at probe line %d: %s"
                               % (d, cfg, rc, first + 1, (ol[first] if first < len(ol) else "<program ended>")[:160]))


def run(chk, replay=None):
    chk.cov["rule"] = ("(1) the K2 programs (generated sender expressions x event scripts) compiled in each of the 8 configurations "
                       "{C++17,C++20} x {NDEBUG, debug+async stacks} x {continuation visitation 0,1}; every configuration's trace must equal the "
                       "ONE trace of the Calc model, hence each other; (2) in the 4 debug configurations the same programs (and cases under "
                       "sync_wait / a task<>) print snapshots of the async-stack bookkeeping, replayed on the AsyncStack model; "
                       "non-trivial = has stop/error/done or runs on two threads")
    chk.cov["trusted_base"] = [
        "Coq 8.16.1 kernel; Print Assumptions closed for every theorem of Properties_C20_asyncstack.v",
        "extraction ExtrOcamlBasic; ocaml/handlers/h_asyncstack.ml (reader, snapshot printer, lowest-enabled-thread schedule)",
        "harness/k2as.hpp (snapshot of roots/frames through -fno-access-control), tools/k2as.py (op tree predicted from the expression; "
        "reconstruction of the traced run from consecutive snapshots)",
        "the coroutine path (connect_awaitable, await_transform, task) is monitored, not modelled"]
    chk.prove()
    quick = chk.tier == "quick"
    per = {}
    for cfg in CONFIGS:
        if cfg in DBG or (_ONLY and cfg not in _ONLY):
            continue      # the debug configurations run the same expressions through harness/k2as.hpp below
                          # (k2.hpp leaves its stop source on the stack: ~inplace_stop_source asserts when a script
                          # leaves the operation pending), compared with the same Calc model trace
        lib, err = vlib.build_lib(cfg)
        if err:
            rp = chk.replay_file("config_" + cfg, {"kind": "build-failure", "configuration": cfg, "flags": vlib.CONFIGS[cfg][1],
                                                    "error": err[-3000:], "replay": "g++ %s -c %s/source/async_auto_reset_event.cpp -o /dev/null" % (
                                                        vlib._cxx_flags(cfg), vlib.REPO)})
            hdr = re.findall(r"include/unifex/([\w/]+\.hpp):\d+:\d+: error", err)
            chk.violation("config/%s/library-does-not-compile" % ("visitation-without-async-stacks" if cfg.startswith("vis") else cfg), rp,
                          text="the library does not compile in configuration %s (%s): %s" % (cfg, vlib.CONFIGS[cfg][1], ", ".join(sorted(set(hdr))) or err[-200:]))
            per[cfg] = 0
            continue
        before = chk.cov["traces_validated_against_impl"]
        k2.run_k2(chk, n_tus=2 if quick else 12, cases_per_tu=8, scripts_per_case=12 if quick else 40, cfg=cfg, tag="k2" + cfg)
        per[cfg] = chk.cov["traces_validated_against_impl"] - before
    asyncstack_tie(chk)
    fault_probes_across_configurations(chk)
    # coroutine path under schedule control, assertions + async stacks on: the task stop-request thunk (all schedules with <= 2
    # pre-emptions): an unbalanced root/frame trips the library's own assertions; the trace must equal the SrThunk model's
    import k1
    from units import sr_thunk
    k1.run_unit(chk, sr_thunk.SrThunkDebug())
    for cfg in DBG:
        per[cfg] = chk.cov["asyncstack"]["calc_traces_compared"].get(cfg, 0)
    chk.cov["per_configuration_traces_equal_to_model"] = per
    chk.cov["programs"] = chk.cov.get("k2", {}).get("programs", 0) + chk.cov["asyncstack"]["programs"]
    chk.cov["explanation"] = ("translation validation: 8 build configurations against one model trace (sample: quick = corpus + 16 generated "
                              "expressions x 14 scripts per configuration); async-stack: theorems for all runs + snapshot tie in the 4 debug configurations")
