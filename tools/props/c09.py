"""C09 — a future yields its operation's result or done; shared state freed once."""
import k1
from units import future
LEVEL = "proof"

# The direct monitor of harness/k1_future.cpp starts its verdict with a tag; a failure is
# reported under a key that names the defect instead of the generic '<unit>/<program>/monitor'.
_TAGS = {
    "UAF:": "finding13-abandon-use-after-free",
    "MEMBER:": "finding7-drop-vs-throwing-value-store",
    "EXC:": "finding7-drop-vs-throwing-value-store",
}
_TERMINATE = "finding14-drop-after-abandon-terminates"


class _Keyed:
    """Check proxy: rewrites monitor violation keys from the verdict tag."""
    def __init__(self, chk):
        object.__setattr__(self, "_chk", chk)
    def __getattr__(self, n):
        return getattr(self._chk, n)
    def __setattr__(self, n, v):
        setattr(self._chk, n, v)
    def violation(self, key, replay_path, no_input=False, text=""):
        if key.endswith("/monitor"):
            parts = key.split("/")
            for tag, name in _TAGS.items():
                if text.startswith(tag):
                    key = "spawn_future/%s/%s" % (name, parts[-2])
                    break
            else:
                key = "spawn_future/monitor-%s/%s" % (text.split(":")[0].lower() or "failed", parts[-2])
        elif key.endswith("/deadlock"):
            # the driver's terminate handler logs '!TERMINATE' and parks the thread: the run ends as a
            # 'deadlock' whose trace shows which call of std::terminate() it was
            try:
                import json
                line = json.load(open(replay_path)).get("line", "")
            except Exception:
                line = text
            if "!TERMINATE" in line:
                who = "drop" if "conndrop" in key else "other"
                key = "spawn_future/%s/%s" % (_TERMINATE if who == "drop" else "std-terminate", key.split("/")[-2])
                text = "std::terminate() called (trace ends with !TERMINATE): " + text[:200]
        return self._chk.violation(key, replay_path, no_input=no_input, text=text)


def run(chk, replay=None):
    chk.cov["trusted_base"] = [
        "Coq 8.16.1 kernel (vm_compute conversions re-checked at Qed); no axioms (Print Assumptions closed) for every theorem in Properties_C09.v",
        "extraction ExtrOcamlBasic only; ocaml/lockstep.ml, handlers/h_future.ml glue",
        "harness: verif_shim.hpp + dsched (serialises real threads: sequential consistency assumed), k1_future.cpp "
        "(own leaf sending a tracked value with a throwing move, counting + poisoning allocator passed through the allocator "
        "overload of spawn_future, a scheduler that posts the future's continuation to thread Fut)",
        "modelled not verified: the stop sources are at lock granularity (C03 owns their internals); the scope counter is C08's "
        "(only 'scope word back to 0' is monitored); v1-scope awaited futures are monitored, not tied",
        "spawn faults: harness/k3_spawn_faults.cpp (cfg plain17, sequential; own sender with throwing copy/move/connect, wrapper scope with a "
        "throwing nest, counting + poisoning allocator); SpawnFault is a hand-written sequential model compared per run",
        "model variant tied to the code: tools/units/future.py MODEL_VARIANT = %r" % future.VARIANT]
    chk.cov["rule"] = ("K1: all schedules of each program with <= bound preemptions (truncated at maxruns) plus seeded random ones; "
                       "distinct = distinct projected traces; non-trivial = at least two context switches among owned events")
    chk.cov["model_variant"] = future.VARIANT
    chk.prove()
    k1.run_unit(_Keyed(chk), future.SpawnFuture())
    # faults during spawn (throwing allocation / nest / connect): sequential sweep, direct monitor
    # in harness/k3_spawn_faults.cpp + comparison with the SpawnFault model
    future.run_spawn_faults(chk)
