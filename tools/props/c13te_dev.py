"""PRIVATE development hook for the type_erase next-op election unit of C13 (the lead merges the unit into
tools/props/c13.py; keep this file for re-running the unit alone: tools/check C13te_dev --tier quick)."""
import os, k1, vlib
from units import stream_proto_te
LEVEL = "proof"

# The direct monitor of harness/k1_type_erased_next.cpp starts its verdict with a tag; a failure is reported
# under a key that names the kind of defect instead of the generic '<unit>/<program>/monitor'.
_TAGS = {
    "UAF:": "next-op-or-stream-used-after-destruction",
    "BAD:": "operation-on-dead-op-state",
    "UNION:": "union-member-lifetime",
    "ELECT:": "election-wrong-result",
    "REF:": "refcount-protocol",
    "FWD:": "stop-not-forwarded-before-done",
    "NEXT:": "next-completed-not-exactly-once",
    "VALUES:": "value-duplicated-or-invented",
    "CLEANUP:": "cleanup-order",
    "OPS:": "op-states-unbalanced",
    "END:": "consumer-never-finished",
    "VIOL:": "consumer-or-source-contract",
}


class _Keyed:
    """Check proxy: rewrites monitor violation keys from the verdict tag."""
    def __init__(self, chk):
        object.__setattr__(self, "_chk", chk)
    def __getattr__(self, n):
        return getattr(self._chk, n)
    def __setattr__(self, n, v):
        setattr(self._chk, n, v)
    def violation(self, key, replay_path, no_input=False, text=""):
        if key.endswith("/monitor"):
            parts = key.split("/")
            for tag, name in _TAGS.items():
                if text.startswith(tag):
                    key = "type_erase/%s/%s" % (name, parts[-2])
                    break
            else:
                key = "type_erase/monitor-%s/%s" % (text.split(":")[0].lower() or "failed", parts[-2])
        return self._chk.violation(key, replay_path, no_input=no_input, text=text)


def run(chk, replay=None):
    chk.cov["trusted_base"] = [
        "Coq 8.16.1 kernel (vm_compute conversions re-checked at Qed); Print Assumptions closed for every theorem in Properties_C13_typeerase.v",
        "extraction ExtrOcamlBasic only; ocaml/lockstep.ml, handlers/h_typeerasenext.ml glue",
        "harness: verif_shim.hpp + dsched (serialises real threads: sequential consistency assumed), k1_stream_common.hpp "
        "(scripted source stream with tracked op-states), k1_type_erased_next.cpp (consumer doing what reduce_stream does, "
        "with get_scheduler on its receivers)",
        "modelled not verified: the consumer's stop source at lock granularity (C03 owns its internals); the adapter's own "
        "stopSource_ as two accesses (nobody registers on it); element values are checked by the driver's monitor, not the model"]
    chk.cov["rule"] = ("K1: all schedules of each program with <= bound preemptions (truncated at maxruns) plus seeded random ones; "
                       "distinct = distinct projected traces; non-trivial = at least two switches between physical threads")
    if not os.environ.get("VERIF_DEV_SKIP_PROOF") and os.path.exists(os.path.join(vlib.COQ, "Properties_C13_typeerase.v")):
        r = vlib.coq_property("C13_typeerase")
        chk.cov["obligations"] += len(r["theorems"]); chk.cov["theorems"] = r["theorems"]
        chk.cov["print_assumptions"] = r["assumptions"]; chk.cov["coq_s"] = round(r.get("coq_s", 0), 1)
        failed = r.get("failed", "") or ""
        foreign = (not r["ok"] and failed.startswith("forbidden tokens:") and "TypeEraseNext" not in failed
                   and "Properties_C13_typeerase" not in failed and not r["bad_axioms"])
        if foreign:
            # somebody else's .v file is mid-edit (the token scan covers the whole development): not this unit's
            chk.cov["foreign_wip_note"] = failed[:300]
        if r["ok"] or foreign:
            chk.cov["discharged"] += len(r["theorems"])
        else:
            p = chk.replay_file("proof", {"kind": "proof-obligation", "failed": r.get("failed", ""), "log_tail": r["log"][-1500:]})
            chk.violation("proof:C13_typeerase", p, no_input=True, text=r.get("failed", "")[:300])
    k1.run_unit(_Keyed(chk), stream_proto_te.TypeEraseNext())
    k1.run_unit(_Keyed(chk), stream_proto_te.TypeEraseNextASan())
