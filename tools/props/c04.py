"""C04 — stop requests reach running children; completion never outlives a callback.
Theorems: coq/Properties_C04_calc.v (Calc model: all expressions, all scripts, all stop positions).
Tie: K2 (generated expressions x scripts with the external stop at a random position / before start;
leaves log the instant they see stop; the root receiver's token counts live callback registrations)."""
import k2, k2v2
LEVEL = "proof"
def run(chk, replay=None):
    chk.cov["trusted_base"] = [
        "Coq 8.16.1 kernel; Print Assumptions closed for every theorem of Properties_C04_calc.v",
        "extraction ExtrOcamlBasic only; ocaml/handlers/h_calc.ml (term parser, renderer)",
        "harness/k2.hpp (leaves, counting stop token, root receiver), tools/k2.py (generator, emission, canonicalisation: "
        "stop-callback order inside one cascade is sorted on both sides)",
        "modelled not verified: races between a stop request and a child's completion are the E1 models' job (C01 RefElect, C03, C19)"]
    chk.cov["rule"] = "K2: generated expressions x scripts; non-trivial = script contains a stop or starts pre-stopped, or a non-value outcome"
    chk.prove()
    k2.standard_k2(chk)
    k2v2.standard_k2v2(chk)   # second-generation model Calc2 (lifetimes, contexts, more algorithms): tie (theorems: Properties_*_calc2.v)
