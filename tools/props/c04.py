"""C04 — stop requests reach running children; completion never outlives a callback.
Theorems: coq/Properties_C04_calc.v (Calc model: all expressions, all scripts, all stop positions).
Tie: K2 (generated expressions x scripts with the external stop at a random position / before start;
leaves log the instant they see stop; the root receiver's token counts live callback registrations)."""
import re
import k2, k2v2, vlib
LEVEL = "proof"
def run(chk, replay=None):
    chk.cov["trusted_base"] = [
        "Coq 8.16.1 kernel; Print Assumptions closed for every theorem of Properties_C04_calc.v",
        "extraction ExtrOcamlBasic only; ocaml/handlers/h_calc.ml (term parser, renderer)",
        "harness/k2.hpp (leaves, counting stop token, root receiver), tools/k2.py (generator, emission, canonicalisation: "
        "stop-callback order inside one cascade is sorted on both sides)",
        "modelled not verified: races between a stop request and a child's completion are the E1 models' job (C01 RefElect, C03, C19)"]
    chk.cov["rule"] = "K2: generated expressions x scripts; non-trivial = script contains a stop or starts pre-stopped, or a non-value outcome"
    chk.prove()
    import k1; from units import when_all
    for U in when_all.REGELECT_UNITS: k1.run_unit(chk, U())   # when_all_range / stop_when: callback deregistered before completion, stop forwarded, no late touch (RegElect model)
    fault_probe(chk)
    k2.standard_k2(chk)
    k2v2.standard_k2v2(chk)   # second-generation model Calc2 (lifetimes, contexts, more algorithms): tie (theorems: Properties_*_calc2.v)


EXPECT = {"sor_prestopped_then_throw": "d", "lvst_stop_while_running_d": "d", "lvst_stop_while_running_v": "v", "lvst_prestopped_d": "d",
          "lvstw_stop_while_running_d": "d", "lvstw_stop_while_running_v": "v", "lvstw_prestopped_d": "d",
          "lvst_nostop_v": "v", "lvstw_nostop_v": "v", "lvstw_nostop_d": "d"}    # every other probe: a registration threw with nothing stopped -> set_error

def fault_probe(chk):
    """harness/k3_c04_probe.cpp: stop-callback hygiene on fault paths (throwing callback registration in stop_on_request):
    the clause 'deregistered before the receiver is completed' evaluated directly on the real code."""
    exe, err = vlib.build_driver("k3_c04_probe", "plain17")
    if err:
        p = chk.replay_file("c04probe_build", {"kind": "build-failure", "error": err[-3000:]})
        chk.violation("c04probe/build", p, no_input=True, text="k3_c04_probe does not compile against /repo")
        return
    rc, out = vlib.sh([exe], timeout=120)
    n = 0
    found = False
    for l in out.splitlines():
        m = re.match(r"(\S+) completion=(.) live_rcv=(-?\d+) live_ext=(-?\d+) after=(-?\d+)", l)
        if not m:
            continue
        n += 1
        name, comp, lr, le, af = m.group(1), m.group(2), int(m.group(3)), int(m.group(4)), int(m.group(5))
        chk.count("c04probe:" + name, True)
        why = None
        if comp != EXPECT.get(name, "e"):
            why = "completed with %s, documented %s" % (comp, EXPECT.get(name, "e"))
        elif lr != 0:
            why = "%d stop callback(s) still registered on the receiver's token when the receiver was completed" % lr
        elif le != 0:
            why = "%d external stop callback(s) still alive when the receiver was completed" % le
        elif af != 0:
            why = "%d registration(s) left on the receiver's source after completion" % af
        elif name.startswith("lvst") and " seen=1 early=0" not in l:
            why = "the stop request on the receiver's token was not visible (or visible too early) through the token let_value_with_stop_token handed out"
        if why:
            p = chk.replay_file("c04probe_" + name, {"kind": "fault-probe", "probe": name, "line": l, "why": why, "replay": exe + " | grep " + name})
            chk.violation("c04probe/%s" % name, p, text="%s: %s" % (name, why))
            found = True
        else:
            chk.cov["traces_validated_against_impl"] += 1
    if (rc != 0 or "END" not in out or n < 16) and not found:   # the program stops at the first probe that leaves a registration behind
        p = chk.replay_file("c04probe_run", {"kind": "probe-crash", "rc": rc, "out": out[-2000:], "replay": exe})
        chk.violation("c04probe/crash", p, text="fault probe program failed rc=%d after %d probes" % (rc, n))
    chk.cov["fault_probes"] = n
