"""C03 — stop-token protocol: callbacks run exactly once and never after deregistration."""
import k1
from units import stop_source
LEVEL = "proof"
def run(chk, replay=None):
    chk.cov["trusted_base"] = [
        "Coq 8.16.1 kernel; no axioms (Print Assumptions closed) for every theorem in Properties_C03.v",
        "extraction ExtrOcamlBasic only; ocaml/lockstep.ml, handlers/h_stopsource.ml glue (parsing, rendering)",
        "harness: verif_shim.hpp + dsched (serialises real threads: sequential consistency assumed; memory orders "
        "are compared syntactically, equal-or-stronger, not given a weak-memory semantics), k1_stopsource.cpp",
        "lock granularity: the state_ byte is compared as Acq/Rel/Obs (tools/units/stop_source.py project()); plain "
        "field updates inside a critical section are folded into its Rel step",
        "client discipline (a callback id is registered at most once, destroyed at most once and only after its "
        "constructor returned) is part of the model: violating instructions block",
        "fused_stop_source / inplace_stop_token_adapter: not a separate model; each of the two sources is compared "
        "with the single-source model on its own projection (upstream: the forwarding callback is a callback with "
        "an empty body; inner: each forwarded request_stop is an IReqStop of the thread that ran the forwarder, "
        "resolved after the fact from the recorded run); the composition argument itself is informal"]
    chk.cov["rule"] = ("K1: all schedules of each program with <= bound preemptions plus seeded random ones; "
                       "distinct = distinct projected traces; non-trivial = at least two context switches among owned events")
    chk.prove()
    k1.run_unit(chk, stop_source.StopSource())
    for mode in ("fused", "adapter", "adapter_dm"):
        k1.run_unit(chk, stop_source.TwoSourceInner(mode))
        k1.run_unit(chk, stop_source.TwoSourceUp(mode))
