"""C14 — I/O contexts complete each operation once with the true result; no stale state."""
import json
import k1
from units import io
LEVEL = "proof"

# The direct monitors of harness/k1_epoll_io.cpp / k1_uring_io.cpp start their verdict with a tag that
# names the defect class; a failure is reported under a key that names the defect instead of one key
# per program ('<unit>/<program>/monitor').
_TAGS = {
    "STALE-REG": "finding6-stale-epoll-registration",
    "LOST-ERR": "finding8-failed-syscall-never-completes",
    "WRONG-ERRNO": "finding8-failed-syscall-wrong-errno",
    "LATE-ACCESS": "finding15-stop-callback-written-after-done",
    "DOUBLE-REG": "finding10-stop-callback-registered-twice",
}


class _Keyed:
    """Check proxy: rewrites monitor violation keys from the verdict tag."""
    def __init__(self, chk, ctx):
        object.__setattr__(self, "_chk", chk)
        object.__setattr__(self, "_ctx", ctx)
    def __getattr__(self, n):
        return getattr(self._chk, n)
    def __setattr__(self, n, v):
        setattr(self._chk, n, v)
    def violation(self, key, replay_path, no_input=False, text=""):
        if key.endswith("/monitor"):
            tag = text.split(":")[0]
            prog = key.split("/")[-2]
            if tag in _TAGS:
                key = "%s/%s" % (self._ctx, _TAGS[tag])
                text = "[%s] %s" % (prog, text)
                try:
                    j = json.load(open(replay_path))
                    text += "\n  replay: " + j.get("replay", "")
                except Exception:
                    pass
            else:
                key = "%s/monitor-%s/%s" % (self._ctx, (tag or "failed").lower(), prog)
        return self._chk.violation(key, replay_path, no_input=no_input, text=text)


def run(chk, replay=None):
    chk.cov["trusted_base"] = [
        "Coq 8.16.1 kernel (vm_compute conversions re-checked at Qed); no axioms (Print Assumptions closed) for every theorem in Properties_C14_*.v",
        "extraction ExtrOcamlBasic only; ocaml/lockstep.ml, handlers/h_remotequeue.ml, h_iocancel.ml glue",
        "harness: verif_shim.hpp + dsched (serialises real threads: sequential consistency assumed); c14_sys.hpp "
        "(pass-through wrappers of epoll_wait/epoll_ctl/readv/writev/read/write: yield point + action; a blocking epoll_wait "
        "becomes yield-and-poll; a dangling completion pointer returned by epoll_wait is reported and withheld from the library); "
        "the drivers compile a private copy of io_epoll_context.cpp with these wrappers (the archive's copy is not linked)",
        "PARTIAL - assumed, not verified: the kernel behaves as modelled (epoll registrations per descriptor, level-triggered "
        "readiness, eventfd counter semantics, readv/writev results, pipe capacity); the models' kernel state is compared with the "
        "real kernel only through the logged syscall results and /proc/self/fdinfo at each completion",
        "io_uring_context: the model UringOp (Properties_C14_uring.v) is tied to the real code ONLY through the direct monitors of "
        "harness/k1_uring_io.cpp on real threads and the real ring (no lock-step replay: the context's thread sleeps in io_uring_enter "
        "and the kernel completes entries asynchronously); each *_refuted witness has its real-thread case (resubmit / prestop / stoprace)",
        "modelled not verified here: the stop source internals (C03) - one linearisation point per registration / request_stop / "
        "deregistration; the atomic_intrusive_queue at link level (C06 AtomicQueue); timers of the I/O contexts (C07's models)",
        "FdOwner (Properties_C14_fd.v): K3, harness/k3_fdowner.cpp runs generated operation sequences on the real "
        "safe_file_descriptor / mmap_region with the process' close()/munmap() interposed; the kernel's lowest-free-number rule is assumed",
        "model variant tied to the code: tools/units/io.py MODEL_VARIANT = %r" % io.VARIANT]
    chk.cov["rule"] = ("K1: all schedules of each program with <= bound preemptions (truncated at maxruns) plus seeded random ones; "
                       "distinct = distinct projected traces; non-trivial = at least two context switches among owned events")
    chk.cov["model_variant"] = io.VARIANT
    chk.prove()
    k1.run_unit(_Keyed(chk, "io_epoll"), io.EpollRemoteQueue())
    k1.run_unit(_Keyed(chk, "io_epoll"), io.EpollIoCancel(0))
    k1.run_unit(_Keyed(chk, "io_epoll"), io.EpollIoCancel(1))
    for u in io.extra_units():
        k1.run_unit(_Keyed(chk, u.ctx), u)
    io.run_uring(chk)
    io.run_fdowner(chk)
