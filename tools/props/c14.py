"""C14 — I/O contexts complete each operation once with the true result; no stale state."""
import k1
from units import io
LEVEL = "partial"


def run(chk, replay=None):
    chk.prove()
    k1.run_unit(chk, io.EpollRemoteQueue())
    k1.run_unit(chk, io.EpollIoCancel(0))
    k1.run_unit(chk, io.EpollIoCancel(1))
