"""C06 — schedulers run every scheduled item once, on their own context, losing none.
Unit 1 (K1): manual_event_loop / single_thread_context vs Proto/EventLoopDefs.v.
Unit 2 (K3): trampoline_scheduler vs Proto/TrampolineDefs.v (sequential: differential on programs).
Unit 3 (K1): atomic_intrusive_queue vs Proto/AtomicQueueDefs.v.
Unit 4 (K1): static_thread_pool vs Proto/ThreadPoolDefs.v.
Unit 5 (K1): new_thread_context vs Proto/NewThreadDefs.v."""
import re
import k1, vlib
from units import sched
LEVEL = "proof"

# ------------------------------------------------------------------------------- trampoline (K3)
def gen_tree(rng, size, stop_p=0.15):
    """random tree with `size` nodes as a parenthesised string; '!' = stop already requested"""
    # random parent for each node (preorder-compatible: parent index < child index)
    kids = {0: []}
    for i in range(1, size):
        shape = rng.random()
        if shape < 0.35:
            p = i - 1                      # chain: deep recursion
        elif shape < 0.55:
            p = 0                          # fan
        else:
            p = rng.randrange(0, i)
        kids.setdefault(p, []).append(i); kids.setdefault(i, [])
    def emit(n):
        return "(" + ("!" if rng.random() < stop_p else "") + "".join(emit(c) for c in kids[n]) + ")"
    import sys
    sys.setrecursionlimit(10000)
    return emit(0)

def tramp_cases(chk):
    rng = chk.rng
    thorough = chk.tier == "thorough"
    cases = []
    fixed = ["()", "(!)", "(())", "(()())", "((()))", "(()()())", "((()())(!))", "(()(()))",
             "(" * 20 + ")" * 20, "(" + "()" * 20 + ")", "((" + "()" * 5 + ")" * 2, "(" + "(())" * 6 + ")"]
    for t in fixed:
        for d in (0, 1, 2, 3, 4, 16):
            cases.append((d, t))
    n = 3000 if thorough else 500
    for _ in range(n):
        size = rng.randrange(1, 120 if thorough else 48)
        d = rng.choice([0, 1, 1, 2, 2, 3, 3, 4, 5, 8, 16])
        cases.append((d, gen_tree(rng, size)))
    return cases

def tramp_monitor(d, tree, out):
    """the property itself on an implementation output line"""
    m = re.match(r"^(\S*) max=(\d+) returned_after=(\d+)/(\d+) cleared=(\d)$", out)
    if not m:
        return "unparsable/crash: " + out[:160]
    ents = [e.split(":") for e in m.group(1).split(",") if e]
    total = int(m.group(4))
    labels = [int(e[0]) for e in ents]
    if sorted(labels) != list(range(total)):
        return "not every operation completed exactly once: %r" % labels[:40]
    if int(m.group(3)) != total:
        return "outermost start() returned after %s of %d completions" % (m.group(3), total)
    if m.group(5) != "1":
        return "trampoline state not cleared when the outermost start() returned"
    bound = max(d, 1)
    for l, k, nest, depth in ents:
        if int(nest) > bound:
            return "operation %s ran at nesting %s > configured depth %d" % (l, nest, d)
        if int(nest) > int(depth) or int(depth) > bound:
            return "operation %s: nesting %s, recursionDepth_ %s, configured %d" % (l, nest, depth, d)
    # done exactly for the operations whose token was stopped (preorder position of '!')
    stopped = set(); idx = -1
    for ch in tree:
        if ch == "(":
            idx += 1
        elif ch == "!":
            stopped.add(idx)
    for l, k, nest, depth in ents:
        if (int(l) in stopped) != (k == "d"):
            return "operation %s completed with %s, stop requested=%s" % (l, k, int(l) in stopped)
    return ""

def run_trampoline(chk):
    exe, err = vlib.build_driver("k3_trampoline", "plain17")
    if err:
        p = chk.replay_file("build_k3_trampoline", {"kind": "build-failure", "error": err})
        chk.violation("trampoline/build", p, no_input=True, text="k3_trampoline no longer compiles against /repo")
        return
    cases = tramp_cases(chk)
    lines = ["tramp %d %s" % c for c in cases]
    mout = vlib.model_run(lines)
    iout = vlib.run_impl_lines(exe, lines)
    st = chk.cov.setdefault("k3_trampoline", {"cases": 0, "agree": 0, "max_size": 0, "cases_with_deferred_ops": 0})
    for (d, tree), line, mo, io in zip(cases, lines, mout, iout):
        st["cases"] += 1
        size = tree.count("(")
        st["max_size"] = max(st["max_size"], size)
        # an operation other than the root ran at nesting 1: it was deferred and run from drain()
        if any(e.split(":")[2] == "1" for e in io.split(" ")[0].split(",")[1:] if e.count(":") == 3):
            st["cases_with_deferred_ops"] += 1
        nontrivial = size >= 3
        chk.count(line, nontrivial)
        why = tramp_monitor(d, tree, io)
        if io == mo and not why:
            st["agree"] += 1
            chk.cov["traces_validated_against_impl"] += 1
            if nontrivial and size <= 12:
                chk.sample({"unit": "trampoline", "impl_line": line, "impl": io[:200], "model": mo[:200]})
            continue
        chk.cov["disagreements_checked"] += 1
        rp = chk.replay_file("trampoline_%d_%s" % (d, tree[:30]),
                             {"kind": "trampoline", "line": line, "model": mo, "impl": io, "monitor": why,
                              "obligation": "K3 correspondence TrampolineDefs.v vs trampoline_scheduler.hpp/.cpp",
                              "replay": "echo '%s' | %s" % (line, exe)})
        chk.violation("trampoline/%s" % ("monitor" if why else "corr"), rp, no_input=not why,
                      text="%s: impl=%s model=%s %s" % (line[:80], io[:100], mo[:100], why))

def run(chk, replay=None):
    chk.cov["trusted_base"] = [
        "Coq 8.16.1 kernel; no axioms (Print Assumptions closed) for every theorem in Properties_C06_*.v",
        "extraction ExtrOcamlBasic only; ocaml/lockstep.ml, handlers/h_eventloop.ml, h_trampoline.ml, h_atomicqueue.ml, h_threadpool.ml, h_newthread.ml glue",
        "harness: verif_shim.hpp + dsched (serialises real threads: sequential consistency assumed; mutex/condvar/thread are the shim's), "
        "k1_event_loop.cpp, k1_atomic_queue.cpp, k1_thread_pool.cpp, k1_new_thread.cpp; k3_trampoline.cpp (plain build, no shim)",
        "modelled not verified: inplace_stop_source internals (C03's model) — only the stop bit of each item's source is owned here",
        "modelling choices: one thread runs manual_event_loop::run(); compare_exchange_weak has no spurious failures (the shim maps it to strong); "
        "new_thread_context: the std::thread constructor is folded into the fetch_add that follows it and 'thread exited' is the derived "
        "notion 'this and all earlier retirees are past retire_thread's unlock' (the join chain); enqueue after request_stop()/stop() is a documented non-guarantee (items may stay queued)"]
    chk.cov["rule"] = ("K1: all schedules of each program with <= bound preemptions plus seeded random ones; "
                       "distinct = distinct projected traces; non-trivial = at least two context switches among owned events. "
                       "K3 (trampoline): cases = (depth, tree); non-trivial = tree with >= 3 operations; distinct by input line")
    chk.prove()
    k1.run_unit(chk, sched.EventLoop())
    run_trampoline(chk)
    k1.run_unit(chk, sched.AtomicQueue())
    k1.run_unit(chk, sched.ThreadPool())
    k1.run_unit(chk, sched.NewThread())
