"""C06 — schedulers run every scheduled item once, on their own context, losing none."""
import k1
from units import sched
LEVEL = "proof"
def run(chk, replay=None):
    chk.cov["trusted_base"] = [
        "Coq 8.16.1 kernel; no axioms (Print Assumptions closed) for every theorem in Properties_C06_*.v",
        "extraction ExtrOcamlBasic only; ocaml/lockstep.ml, handlers/h_eventloop.ml glue",
        "harness: verif_shim.hpp + dsched (serialises real threads: sequential consistency assumed; mutex/condvar/thread are the shim's), k1_event_loop.cpp"]
    chk.cov["rule"] = ("K1: all schedules of each program with <= bound preemptions plus seeded random ones; "
                       "distinct = distinct projected traces; non-trivial = at least two context switches among owned events")
    chk.prove()
    k1.run_unit(chk, sched.EventLoop())
