"""C11 — static sender traits are sound (blocking / sends_done), compared with the real headers.
Theorems: coq/Properties_C11_calc.v; tie: compile-time sender_traits<S> and run-time blocking(s) of every
generated expression against the Gallina mirrors (tools/k2traits.py), behaviour monitors in thorough tier."""
import re
import k2, k2traits, k2v2, vlib
LEVEL = "proof"
def run(chk, replay=None):
    chk.cov["trusted_base"] = [
        "Coq 8.16.1 kernel; Print Assumptions closed for every theorem of Properties_C11_calc.v",
        "extraction ExtrOcamlBasic only; ocaml/handlers/h_calc_traits.ml, h_calc.ml",
        "harness/k2.hpp (traits_of prints sender_traits<S> and blocking(s)), tools/k2traits.py",
        "NOT modelled: execution contexts (via/on/affinity soundness, task scheduler affinity) - affinity is mirrored and compared only"]
    chk.cov["rule"] = "generated expressions: the three compile-time traits and run-time blocking() compared with the mirrors; non-trivial = distinct expression"
    chk.prove()
    probe_traits(chk)
    k2traits.run_traits(chk, 4 if chk.tier == "quick" else 20, 15, monitor=(chk.tier != "quick"))
    k2.standard_k2(chk)
    k2v2.standard_k2v2(chk)   # second-generation model Calc2 (lifetimes, contexts, more algorithms): tie (theorems: Properties_*_calc2.v)
    from units import traits_multi; traits_multi.run(chk)


def probe_traits(chk):
    """hand-written expressions outside the Calc grammar (dematerialize, retry_when, via/on, ...): the property's static-trait
    clauses evaluated directly on one real run each (harness/k3_traits_probe.cpp)"""
    exe, err = vlib.build_driver("k3_traits_probe", "plain17")
    if err:
        p = chk.replay_file("probe_build", {"kind": "build-failure", "error": err[-3000:]})
        chk.violation("traits_probe/build", p, no_input=True, text="k3_traits_probe does not compile against /repo")
        return
    rc, out = vlib.sh([exe], timeout=120)
    n = 0
    for l in out.splitlines():
        m = re.match(r"(\S+) blocking=(\d) sends_done=(\d) rt_blocking=(\d) outcome=(.) inline=(\d)", l)
        if not m:
            continue
        n += 1
        name, bl, sd, rt, oc, inl = m.group(1), int(m.group(2)), int(m.group(3)), int(m.group(4)), m.group(5), int(m.group(6))
        chk.count("probe:" + name, oc != "v")
        why = None
        if sd == 0 and oc == "d":
            why = "declares sends_done=false but completed with done"
        elif bl in (0, 1) and inl != 1:
            why = "declares blocking always(_inline) but did not complete inside start()"
        elif bl == 3 and inl == 1:
            why = "declares blocking never but completed inside start()"
        elif rt != bl and bl != 2:
            why = "run-time blocking() %d differs from the static %d" % (rt, bl)
        if why:
            p = chk.replay_file("probe_" + name, {"kind": "trait-probe", "probe": name, "line": l, "why": why,
                                                  "replay": exe + " | grep " + name})
            chk.violation("traits_probe/%s" % name, p, text="%s: %s (%s)" % (name, why, l))
        else:
            chk.cov["traces_validated_against_impl"] += 1
    if rc != 0 or n < 20:
        p = chk.replay_file("probe_run", {"kind": "probe-crash", "rc": rc, "out": out[-2000:]})
        chk.violation("traits_probe/crash", p, text="trait probe program failed rc=%d after %d probes" % (rc, n))
    chk.cov["trait_probes"] = n
