"""C11 — static sender traits are sound (blocking / sends_done), compared with the real headers.
Theorems: coq/Properties_C11_calc.v; tie: compile-time sender_traits<S> and run-time blocking(s) of every
generated expression against the Gallina mirrors (tools/k2traits.py), behaviour monitors in thorough tier."""
import k2, k2traits, k2v2
LEVEL = "proof"
def run(chk, replay=None):
    chk.cov["trusted_base"] = [
        "Coq 8.16.1 kernel; Print Assumptions closed for every theorem of Properties_C11_calc.v",
        "extraction ExtrOcamlBasic only; ocaml/handlers/h_calc_traits.ml, h_calc.ml",
        "harness/k2.hpp (traits_of prints sender_traits<S> and blocking(s)), tools/k2traits.py",
        "NOT modelled: execution contexts (via/on/affinity soundness, task scheduler affinity) - affinity is mirrored and compared only"]
    chk.cov["rule"] = "generated expressions: the three compile-time traits and run-time blocking() compared with the mirrors; non-trivial = distinct expression"
    chk.prove()
    k2traits.run_traits(chk, 4 if chk.tier == "quick" else 20, 15, monitor=(chk.tier != "quick"))
    k2.standard_k2(chk)
    k2v2.standard_k2v2(chk)   # second-generation model Calc2 (lifetimes, contexts, more algorithms): tie (theorems: Properties_*_calc2.v)
