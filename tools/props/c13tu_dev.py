"""PRIVATE development hook for the take_until unit of C13 (tools/props/c13.py carries the unit once merged).
Proves coq/Properties_C13_takeuntil.v and runs the K1 tie of tools/units/stream_proto_tu.py."""
import os, k1, vlib
from units import stream_proto_tu
LEVEL = "proof"

# The direct monitor of harness/k1_take_until.cpp starts its verdict with a tag; a failure is reported
# under a key that names the defect instead of the generic '<unit>/<program>/monitor'.
_TAGS = {
    "F2-DTOR:": "finding2-trigger-cleanup-destroys-sourceOp",
    "UAF:": "use-after-stream-destroyed",
}


class _Keyed:
    """Check proxy: rewrites monitor violation keys from the verdict tag."""
    def __init__(self, chk):
        object.__setattr__(self, "_chk", chk)
    def __getattr__(self, n):
        return getattr(self._chk, n)
    def __setattr__(self, n, v):
        setattr(self._chk, n, v)
    def violation(self, key, replay_path, no_input=False, text=""):
        if key.startswith("take_until/") and key.endswith("/monitor"):
            parts = key.split("/")
            for tag, name in _TAGS.items():
                if text.startswith(tag):
                    key = "take_until/%s/%s" % (name, parts[-2])
                    break
            else:
                key = "take_until/monitor-%s/%s" % (text.split(":")[0].lower() or "failed", parts[-2])
        return self._chk.violation(key, replay_path, no_input=no_input, text=text)


def run(chk, replay=None):
    chk.cov["trusted_base"] = [
        "Coq 8.16.1 kernel (vm_compute conversions re-checked at Qed); no axioms (Print Assumptions closed) for every theorem in Properties_C13_takeuntil.v",
        "extraction ExtrOcamlBasic only; ocaml/lockstep.ml, handlers/h_takeuntil.ml glue",
        "harness: verif_shim.hpp + dsched (serialises real threads: sequential consistency assumed), k1_stream_common.hpp "
        "(scripted source / trigger streams with tracked op-states, the reduce_stream-like consumer), k1_take_until.cpp",
        "modelled not verified: both stop sources at lock granularity (C03 owns their internals); the scripted sources register "
        "no stop callback on take_until's internal stop source and ignore stop requests; element values are abstracted to kinds",
        "model variant tied to the code: tools/units/stream_proto_tu.py MODEL_VARIANT = %r" % stream_proto_tu.VARIANT]
    chk.cov["rule"] = ("K1: all schedules of each program with <= bound preemptions (truncated at maxruns) plus seeded random ones; "
                       "distinct = distinct projected traces; non-trivial = at least two context switches among owned events")
    chk.cov["model_variant"] = stream_proto_tu.VARIANT
    if not os.environ.get("VERIF_DEV_SKIP_PROOF") and os.path.exists(os.path.join(vlib.COQ, "Properties_C13_takeuntil.v")):
        r = vlib.coq_property("C13_takeuntil")
        chk.cov["obligations"] += len(r["theorems"]); chk.cov["theorems"] = r["theorems"]
        chk.cov["print_assumptions"] = r["assumptions"]; chk.cov["coq_s"] = round(r.get("coq_s", 0), 1)
        chk.cov["checker_cmd"] = r["checker_cmd"]
        if r["ok"]:
            chk.cov["discharged"] += len(r["theorems"])
        else:
            p = chk.replay_file("proof", {"kind": "proof-obligation", "failed": r.get("failed", ""), "log_tail": r["log"][-1500:]})
            chk.violation("proof:C13_takeuntil", p, no_input=True, text=r.get("failed", "")[:300])
    k1.run_unit(_Keyed(chk), stream_proto_tu.TakeUntil())
    if chk.tier != "quick":      # (run_unit builds the driver even for an empty program list)
        k1.run_unit(_Keyed(chk), stream_proto_tu.TakeUntilASan())
