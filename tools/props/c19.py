"""C19 — completion vs cancellation races have one winner in the cancel wrappers."""
import k1
from units import cancel
LEVEL = "proof"
def run(chk, replay=None):
    chk.cov["trusted_base"] = [
        "Coq 8.16.1 kernel; no axioms (Print Assumptions closed) for every theorem in Properties_C19_*.v",
        "Cancellable: proofs by reflection on a complete reachable-set invariant (closure re-checked by the kernel with vm_compute) for each of the 12 parameter values",
        "extraction ExtrOcamlBasic only; ocaml/lockstep.ml, handlers/h_cancellable.ml, h_detach.ml, h_stoponrequest.ml glue",
        "harness: verif_shim.hpp + dsched (serialises real threads: sequential consistency assumed), vh.hpp root receiver, k1_cancellable.cpp / k1_detach.cpp / k1_stop_on_request.cpp scriptable nested operations",
        "modelled not verified: inplace_stop_source internals are C03's model; here the source is abstracted at its linearisation points (REG / SET / DEREG / callbackCompleted_ store and wait)",
        "cancellable: the nested operation is the harness's (arbitration on a slot outside the operation, like every real client); the model variant (as-is / start_done repair) is selected by a syntactic probe of cancellable.hpp and then validated by the lock-step tie"]
    chk.cov["rule"] = ("K1: all schedules of each program with <= bound preemptions plus seeded random ones; "
                       "distinct = distinct projected traces; non-trivial = at least two context switches among owned events")
    chk.prove()
    tchk = cancel.TaggedChk(chk)
    for u in cancel.units(chk.tier):
        k1.run_unit(tchk, u)
