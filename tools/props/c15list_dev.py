"""PRIVATE development hook for the atomic_intrusive_list unit of C15 (delete when c15.py carries it)."""
import os, k1, vlib
from units import atomic_list
LEVEL = "proof"

class _Keyed:
    """One specific key for every manifestation of the known defect (try_lock_checking touches the
    link word of a node that was handed back meanwhile)."""
    def __init__(self, chk):
        self.__dict__["_c"] = chk
    def __getattr__(self, n):
        return getattr(self._c, n)
    def __setattr__(self, n, v):
        setattr(self._c, n, v)
    def violation(self, key, replay_path, no_input=False, text=""):
        if key.endswith("/monitor") and "touched after it was handed back" in text:
            m = __import__("re").search(r"(rest|self) ([CLS])\.", text)
            key = "atomic_list/touched-after-hand-back/%s:%s" % (m.group(1), m.group(2)) if m else "atomic_list/touched-after-hand-back"
        return self._c.violation(key, replay_path, no_input, text)

def run(chk, replay=None):
    chk.cov["rule"] = "K1: schedules with <= bound preemptions + seeded random; distinct = distinct projected traces"
    if not os.environ.get("VERIF_DEV_SKIP_PROOF") and os.path.exists(os.path.join(vlib.COQ, "Properties_C15_list.v")):
        r = vlib.coq_property("C15_list")
        chk.cov["obligations"] += len(r["theorems"]); chk.cov["theorems"] = r["theorems"]
        chk.cov["print_assumptions"] = r["assumptions"]; chk.cov["coq_s"] = round(r.get("coq_s", 0), 1)
        if r["ok"]:
            chk.cov["discharged"] += len(r["theorems"])
        else:
            p = chk.replay_file("proof", {"kind": "proof-obligation", "failed": r.get("failed", ""), "log_tail": r["log"][-1500:]})
            chk.violation("proof:C15_list", p, no_input=True, text=r.get("failed", "")[:300])
    k1.run_unit(_Keyed(chk), atomic_list.AtomicList())
