"""PRIVATE development hook for the atomic_intrusive_list unit of C15 (delete when c15.py carries it)."""
import os, k1, vlib
from units import atomic_list
LEVEL = "proof"

def run(chk, replay=None):
    chk.cov["rule"] = "K1: schedules with <= bound preemptions + seeded random; distinct = distinct projected traces"
    if not os.environ.get("VERIF_DEV_SKIP_PROOF") and os.path.exists(os.path.join(vlib.COQ, "Properties_C15_list.v")):
        r = vlib.coq_property("C15_list")
        chk.cov["obligations"] += len(r["theorems"]); chk.cov["theorems"] = r["theorems"]
        chk.cov["print_assumptions"] = r["assumptions"]; chk.cov["coq_s"] = round(r.get("coq_s", 0), 1)
        if r["ok"]:
            chk.cov["discharged"] += len(r["theorems"])
        else:
            p = chk.replay_file("proof", {"kind": "proof-obligation", "failed": r.get("failed", ""), "log_tail": r["log"][-1500:]})
            chk.violation("proof:C15_list", p, no_input=True, text=r.get("failed", "")[:300])
    k1.run_unit(atomic_list.Keyed(chk), atomic_list.AtomicList())
