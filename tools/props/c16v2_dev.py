"""PRIVATE development hook for the v2 manual-reset event half of C16 (delete when c16.py carries the unit)."""
import os, k1, vlib
from units import event_v2
LEVEL = "proof"
def run(chk, replay=None):
    chk.cov["rule"] = "K1: schedules with <= bound preemptions + seeded random; distinct = distinct projected traces"
    if not os.environ.get("VERIF_DEV_SKIP_PROOF") and os.path.exists(os.path.join(vlib.COQ, "Properties_C16_eventv2.v")):
        r = vlib.coq_property("C16_eventv2")
        chk.cov["obligations"] += len(r["theorems"]); chk.cov["theorems"] = r["theorems"]
        chk.cov["print_assumptions"] = r["assumptions"]; chk.cov["coq_s"] = round(r.get("coq_s", 0), 1)
        if r["ok"]:
            chk.cov["discharged"] += len(r["theorems"])
        else:
            p = chk.replay_file("proof", {"kind": "proof-obligation", "failed": r.get("failed", ""), "log_tail": r["log"][-1500:]})
            chk.violation("proof:C16_eventv2", p, no_input=True, text=r.get("failed", "")[:300])
    k1.run_unit(chk, event_v2.EventV2())
