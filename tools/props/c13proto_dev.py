"""PRIVATE development hook for the concurrent half of C13 (the race protocols of stop_immediately,
take_until and the type_erased_stream next-op).  tools/props/c13.py carries the same units (see
tools/units/stream_proto.py: run_units); this file exists so that they can be run without the (long)
sequential half:  tools/check C13proto_dev   (delete evidence/C13proto_dev.json and out/C13proto_dev afterwards)"""
import os, vlib
from units import stream_proto
LEVEL = "proof"


def run(chk, replay=None):
    chk.cov["trusted_base"] = stream_proto.trusted_base()
    chk.cov["rule"] = ("K1: all schedules of each program with <= bound preemptions (truncated at maxruns) plus seeded random ones; "
                       "distinct = distinct projected traces; non-trivial = at least two context switches among owned events")
    chk.cov["model_variant"] = dict(stream_proto.MODEL_VARIANT)
    if not os.environ.get("VERIF_DEV_SKIP_PROOF"):
        for sub in ("C13_stopimm", "C13_takeuntil", "C13_typeerase"):
            if not os.path.exists(os.path.join(vlib.COQ, "Properties_%s.v" % sub)):
                continue
            r = vlib.coq_property(sub)
            chk.cov["obligations"] += len(r["theorems"])
            chk.cov.setdefault("theorems", []).extend(r["theorems"])
            chk.cov.setdefault("print_assumptions", {}).update(r["assumptions"])
            if r["ok"]:
                chk.cov["discharged"] += len(r["theorems"])
            else:
                p = chk.replay_file("proof_" + sub, {"kind": "proof-obligation", "failed": r.get("failed", ""), "log_tail": r["log"][-1500:]})
                chk.violation("proof:" + sub, p, no_input=True, text=r.get("failed", "")[:300])
    stream_proto.run_units(chk)
