"""PRIVATE development hook for the concurrent half of C13 (the race protocols of stop_immediately,
take_until and the type_erased_stream next-op).  tools/props/c13.py carries the same units; this file
exists so that they can be run without the (long) sequential half:  tools/check C13proto_dev"""
import os, re, json, k1, vlib
from units import stream_proto
LEVEL = "proof"

# verdict tag of the direct monitors -> violation key
TAGS = {
    "stop_immediately": {
        "UAF9:": "finding9-start-uses-stream_-after-destruction",
        "UAF9B:": "finding9b-handle_signal-reads-dead-receiver",
    },
    "take_until": {
        "F2-DTOR:": "finding2-trigger-cleanup-destroys-sourceOp",
    },
}


class Keyed:
    """Check proxy: a monitor failure is reported under a key that names the defect (from the tag the
    verdict starts with) instead of the generic '<unit>/<program>/monitor'."""
    def __init__(self, chk):
        object.__setattr__(self, "_chk", chk)
    def __getattr__(self, n):
        return getattr(self._chk, n)
    def __setattr__(self, n, v):
        setattr(self._chk, n, v)
    def violation(self, key, replay_path, no_input=False, text=""):
        if key.endswith("/monitor"):
            unit, prog = key.split("/")[0], key.split("/")[-2]
            m = re.match(r"\s*([A-Z][A-Z0-9-]*:)", text or "")
            tag = m.group(1) if m else "FAILED:"
            name = TAGS.get(unit, {}).get(tag) or ("monitor-" + tag.rstrip(":").lower())
            key = "%s/%s/%s" % (unit, name, prog)
            try:      # one replay file per (program, tag): k1 names it by program only
                obj = json.load(open(replay_path))
                newp = replay_path.replace(".json", "_" + re.sub(r"\W+", "_", tag.rstrip(":")) + ".json")
                json.dump(obj, open(newp, "w"), indent=1)
                replay_path = newp
            except (OSError, ValueError):
                pass
        return self._chk.violation(key, replay_path, no_input=no_input, text=text)


def units():
    us = [stream_proto.StopImmediately()]
    for n in ("TakeUntil", "TypeEraseNext"):
        if hasattr(stream_proto, n):
            us.append(getattr(stream_proto, n)())
    only = os.environ.get("VERIF_C13_ONLY")       # development: run one unit only
    if only:
        us = [u for u in us if u.name == only]
    return us


def trusted_base():
    return [
        "Coq 8.16.1 kernel (vm_compute conversions re-checked at Qed); Print Assumptions closed for every theorem in "
        "Properties_C13_stopimm.v / _takeuntil.v / _typeerase.v",
        "extraction ExtrOcamlBasic only; ocaml/lockstep.ml, handlers/h_stopimm.ml / h_takeuntil.ml / h_typeerasenext.ml glue",
        "harness: verif_shim.hpp + dsched (serialises real threads, preempts before atomic accesses only: sequential consistency "
        "and data-race freedom of everything but the named atomics assumed), k1_stream_common.hpp (scripted source stream with "
        "tracked, poisoned op-states; consumer doing what reduce_stream does), the three k1 drivers (compiled -O0)",
        "modelled not verified: the stop sources at lock granularity (C03 owns their internals); the sources ignore stop requests",
        "model variants tied to the code: tools/units/stream_proto.py MODEL_VARIANT = %r" % (stream_proto.MODEL_VARIANT,)]


def run_units(chk):
    kchk = Keyed(chk)
    for u in units():
        k1.run_unit(kchk, u)
        for cfg2 in getattr(u, "thorough_cfgs", ()) if chk.tier != "quick" else ():
            u2 = type(u)(); u2.cfg = cfg2; u2.name = u.name + "@" + cfg2
            k1.run_unit(kchk, u2, key_prefix=u.name)


def run(chk, replay=None):
    chk.cov["trusted_base"] = trusted_base()
    chk.cov["rule"] = ("K1: all schedules of each program with <= bound preemptions (truncated at maxruns) plus seeded random ones; "
                       "distinct = distinct projected traces; non-trivial = at least two context switches among owned events")
    chk.cov["model_variant"] = dict(stream_proto.MODEL_VARIANT)
    if not os.environ.get("VERIF_DEV_SKIP_PROOF"):
        for sub in ("C13_stopimm", "C13_takeuntil", "C13_typeerase"):
            if not os.path.exists(os.path.join(vlib.COQ, "Properties_%s.v" % sub)):
                continue
            r = vlib.coq_property(sub)
            chk.cov["obligations"] += len(r["theorems"])
            chk.cov.setdefault("theorems", []).extend(r["theorems"])
            chk.cov.setdefault("print_assumptions", {}).update(r["assumptions"])
            if r["ok"]:
                chk.cov["discharged"] += len(r["theorems"])
            else:
                p = chk.replay_file("proof_" + sub, {"kind": "proof-obligation", "failed": r.get("failed", ""), "log_tail": r["log"][-1500:]})
                chk.violation("proof:" + sub, p, no_input=True, text=r.get("failed", "")[:300])
    run_units(chk)
