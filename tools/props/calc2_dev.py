"""PRIVATE development hook for the Calc2 model (second-generation E2 calculus); no theorems yet.
`tools/check calc2_dev [--tier thorough]`."""
import k2v2
LEVEL = "tie-only"
def run(chk, replay=None):
    chk.cov["rule"] = "generated expressions x generated scripts: Calc2.exec trace == real library trace (canonical form); non-trivial = distinct (expr, script) with a stop request or a non-value completion"
    chk.cov["trusted_base"] = ["extraction ExtrOcamlBasic; ocaml/handlers/h_calc2.ml; harness/k2v2.hpp; tools/k2v2.py"]
    k2v2.standard_k2v2(chk)
