"""C17 — bulk operations visit each index once before completing; find_if is exact.
Theorems: coq/Properties_C17.v over the models in coq/Arith/FindIfDefs.v.
Tie (K3): the real find_if (seq, par; inline and thread-pool scheduler) and bulk_schedule (four
policies, and under bulk_transform/bulk_join) are run on the same inputs as the extracted model;
outputs (result offset, exact sequence of offsets the predicate saw / indices set_next saw,
terminal signal) must be equal."""
import vlib

LEVEL = "proof"

def monitor_find(n, hits, out):
    """The property itself, evaluated on an implementation output line."""
    try:
        r, v = out.split(" ", 1)
        r = int(r)
        vis = [int(x) for x in v.strip("[]").split(",") if x]
    except Exception:
        return False, "unparsable/crash: " + out[:120]
    if any(x < 0 or x >= n for x in vis):
        return False, "predicate evaluated outside the range: %r" % [x for x in vis if x < 0 or x >= n][:5]
    inr = sorted(h for h in hits if 0 <= h < n)
    exp = inr[0] if inr else n
    if r != exp:
        return False, "result %d, expected %d" % (r, exp)
    if len(set(vis)) != len(vis):
        return False, "element evaluated twice"
    return True, ""

def monitor_policy(meta, out):
    """the clause itself: the source may run in parallel / unsequenced only if every layer permits it"""
    layers = [{"none": "seq", "join": "par_unseq"}.get(meta[0], meta[0])] + list(meta[1:])
    if out not in ("seq", "unseq", "par", "par_unseq"):
        return False, "unparsable/crash: " + out[:120]
    if "par" in out and not all("par" in l for l in layers):
        return False, "source licensed to run in parallel although a layer is not parallel"
    if "unseq" in out and not all("unseq" in l for l in layers):
        return False, "source licensed to run unsequenced although a layer is not unsequenced"
    return True, ""

def monitor_bulk(n, out):
    try:
        t, v = out.split(" ", 1)
        idx = [int(x) for x in v.strip("[]").split(",") if x]
    except Exception:
        return False, "unparsable/crash: " + out[:120]
    if t not in ("value", "done"):
        return False, "terminal " + t
    if idx != list(range(len(idx))):
        return False, "indices not 0..m-1 each once in order"
    if len(idx) > n:
        return False, "index beyond count"
    if t == "value" and len(idx) != n:
        return False, "value with %d of %d indices" % (len(idx), n)
    return True, ""

def gen_cases(chk):
    rng = chk.rng
    thorough = chk.tier == "thorough"
    cases = []   # (kind, model_line, impl_line, meta)
    nmax = 2100 if thorough else 420
    ns = list(range(0, nmax + 1))
    ns += [rng.randrange(nmax, 6000) for _ in range(40 if thorough else 8)]
    for n in ns:
        hs = [[]]
        if n > 0:
            hs += [[0], [n - 1], [n // 2], sorted({rng.randrange(n) for _ in range(3)})]
            # aim at chunk boundaries (case splits of the proof): multiples of the chunk size
            nc = 32 if n // 32 > 4 else (n + 4) // 4
            cs = (n + nc) // nc
            b = cs * rng.randrange(nc)
            hs += [[x] for x in (b - 1, b, b + 1) if 0 <= x < n]
        if not thorough and n > 64 and n % 7:
            hs = hs[:2] + [hs[rng.randrange(len(hs))]]
        for h in hs:
            hl = " ".join(map(str, h))
            cases.append(("find_par", "find_par %d | %s" % (n, hl), "find_par %d | %s" % (n, hl), (n, h)))
            if n <= 300 or n % 50 == 0:
                cases.append(("find_seq", "find_seq %d | %s" % (n, hl), "find_seq %d | %s" % (n, hl), (n, h)))
                # a predicate whose truthy results are ints other than 1 (contextual conversion to bool)
                cases.append(("find_seq", "find_seq %d | %s" % (n, hl), "find_seq_int %d | %s" % (n, hl), (n, h)))
            if h and (n <= 64 or n % 10 == 0):
                cases.append(("find_par", "find_par %d | %s" % (n, hl), "find_par_int %d | %s" % (n, hl), (n, h)))
    # thread pool as the scheduler: result only (visit order is schedule dependent)
    for n in ([0, 1, 5, 126, 160, 200, 991] + [rng.randrange(1, 1500) for _ in range(20 if thorough else 4)]):
        for h in ([], [n // 3] if n else []):
            hl = " ".join(map(str, h))
            cases.append(("find_pool", "find_par %d | %s" % (n, hl), "find_par_pool %d | %s" % (n, hl), (n, h)))
    for n in [0, 1, 15, 16, 17, 31, 32, 33, 47, 48, 255, 256, 257, 1000] + ([4096] if thorough else []) + [rng.randrange(0, 600) for _ in range(6)]:
        ks = ["none"] + [str(k) for k in range(0, n // 16 + 3)]
        if len(ks) > 12 and not thorough:
            ks = ks[:6] + [ks[rng.randrange(6, len(ks))] for _ in range(4)] + ks[-2:]
        for k in ks:
            for pol in ("seq", "par", "unseq", "par_unseq", "stack"):
                cases.append(("bulk", "bulk_indices %d %s" % (n, k), "bulk_indices %d %s %s" % (n, k, pol), (n, k, pol)))
    # indexed_for (a direct loop, not built on bulk_schedule): every index once, in order, then the predecessor's value
    # (42 + sum of the indices); the model is bulk_indices without a stop; a throwing function ends it with set_error
    for n in [0, 1, 2, 15, 16, 17, 33, 100] + [rng.randrange(0, 300) for _ in range(4)]:
        for pol in ("seq", "par"):
            cases.append(("ifor", "bulk_indices %d none" % n, "indexed_for %d %s -1" % (n, pol), (n, pol, -1)))
            for t in sorted({0, n // 2, n - 1}):
                if 0 <= t < n:
                    cases.append(("ifor", "bulk_indices %d none" % n, "indexed_for %d %s %d" % (n, pol, t), (n, pol, t)))
    # execution policies: every stack of up to three bulk_transforms over every kind of bottom receiver
    pols = ("seq", "unseq", "par", "par_unseq")
    import itertools
    for b in ("none", "join") + pols:
        for d in range(0, 4):
            for ps in itertools.product(pols, repeat=d):
                l = "policy %s %s" % (b, " ".join(ps))
                cases.append(("policy", l.strip(), l.strip(), (b,) + ps))
    return cases

def run(chk, replay=None):
    chk.cov["trusted_base"] = [
        "Coq 8.16.1 kernel (no native_compute); Print Assumptions of every C17 theorem: closed under the global context",
        "extraction ExtrOcamlBasic only; ocaml/conv.ml, handlers/h_findif.ml, driver.ml glue",
        "harness/k3_c17.cpp (recording predicate / many-receiver), g++ 12.2",
        "modelled not verified: iterator arithmetic is Z offsets (no overflow of diff_t); thread-pool visit order not compared (result only)"]
    chk.cov["rule"] = ("cases = (n, hit set) for find_if seq/par and (count, stop block, policy) for bulk_schedule, (bottom receiver, transform policies) for the policy intersection; "
                       "non-trivial = has a hit, or n > 0 with a stop position, i.e. not the empty/no-stop case; distinct by input line")
    chk.prove()
    exe, err = vlib.build_driver("k3_c17", "plain17")
    if err:
        p = chk.replay_file("build", {"kind": "build-failure", "error": err})
        chk.violation("build", p, no_input=True, text="harness no longer compiles against /repo")
        return
    cases = gen_cases(chk)
    if replay:
        import json
        r = json.load(open(replay))
        cases = [(r["kind"], r["model_line"], r["impl_line"], tuple(r["meta"]))] if "model_line" in r else cases
    mlines = sorted(set(c[1] for c in cases))
    mout = dict(zip(mlines, vlib.model_run(mlines)))
    iout = vlib.run_impl_lines(exe, [c[2] for c in cases])
    dist = {}
    for (kind, ml, il, meta), io in zip(cases, iout):
        mo = mout[ml]
        dist[kind] = dist.get(kind, 0) + 1
        nontrivial = ((kind == "policy" and len(meta) > 1) or (kind not in ("bulk", "policy") and len(meta[1]) > 0)
                      or (kind == "bulk" and meta[0] > 0 and meta[1] != "none"))
        chk.count(il, nontrivial)
        if kind == "ifor":
            n, pol, t = meta
            if t < 0:     # the model's index list, plus the accumulated value
                agree = (io == "%s acc=%d" % (mo, 42 + n * (n - 1) // 2))
            else:         # documented: func called for 0..t, then set_error; nothing after the throw
                agree = (io == "error [%s] acc=-1" % ",".join(map(str, range(t + 1))))
            if agree:
                chk.cov["traces_validated_against_impl"] += 1
            else:
                chk.cov["disagreements_checked"] += 1
                rp = chk.replay_file("ifor_%d_%s_%d" % meta, {"kind": kind, "model_line": ml, "impl_line": il, "meta": meta, "model": mo, "impl": io,
                                     "monitor": "indexed_for must call the function for every index of the range exactly once, in order, and pass the value on",
                                     "replay": "echo '%s' | <cache>/k3_c17_plain17_*" % il})
                chk.violation("indexed_for/%s" % pol, rp, text="%s: impl=%s model=%s" % (il, io[:100], mo[:80]))
            continue
        if kind == "find_pool":   # compare result only; monitor the visited set
            agree = (io.split(" ")[0] == mo.split(" ")[0])
            ok, why = monitor_find(meta[0], meta[1], io)
            agree = agree and ok
        else:
            agree = (io == mo)
        if agree:
            chk.cov["traces_validated_against_impl"] += 1
            if nontrivial:
                chk.sample({"impl_line": il, "impl": io[:160], "model": mo[:160]})
            continue
        chk.cov["disagreements_checked"] += 1
        if kind == "policy":
            ok, why = monitor_policy(meta, io)
        elif kind == "bulk":
            ok, why = monitor_bulk(meta[0], io)
            # the stop lands exactly before block k: done with 16k indices, or value with all
            if ok and meta[1] != "none" and 16 * int(meta[1]) < meta[0]:
                if not io.startswith("done") or io.count(",") + 1 != 16 * int(meta[1]) and int(meta[1]) > 0:
                    ok, why = False, "stop before block %s not honoured" % meta[1]
        else:
            ok, why = monitor_find(meta[0], meta[1], io)
        rp = chk.replay_file("%s_%s" % (kind, "_".join(str(x) for x in meta)[:40]),
                             {"kind": kind, "model_line": ml, "impl_line": il, "meta": meta,
                              "model": mo, "impl": io, "monitor": why,
                              "obligation": "K3 correspondence FindIfDefs vs find_if.hpp/bulk_schedule.hpp",
                              "replay": "echo '%s' | <cache>/k3_c17_plain17_*" % il})
        if kind == "policy":
            key = "policy/%s" % ("monitor" if not ok else "corr")
        elif kind == "bulk":
            key = "bulk/%s" % ("monitor" if not ok else "corr")
        elif kind == "find_seq":
            key = "find_if/seq/%s" % ("monitor" if not ok else "corr")
        else:
            key = "find_if/par/%s" % ("monitor" if not ok else "corr")
        chk.violation(key, rp, no_input=ok, text="%s: impl=%s model=%s %s" % (il, io[:80], mo[:80], why))
    chk.cov["input_distribution"] = dist
    chk.cov["exhaustive"] = False
    chk.cov["explanation"] = "find_if par: every n in 0..%d with no match and boundary matches" % (2100 if chk.tier == "thorough" else 420)
