"""C18 — type-erased wrappers behave exactly like the object they wrap.

Part A (proof-carrying): abstract machine AnyBox (coq/Proto/AnyBoxDefs.v) for unifex::basic_any_object /
unifex::any_unique (+ any_ref stacked on them); theorems in coq/Properties_C18_anybox.v.  Tie (K3): random
and boundary-aimed operation sequences are run on the extracted model (ocaml handler "anybox") and on the
real wrappers holding tracked wrapped types with a counting allocator (harness/k3_anybox.cpp); the event
lists (tracked-object life cycle, allocations, results) must be equal; a direct monitor re-checks the
property itself on the implementation's events (no double destroy, no copy, balanced, sizes match).
Compile-time probes: documented uses of the wrappers that must compile.

Part B (translation validation): tools/k2erase.py — K2 expressions with any_sender_of inserted at a random
node must give the Calc model's trace of the un-wrapped expression; any_scheduler equality and
type_erased_stream differentials."""
import os, re, hashlib, time
import vlib, k2erase

LEVEL = "proof"

MODES = "ICJD"


# --------------------------------------------------------------------------------------------- monitor
def monitor(trace):
    """the property itself on an implementation event list; '' = holds"""
    body, _, tail = trace.partition(" # ")
    live, blocks = set(), {}
    ever = set()
    for opi, opev in enumerate(body.split(" / ")):
        for e in opev.split(";"):
            f = e.split()
            if not f:
                continue
            k = f[0]
            if k == "ctor":
                i = int(f[1])
                if i in ever: return "object %d constructed twice" % i
                ever.add(i); live.add(i)
            elif k == "move":
                n, o = map(int, f[1].split("<-"))
                if o not in live: return "move from dead object %d" % o
                if n in ever: return "object %d constructed twice" % n
                ever.add(n); live.add(n)
            elif k == "copy":
                return "wrapped object copied (%s) in op %d" % (e, opi)
            elif k == "mthrow":
                if int(f[1]) not in live: return "move from dead object %s" % f[1]
            elif k == "dtor":
                i = int(f[1])
                if i not in live:
                    return "object %d destroyed %s" % (i, "twice" if i in ever else "but never constructed")
                live.discard(i)
            elif k == "alloc":
                b, n = int(f[1]), int(f[2])
                if b in blocks: return "block %d allocated twice" % b
                blocks[b] = n
            elif k == "dealloc":
                b, n = int(f[1]), int(f[2])
                if b not in blocks: return "block %d freed but not live" % b
                if blocks[b] != n: return "block %d allocated with %d bytes, freed with %d" % (b, blocks[b], n)
                del blocks[b]
            elif k in ("ret", "athrow"):
                pass
            else:
                return "harness flagged: " + e
    if live: return "leaked wrapped objects %r" % sorted(live)
    if blocks: return "leaked heap blocks %r" % sorted(blocks)
    m = re.search(r"live=(\d+) blocks=(\d+) bad=(\d+)", tail)
    if not m or m.groups() != ("0", "0", "0"):
        return "driver summary: " + tail
    return ""


# --------------------------------------------------------------------------------------------- generation
def rand_op(rng, nv, ncls, arm_p):
    arm = 0
    if rng.random() < arm_p:
        arm = rng.choice((1, 1, 2))
    v, w = rng.randrange(nv), rng.randrange(nv)
    k = rng.choice(("N", "N", "N", "MC", "MC", "MA", "MA", "MA", "AV", "AV", "SW", "SW", "IV", "IV", "PK", "RF", "DL"))
    if k == "N": return "N:%d:%d:%d:%s:%d" % (v, rng.randrange(ncls), rng.randint(1, 40), rng.choice(MODES), arm)
    if k == "AV": return "AV:%d:%d:%d:%d" % (v, rng.randrange(ncls), rng.randint(1, 40), arm)
    if k in ("MC", "MA", "SW"): return "%s:%d:%d:%d" % (k, v, w, arm)
    if k == "IV": return "IV:%d" % v
    if k == "PK": return "PK:%d:%d:%d" % (v, rng.randint(0, 9), 1 if rng.random() < 0.25 else 0)
    if k == "RF": return "RF:%d:%d" % (v, w)
    return "DL:%d" % v


def gen_sequences(rng, cfgs, classes, tier):
    """returns list of (cfgname, nv, raw op tokens)"""
    ncls = len(classes)
    seqs = []
    nrand = 200 if tier == "quick" else 2500
    for (name, kind, isz, ial, req) in cfgs:
        for _ in range(nrand):
            nv = rng.randint(2, 4)
            n = rng.randint(4, 26)
            arm_p = rng.choice((0.0, 0.15, 0.4))
            seqs.append((name, nv, [rand_op(rng, nv, ncls, arm_p) for _ in range(n)]))
        # boundary-aimed: every class x construction mode x armed failure, then every use of the wrapper
        for c in range(ncls):
            for m in MODES:
                for arm in (0, 1, 2):
                    seqs.append((name, 3, ["N:0:%d:7:%s:%d" % (c, m, arm), "IV:0", "PK:0:3:0", "PK:0:1:1", "IV:0", "RF:0:0",
                                           "MC:1:0:0", "IV:1", "IV:0", "RF:1:0", "DL:0", "IV:1"]))
            # every ordered pair of classes through move-assign / assign-value / swap, failure armed or not
            for c2 in range(ncls):
                if tier == "quick" and (c + c2) % 3 and c != c2:
                    continue
                for arm in (0, 1, 2):
                    base = ["N:0:%d:5:I:0" % c, "N:1:%d:6:C:0" % c2]
                    seqs.append((name, 3, base + ["MA:0:1:%d" % arm, "IV:0", "IV:1", "MA:1:0:%d" % arm, "IV:1", "MA:1:1:1", "IV:0"]))
                    seqs.append((name, 3, base + ["SW:0:1:%d" % arm, "IV:0", "IV:1", "SW:0:0:%d" % arm, "IV:0", "MC:2:1:%d" % arm, "SW:1:2:0", "IV:2"]))
                    seqs.append((name, 3, base + ["AV:0:%d:9:%d" % (c2, arm), "IV:0", "MC:2:0:0", "AV:0:%d:8:%d" % (c, arm), "IV:0", "MA:2:0:0", "IV:2", "IV:0"]))
    # the run of Example C18_ex_object_trace / C18_ex_unique_trace in coq/Properties_C18_anybox.v
    for (name, kind, isz, ial, req) in cfgs:
        seqs.append((name, 3, "N:0:1:5:I:0 N:1:4:6:C:0 MA:1:0:1 IV:0 MC:2:0:0 IV:0 SW:0:2:0 AV:0:4:9:2 PK:2:3:1".split()))
    return seqs


INFORMATIONAL_PROBES = {"uniq_doc_allocator_arg_value_ctor"}   # documentation discrepancies: recorded, never a violation
PROBES = {
    # name: (what the property/doc promises, source)
    "uniq_alloc_const_cpo": ("any_unique constructed with an allocator holds a type whose CPO takes `const this_&`", """
#include <unifex/any_unique.hpp>
#include <memory>
inline constexpr struct q_cpo {
  using type_erased_signature_t = int(const unifex::this_&) noexcept;
  template <typename T> auto operator()(const T& x) const noexcept -> unifex::tag_invoke_result_t<q_cpo, const T&> { return unifex::tag_invoke(*this, x); }
} q{};
struct S { int v; explicit S(int x) : v(x) {} friend int tag_invoke(q_cpo, const S& s) noexcept { return s.v; } };
int main() {
  unifex::any_unique_t<q> a{std::in_place_type<S>, 3};                                        // plain new: compiles
  unifex::any_unique_t<q> b{std::allocator_arg, std::allocator<std::byte>{}, std::in_place_type<S>, 4};
  return q(a) + q(b) == 7 ? 0 : 1;
}
"""),
    "uniq_doc_allocator_arg_value_ctor": ("doc/type_erasure.md: `explicit any_unique(std::allocator_arg_t, Allocator alloc, T&& obj)`", """
#include <unifex/any_unique.hpp>
#include <memory>
inline constexpr struct q_cpo {
  using type_erased_signature_t = int(unifex::this_&) noexcept;
  template <typename T> auto operator()(T& x) const noexcept -> unifex::tag_invoke_result_t<q_cpo, T&> { return unifex::tag_invoke(*this, x); }
} q{};
struct S { int v; explicit S(int x) : v(x) {} friend int tag_invoke(q_cpo, S& s) noexcept { return s.v; } };
int main() {
  unifex::any_unique_t<q> b{std::allocator_arg, std::allocator<std::byte>{}, S{4}};
  return q(b) == 4 ? 0 : 1;
}
"""),
    "const_rvalue_this_signature": ("doc/type_erasure.md: the this_ parameter may be `const this_&&` (this.hpp lists it in is_this_v)", """
#include <unifex/any_unique.hpp>
inline constexpr struct q_cpo {
  using type_erased_signature_t = int(const unifex::this_&&) noexcept;
  template <typename T> auto operator()(const T&& x) const noexcept -> unifex::tag_invoke_result_t<q_cpo, const T&&> { return unifex::tag_invoke(*this, (const T&&)x); }
} q{};
struct S { int v; explicit S(int x) : v(x) {} friend int tag_invoke(q_cpo, const S&& s) noexcept { return s.v; } };
int main() {
  unifex::any_unique_t<q> a{std::in_place_type<S>, 3};
  return q(std::move(a)) == 3 ? 0 : 1;
}
"""),
}


def run_probes(chk):
    cd = vlib.cache_dir()
    d = os.path.join(cd, "c18probes"); os.makedirs(d, exist_ok=True)
    res = {}
    for name, (what, src) in sorted(PROBES.items()):
        p = os.path.join(d, name + ".cpp")
        open(p, "w").write(src)
        exe, err = vlib.build_driver("c18probe_" + name, "plain17", src=p, link_lib=False)
        ok = err is None
        if ok:
            rc, out = vlib.sh([exe], timeout=30)
            ok = rc == 0
            err = "exit code %d %s" % (rc, out[-200:])
        res[name] = "ok" if ok else ("FAILS (informational: documentation discrepancy)" if name in INFORMATIONAL_PROBES else "FAILS")
        if name in INFORMATIONAL_PROBES:
            continue
        chk.count("probe " + name, True)
        if ok:
            chk.cov["traces_validated_against_impl"] += 1
            continue
        chk.cov["disagreements_checked"] += 1
        first = [l for l in (err or "").split("\n") if "error" in l][:2]
        rp = chk.replay_file("probe_" + name, {"kind": "compile-probe", "promise": what, "source": src, "error": (err or "")[-3000:],
                                               "replay": "g++ -std=c++17 -I%s/include %s" % (vlib.REPO, p)})
        chk.violation("probe/" + name, rp, text="%s: does not build/run: %s" % (what, " ".join(first)[:300]))
    chk.cov["probes"] = res


def run_part_a(chk, replay=None):
    t0 = time.time()
    exe, err = vlib.build_driver("k3_anybox", "plain17")
    if not err:
        try:
            exe = k2erase.private_copy(exe)
        except OSError as ex:
            exe, err = None, "cache entry vanished while copying: %r" % ex
    if err:
        p = chk.replay_file("build", {"kind": "build-failure", "error": err})
        chk.violation("anybox/build", p, no_input=True, text="harness/k3_anybox.cpp no longer compiles against /repo: " + err[-300:].replace("\n", " "))
        return
    classes, cfgl = vlib.run_impl_lines(exe, ["classes", "configs"])
    classes = classes.split()
    cfgs = [tuple(x.split(":")) for x in cfgl.split()]      # name, kind, isz, ial, req
    cfgd = {c[0]: c for c in cfgs}
    def mline(handler, name, nv, ops):
        _, kind, isz, ial, req = cfgd[name]
        return "%s %s %s %s %s %d | %s | %s" % (handler, kind, isz, ial, req, nv, " ".join(classes), " ".join(ops))
    if replay and "impl_line" in replay:
        seqs = [(replay["cfg"], replay["nv"], replay["ops"])]
    else:
        seqs = gen_sequences(chk.rng, cfgs, classes, chk.tier)
    # make the sequences well-formed with the model (drops operations whose precondition fails), cap at 12
    cleaned = vlib.model_run([mline("anybox_clean", n, nv, ops) for (n, nv, ops) in seqs])
    cases, seen = [], set()
    for (n, nv, _), cl in zip(seqs, cleaned):
        ops = cl.split()[:12]
        key = (n, nv, tuple(ops))
        if ops and key not in seen:
            seen.add(key); cases.append((n, nv, ops))
    mout = vlib.model_run([mline("anybox", n, nv, ops) for (n, nv, ops) in cases])
    ilines = ["%s %d | %s" % (n, nv, " ".join(ops)) for (n, nv, ops) in cases]
    iout = vlib.run_impl_lines(exe, ilines, chunk=400)
    stats = {"sequences": len(cases), "by_config": {}, "ops": {}, "threw": 0, "heap_allocs": 0, "moves": 0,
             "pointer_transfers": 0}
    for (n, nv, ops), il, io, mo in zip(cases, ilines, iout, mout):
        stats["by_config"][n] = stats["by_config"].get(n, 0) + 1
        for o in ops:
            k = o.split(":")[0]
            stats["ops"][k] = stats["ops"].get(k, 0) + 1
        stats["threw"] += io.count("ret threw")
        stats["heap_allocs"] += io.count("alloc ") - io.count("dealloc ")*0
        stats["moves"] += io.count("move ")
        stats["pointer_transfers"] += sum(1 for o, r in zip(ops, io.split(" / ")) if o.split(":")[0] == "MC" and r == "ret ok")
        nontriv = any(o.split(":")[0] in ("MC", "MA", "SW", "AV") for o in ops)
        chk.count(il, nontriv)
        mon = monitor(io) if not io.startswith(("CRASH", "ERR")) else "crash/harness error: " + io[:200]
        if io == mo and not mon:
            chk.cov["traces_validated_against_impl"] += 1
            if nontriv and "threw" in io:
                chk.sample({"impl_line": il, "trace": io[:300]}, limit=4)
            continue
        chk.cov["disagreements_checked"] += 1
        # first differing op, for the key
        a, b = io.split(" / "), mo.split(" / ")
        k = next((i for i in range(min(len(a), len(b))) if a[i] != b[i]), min(len(a), len(b)))
        opk = ops[k].split(":")[0] if k < len(ops) else "end"
        rec = {"kind": "anybox", "cfg": n, "nv": nv, "ops": ops, "impl_line": il, "impl": io, "model": mo, "monitor": mon,
               "first_diff_op": k, "obligation": "K3 correspondence AnyBox.step vs any_object.hpp / any_unique.hpp",
               "replay": "echo '%s' | %s" % (il, exe)}
        if mon:
            key, no_input = "anybox/monitor/%s/%s" % (n, re.sub(r"\d+", "N", re.sub(r"\[.*\]", "[..]", mon))[:50]), False
            text = "%s | %s" % (il, mon)
        else:
            key, no_input = "anybox/corr/%s/%s" % (n, opk), True
            text = "%s | op %d: impl=%s model=%s" % (il, k, (a[k] if k < len(a) else "-")[:120], (b[k] if k < len(b) else "-")[:120])
        seen = chk.__dict__.setdefault("_c18_seen", set())
        if key in seen:
            continue                  # one replay file per distinct signature
        seen.add(key)
        rp = chk.replay_file("anybox_%s" % hashlib.sha256(il.encode()).hexdigest()[:10], rec)
        chk.violation(key, rp, no_input=no_input, text=text)
    stats["seconds"] = round(time.time() - t0, 1)
    chk.cov["anybox"] = stats


def run(chk, replay=None):
    chk.cov["trusted_base"] = [
        "Coq 8.16.1 kernel; Print Assumptions of every theorem in Properties_C18_anybox.v: closed under the global context",
        "extraction ExtrOcamlBasic only; ocaml/conv.ml, handlers/h_anybox.ml, handlers/h_calc.ml, driver.ml glue",
        "harness/k3_anybox.cpp (tracked wrapped types, counting allocator, class-level operator new), harness/k2.hpp + k2e.hpp, g++ 12.2",
        "modelled not verified: vtable dispatch itself (each CPO call is one model step), object layout (block sizes are the "
        "driver's sizeof values, recomputed by the model from sizeof/alignof T), CPO calls on empty wrappers are outside the domain (UB)"]
    chk.cov["rule"] = ("part A: cases = (wrapper configuration, operation sequence of <= 12 well-formed ops); non-trivial = contains a "
                       "move-construct / move-assign / assign-value / swap; distinct by input line.  part B: K2 expressions x scripts "
                       "with any_sender_of inserted at a random node; non-trivial = has stop/error/done")
    rp = None
    if replay:
        import json
        rp = json.load(open(replay))
    quick = chk.tier == "quick"
    k2e_args = dict(n_tus=4 if quick else 24, cases_per_tu=6)
    # build the C++ drivers and translation units while Coq checks the proofs
    from concurrent.futures import ThreadPoolExecutor
    futs = []
    if not rp:
        vlib.build_lib("plain17")
        ex = ThreadPoolExecutor(3)
        futs = [ex.submit(vlib.build_driver, "k3_anybox", "plain17"), ex.submit(vlib.build_driver, "k3_c18b", "plain17"),
                ex.submit(k2erase.prebuild, chk.seed, k2e_args["n_tus"], k2e_args["cases_per_tu"])]
    chk.prove()
    for f in futs:
        try:
            f.result()
        except Exception:
            pass        # the parts below rebuild and report
    if not rp or rp.get("kind") in ("anybox",):
        run_part_a(chk, rp)
    if not rp or rp.get("kind") == "compile-probe":
        run_probes(chk)
    if not rp or rp.get("kind") == "k2e":
        k2erase.run_k2erase(chk, scripts_per_case=24 if quick else 50, replay=rp, **k2e_args)
    if not rp or rp.get("kind") == "misc":
        k2erase.run_misc(chk, replay=rp)
    chk.cov["documented_differences"] = [
        "any_scheduler_ref::operator== is shallow (identity of the referred-to scheduler object), only equal_to() agrees with the "
        "wrapped schedulers' operator== (any_scheduler.hpp:298-312); compared accordingly",
        "plain any_sender_of<...> forwards the stop token only; receiver queries must be declared with with_receiver_queries<...> "
        "(any_sender_of.hpp:203-211, 288-289); plain wrappers are compared against the model with the queries reset at the wrapper",
        "any_sender_of's static traits are conservative (blocking = maybe, sends_done = true, error_types = exception_ptr): not compared",
        "doc/type_erasure.md documents `explicit any_unique(std::allocator_arg_t, Allocator, T&&)`; the code only has "
        "`any_unique(T&&, Allocator)` (probe uniq_doc_allocator_arg_value_ctor, informational)",
        "any_object: a CPO call on a wrapper emptied by a move (heap storage) or a failed assignment is undefined (null dereference / "
        "std::abort through invalid_obj): outside the machine's domain, never generated"]
    chk.cov["exhaustive"] = False
    # type_erased_stream's next-op election under a racing stop request (model TypeEraseNext, theorems in Properties_C13_typeerase.v)
    from units import stream_proto
    import os
    os.environ.setdefault('VERIF_C13_ONLY', 'type_erase')
    stream_proto.run_units(chk)
