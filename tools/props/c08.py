"""C08 — async_scope join completes only after all nested work finished."""
import re
import k1
from units import scope
LEVEL = "proof"


class _Keyed:
    """Check proxy: gives the one defect class that has its own refuted theorem a specific key
    (one per scope version) instead of one key per program."""
    def __init__(self, chk, variant):
        self._chk, self._variant = chk, variant
    def __getattr__(self, n):
        return getattr(self._chk, n)
    def violation(self, key, replay_path, no_input=False, text=""):
        if text.startswith("scope touched after"):
            key = "scope-set-after-join:" + self._variant
        m = re.match(r"join did not complete although no work is outstanding \[([^\]]*)\]", text)
        if m:
            key = "scope-fault:%s/%s/count-leaked" % (self._variant, m.group(1))
        return self._chk.violation(key, replay_path, no_input=no_input, text=text)


def run(chk, replay=None):
    chk.cov["trusted_base"] = [
        "Coq 8.16.1 kernel; no axioms (Print Assumptions closed) for every theorem in Properties_C08.v",
        "extraction ExtrOcamlBasic only; ocaml/lockstep.ml, handlers/h_scope.ml glue (memory-order annotations live in the handler's render)",
        "harness: verif_shim.hpp + dsched (serialises real threads: sequential consistency assumed), vh.hpp leaves, "
        "k1_scope_common.hpp (resume-on-own-thread scheduler, direct monitor), k1_scope.cpp / k1_scope_v1.cpp / k1_scope_v0.cpp",
        "tools/units/scope.py projection: a record_completion is attributed to a reference that is ready to be released "
        "(relabelling of interchangeable model threads); the copy of an empty nest sender is no reference",
        "modelled abstractly, not verified here: the manual reset event's internals (C16) - one linearisation point per wait / set; "
        "the stop source (C03/C04) - one 'stop SET' point; v1 attach's refcount_ election and spawn_future's state machine (C09) "
        "are exercised and monitored on the implementation only"]
    chk.cov["rule"] = ("K1: all schedules of each program with <= bound preemptions plus seeded random ones; "
                       "distinct = distinct projected traces; non-trivial = at least two context switches among owned events")
    chk.cov["end_scope_variant_tied"] = ("strict (the event is set by the call that closes the scope or by the last "
                                         "completion only); the variant before the fix has the refuted theorems")
    chk.prove()
    for u in (scope.ScopeV2(), scope.ScopeV1(), scope.ScopeV0()):
        k1.run_unit(_Keyed(chk, u.variant), u)
