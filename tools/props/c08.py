"""C08 — async_scope join completes only after all nested work finished."""
import k1
from units import scope
LEVEL = "proof"
def run(chk, replay=None):
    chk.cov["trusted_base"] = [
        "Coq 8.16.1 kernel; no axioms (Print Assumptions closed) for every theorem in Properties_C08*.v",
        "extraction ExtrOcamlBasic only; ocaml/lockstep.ml, handlers/h_scope.ml glue (memory-order annotations live in the handler's render)",
        "harness: verif_shim.hpp + dsched (serialises real threads: sequential consistency assumed), vh.hpp leaves, k1_scope_common.hpp (resume-on-own-thread scheduler, direct monitor), k1_scope*.cpp",
        "modelled abstractly, not verified here: the manual reset event's internals (C16) - one linearisation point per wait/set; the stop source (C03/C04) - one 'stop SET' point; v1 attach's refcount_ election is monitored on the implementation only"]
    chk.cov["rule"] = ("K1: all schedules of each program with <= bound preemptions plus seeded random ones; "
                       "distinct = distinct projected traces; non-trivial = at least two context switches among owned events")
    chk.prove()
    units = [scope.ScopeV2(), scope.ScopeV1(), scope.ScopeV0()]
    for u in units:
        k1.run_unit(chk, u)
    chk.cov["end_scope_variant_tied"] = "strict (the event is set by the call that closes the scope or by the last completion only)"
