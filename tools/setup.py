"""setup: build the Coq development and the extracted model driver, then warm the C++ caches by
running every claimed quick check once (their results are not judged here)."""
import sys, os, subprocess, json
sys.path.insert(0, os.path.dirname(os.path.abspath(__file__)))
import vlib

def main():
    ok, log = vlib.coq_make(["all"], timeout=3400)
    if not ok:
        print(log[-3000:]); print("setup: coq build failed"); return 1
    vlib.model_build()
    m = json.load(open(os.path.join(vlib.VERIF, "MANIFEST.json")))
    ids = [c["property_id"] for c in m["checks"]]
    for cfg in ("plain17", "shim17", "shim20", "plain20"):
        vlib.build_lib(cfg)
    for i in ids:
        try:
            p = subprocess.run([os.path.join(vlib.VERIF, "tools", "check"), i, "--tier", "quick"], cwd=vlib.VERIF,
                               stdout=subprocess.PIPE, stderr=subprocess.STDOUT, text=True, timeout=3000)
            print("setup: warmed %s rc=%d" % (i, p.returncode), flush=True)
        except subprocess.TimeoutExpired:      # warming only: a slow machine must not fail the setup
            print("setup: warming %s took too long, skipped" % i, flush=True)
    print("setup ok")
    return 0

if __name__ == "__main__":
    sys.exit(main())
