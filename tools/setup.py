"""setup: build the Coq development, the extracted model driver and warm the C++ cache."""
import sys, vlib
def main():
    ok, log = vlib.coq_make(["all"], timeout=3000)
    if not ok:
        print(log[-3000:]); print("setup: coq build failed"); return 1
    vlib.model_build()
    import manifest_data
    jobs = sorted(set(j for p in manifest_data.PROPS.values() for j in p.get("drivers", [])))
    res = vlib.build_many(jobs)
    bad = [(k, e) for k, (x, e) in res.items() if e]
    for k, e in bad:
        print("setup: build failed", k, e[-1500:])
    print("setup ok" if not bad else "setup: some drivers failed")
    return 0 if not bad else 1
if __name__ == "__main__":
    sys.exit(main())
