#!/usr/bin/env python3
"""Writes seeded/TABLE.md from seeded/*/meta.json: one row per seeded change (what it breaks, what it needs to manifest,
which check catches it) and the tallies quoted in DESIGN.md section 11.5."""
import json, os
V = os.path.dirname(os.path.dirname(os.path.abspath(__file__)))

def main():
    d = os.path.join(V, "seeded")
    rows, first, strengthened, missed = [], 0, 0, 0
    for k in sorted(os.listdir(d)):
        mp = os.path.join(d, k, "meta.json")
        if not os.path.exists(mp):
            continue
        m = json.load(open(mp))
        cb = (m.get("caught_by") or "").replace("|", "/").replace("\n", " ")
        low = cb.lower()
        if low.startswith("missed:") or low.startswith("missed (") or low.startswith("missed by") or not cb:
            missed += 1; st = "MISSED"
        elif "missed at first" in low or "strengthened" in low or low.startswith("missed at"):
            strengthened += 1; st = "strengthened"
        else:
            first += 1; st = "caught"
        rows.append("| %s | %s | %s | %s | %s | %s |" % (k, m.get("property", ""), (m.get("breaks") or "").replace("|", "/"),
                                                       (m.get("needs") or "").replace("|", "/"), st, cb))
    with open(os.path.join(d, "TABLE.md"), "w") as f:
        f.write("# Seeded changes (independent sub-agents; property text + own worktree only) and what catches them\n\n")
        f.write("%d changes: %d caught by the check as it stood, %d caught after the check was strengthened, %d not caught.\n\n"
                % (len(rows), first, strengthened, missed))
        f.write("| seed | property | change | needs | status | caught by |\n|---|---|---|---|---|---|\n")
        f.write("\n".join(rows) + "\n")
    print(len(rows), first, strengthened, missed)

if __name__ == "__main__":
    main()
