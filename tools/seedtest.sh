#!/bin/bash
# usage: tools/seedtest.sh <patch.diff> <property id> [tier]   -- runs the check against a private copy of /repo with the patch applied
set -e
P=$(realpath "$1"); ID=$2; TIER=${3:-quick}
D=/tmp/repo_seedtest_$$
rsync -a --exclude _build --exclude .git /repo/ $D/
( cd $D && patch -p1 -s < "$P" )
cd /verif
rc=0
VERIF_REPO=$D tools/check $ID --tier $TIER > /tmp/seedtest_$$.out 2>&1 || rc=$?
grep -E "VIOLATION" /tmp/seedtest_$$.out | cut -c1-300 | head -8 || true
(grep -cE "KNOWN-FINDING" /tmp/seedtest_$$.out || true) | sed 's/^/known-finding lines: /'
rm -f /tmp/seedtest_$$.out
echo "exit=$rc"
rm -rf $D
