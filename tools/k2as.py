"""Async-stack tie for property C20 (second half): the K2 programs, compiled in the debug configurations
against harness/k2as.hpp, print snapshots of the async-stack bookkeeping (current roots, their active
frames, parent chains) at every leaf start / completion and at the root receiver.  From the snapshots the
traced run (forest of start / completion brackets per thread) is reconstructed, replayed on the extracted
Coq model AsyncStack (handler "asyncstack"), and the model's snapshots are compared with the
implementation's; the static op tree (which operation states unifex::connect wraps, who is whose
parent) is predicted from the expression here."""
import hashlib, os, random, re
import vlib, k2

# ------------------------------------------------------------------------------------------ op tree + C++
class Tree:
    def __init__(self, base_par=None, first=0):
        self.par = {}          # op id -> parent op id / None
        self.kind = {}         # op id -> 'leaf' | 'inl' | 'J' (library-internal inline sender) | 'op'
        self.label = {}
        self.leaf_op = {}      # harness leaf id -> op id
        self.inl_op = {}       # harness inline-leaf id (100..) -> op id
        self.n = first
        self.ninl = 0
        self.base_par = base_par
    def new(self, up, kind, label):
        i = self.n; self.n += 1
        self.par[i] = up; self.kind[i] = kind; self.label[i] = label
        return i
    def children(self, p):
        return [c for c in sorted(self.par) if self.par[c] == p]
    def anc(self, n):
        out = []
        while n is not None:
            out.append(n); n = self.par.get(n)
        return out


def build(e, t, up, bound=(), pure=False):
    """returns the C++ expression over k2as leaves; fills Tree t.  One op per unifex::connect call:
    the wrapper of inject_async_stack.hpp (sender_concepts.hpp l.275-287).
    pure: the inline senders are the ones of the K2 programs (unifex::just, k2::inl) - not observed ('J');
    otherwise they are k2as::inl, which record a snapshot at their start."""
    k = e[0]
    if k in ("leaf", "leafn"):
        n = t.new(up, "leaf", k); t.leaf_op[e[1]] = n
        return "k2as::leaf{%d,%s}" % (e[1], "true" if k == "leafn" else "false")
    if k in ("just", "jerr", "jdone", "var") and pure:
        t.new(up, "J", k)
        return k2.to_cpp(e, bound)
    if k in ("just", "jerr", "jdone", "var"):
        n = t.new(up, "inl", k)
        iid = 100 + t.ninl; t.ninl += 1; t.inl_op[iid] = n
        if k == "just": return "k2as::inl{%d,'v',%d}" % (iid, e[1])
        if k == "jerr": return "k2as::inl{%d,'e',%d}" % (iid, e[1])
        if k == "jdone": return "k2as::inl{%d,'d',0}" % iid
        return "k2as::inl{%d,'v',int(%s)}" % (iid, bound[e[1]])
    if k in ("then", "uerr", "udone"):
        n = t.new(up, "op", k)
        sub = build(e[2], t, n, bound, pure)
        f = k2.cpp_fn(e[1])
        return {"then": "unifex::then(%s, %s)", "uerr": "k2::uerr(%s, %s)", "udone": "k2::udone(%s, %s)"}[k] % (sub, f)
    if k == "withq":
        n = t.new(up, "op", "with_query_value")
        return "unifex::with_query_value(%s, k2::get_q%d, %d)" % (build(e[3], t, n, bound, pure), e[1], e[2])
    if k == "unstop":
        n1 = t.new(up, "op", "unstoppable")          # unstoppable.hpp l.63: connects with_query_value(pred, get_stop_token, ...)
        n2 = t.new(n1, "op", "with_query_value")
        return "unifex::unstoppable(%s)" % build(e[1], t, n2, bound, pure)
    if k == "mat":
        n1 = t.new(up, "op", "then")
        n2 = t.new(n1, "op", "materialize")
        return "k2::mat(%s)" % build(e[1], t, n2, bound, pure)
    if k == "dopt":
        n1 = t.new(up, "op", "then")
        n2 = t.new(n1, "op", "let_done")             # done_as_optional = let_done(then(s, optional), [] { return just(nullopt); })
        n3 = t.new(n2, "op", "then")
        sub = build(e[1], t, n3, bound, pure)
        t.new(n2, "J", "just")
        return "k2::dopt(%s)" % sub
    if k in ("letv", "lete", "letd"):
        n = t.new(up, "op", k)
        a = build(e[1], t, n, bound, pure)
        if k == "letv":
            x = "x%d" % len(bound)
            return "unifex::let_value(%s, [=](int& %s) { return %s; })" % (a, x, build(e[2], t, n, (x,) + bound, pure))
        if k == "lete":
            x = "x%d" % len(bound)
            return "unifex::let_error(%s, [=](auto&& ep%s) { int %s = k2::code_of(ep%s); return %s; })" % (
                a, x, x, x, build(e[2], t, n, (x,) + bound, pure))
        return "unifex::let_done(%s, [=]() { return %s; })" % (a, build(e[2], t, n, bound, pure))
    if k == "seq":
        n = t.new(up, "op", "sequence")
        nv = t.new(n, "op", "then")
        a = build(e[1], t, nv, bound, pure)
        return "unifex::sequence(k2::voided(%s), %s)" % (a, build(e[2], t, n, bound, pure))
    if k == "fin":
        n = t.new(up, "op", "finally")
        a = build(e[1], t, n, bound, pure)
        nv = t.new(n, "op", "then")
        return "unifex::finally(%s, k2::voided(%s))" % (a, build(e[2], t, nv, bound, pure))
    if k == "wall":
        n1 = t.new(up, "op", "then")
        n2 = t.new(n1, "op", "when_all")
        a = build(e[1], t, n2, bound, pure)
        return "k2::wall(%s, %s)" % (a, build(e[2], t, n2, bound, pure))
    if k == "swhen":
        n = t.new(up, "op", "stop_when")
        a = build(e[1], t, n, bound, pure)
        nv = t.new(n, "op", "then")
        return "unifex::stop_when(%s, k2::voided(%s))" % (a, build(e[2], t, nv, bound, pure))
    raise ValueError(k)


def tree_of(e, wait=False, pure=False):
    """wait: the expression runs under sync_wait: op 0 is the pseudo operation owning the initial frame"""
    if wait:
        t = Tree(first=0)
        w = t.new(None, "wait", "sync_wait")
        o = t.new(w, "op", "observe")        # k2as::observe: the harness's observing adaptor
        cpp = build(e, t, o, (), pure)
    else:
        t = Tree()
        cpp = build(e, t, None, (), pure)
    if pure:
        cpp = cpp.replace("k2::leaf{", "k2as::leaf{")
    return t, cpp


def emit_tu(cases, mode="plain", pure=False):
    src = ['#include "k2as.hpp"', ""]
    for i, e in enumerate(cases):
        _, cpp = tree_of(e, False, pure)
        fn = {"plain": "k2as::run_case", "wait": "k2as::run_case_sync_wait", "task": "k2as::run_case_task"}[mode]
        src.append("static std::string case_%d(bool pre, const std::vector<k2::script_ev>& s) {" % i)
        src.append("  return %s([] { return %s; }, pre, s);" % (fn, cpp))
        src.append("}")
    src.append("static k2::case_fn CASES[] = {%s};" % ", ".join("case_%d" % i for i in range(len(cases))))
    src.append("int main() { return k2::main_loop(CASES, %d, nullptr); }" % len(cases))
    return "\n".join(src) + "\n"


# ------------------------------------------------------------------------------------------ log parsing
class Obs:
    __slots__ = ("thread", "what", "id", "chain", "stack", "extra", "idx")


def parse_stack(s):
    """' Sr0:f0>f1 Cr5:f4!cache=r4' -> list innermost first of (kind, rtok, chain list or None, flagged)"""
    out = []
    for w in s.split():
        if w == "none":
            continue
        kind = w[0]
        rt, _, rest = w[1:].partition(":")
        flagged = "!cache" in rest
        ch = rest.split("!")[0]
        out.append((kind, rt, None if ch in ("?", "-") else ch.split(">"), flagged))
    return out


def parse_log(trace):
    """-> (plain K2 events, [Obs])"""
    body, _, tail = trace.partition(" # ")
    plain, obs = [], []
    for x in body.split(";"):
        m = re.match(r"as(?:@(\d+))? (\w+)(?: (\d+|value|error|done|before|after))?(?: chain=(\S+))? roots=(.*?)(?: trace=(\S+))?$", x)
        if m:
            o = Obs()
            o.thread = int(m.group(1) or 0); o.what = m.group(2); o.id = m.group(3)
            o.chain = None if m.group(4) in (None, "-") else m.group(4).split(">")
            o.stack = parse_stack(m.group(5)); o.extra = m.group(6); o.idx = len(obs)
            obs.append(o)
        elif x.startswith("as "):
            plain.append(("AS", x))
        elif x:
            plain.append(x)
    return plain, obs, tail


class Mismatch(Exception):
    pass


def reconstruct(t, obs, wait=False, nthreads=1):
    """rebuild the per-thread forests of brackets from consecutive snapshots.
    Returns (program strings per thread, [(tag, thread, observation)])."""
    progs = [[] for _ in range(nthreads)]          # node = [kind, op, extra, children]
    opens = [[] for _ in range(nthreads)]          # per thread: list of (key, node), base first
    tok2op = {}
    begun = set()
    completed = set()
    pending = {}                                   # thread -> (op, depth): a harness leaf announced its completion
    expected = []
    def body_of(th):
        return opens[th][-1][1][3] if opens[th] else progs[th]
    for o in obs:
        th = o.thread
        stack = list(reversed(o.stack))            # base first
        # 1. static chain check at a leaf's start / completion: the receiver's frame chain is the path to the root
        if o.what in ("start", "istart", "complete") and o.id is not None:
            op = t.leaf_op[int(o.id)] if o.what != "istart" else t.inl_op[int(o.id)]
            path = t.anc(op)
            ch = o.chain or []
            if len(ch) != len(path):
                raise Mismatch("chain-length: %s %s: frame chain %s has %d frames, the op tree path %s has %d" % (
                    o.what, o.id, ">".join(ch) or "-", len(ch), [t.label[x] for x in path], len(path)))
            if len(set(ch)) != len(ch):
                raise Mismatch("chain-cycle: %s %s: %s" % (o.what, o.id, ">".join(ch)))
            for tok, n in zip(ch, path):
                tok2op[tok] = n
        # 2. diff against the thread's open brackets (a bracket = root address + kind + top frame address)
        keys = [(k, rt, ch[0] if ch else None) for (k, rt, ch, fl) in stack]
        i = 0
        while i < len(opens[th]) and i < len(keys) and opens[th][i][0] == keys[i]:
            i += 1
        del opens[th][i:]
        nk = len(keys)
        # 3. resolve the new brackets jointly (depth first over the candidates of each completion bracket)
        def resolve(j, below, pend, beg):
            if j == nk:
                return []
            kind, rt, ch, flagged = stack[j]
            cands = []
            if kind == "E":
                cands = [("L", None)]
            elif wait and th == 0 and j == 0 and kind == "C":
                cands = [("W", 0)]
            elif kind == "S":
                # a flagged frame (it does not name this root any more: dead, its storage possibly reused) is not
                # identified by its address
                op = tok2op.get(ch[0]) if ch and not flagged else None
                parent_tok = ch[1] if ch and len(ch) > 1 else None
                if op is None or op in beg or (below is not None and below[0] in ("S", "W") and t.par.get(op) != below[1]):
                    # not on the observing leaf's path, or the address of an operation already started (storage
                    # reused): a library-internal inline sender, started from the context of the bracket below
                    ctx = None
                    if below is not None:
                        ctx = below[1] if below[0] in ("S", "W") else t.par.get(below[1])
                    cs = [c for c in t.children(ctx) if c not in beg] if ctx is not None else \
                         [c for c in sorted(t.par) if t.par[c] is None and c not in beg]
                    cs.sort(key=lambda c: (t.kind[c] != "J", c))
                    cands = [("S", c) for c in cs]
                else:
                    cands = [("S", op)]
            else:
                if pend is not None and pend[1] == j:
                    cands.append(("C", pend[0]))
                if below is not None and below[0] == "C" and t.par.get(below[1]) is not None and t.kind[t.par[below[1]]] != "wait":
                    cands.append(("C", t.par[below[1]]))
                if below is not None and below[0] == "S" and t.kind[below[1]] in ("inl", "J"):
                    cands.append(("C", below[1]))
                # when_all / stop_when complete from whichever context drops the last reference: a child's
                # completion (covered above) or the stop callback after it forwarded the stop request
                for n2 in sorted(begun):
                    if t.label[n2] in ("when_all", "stop_when") and n2 not in completed and ("C", n2) not in cands:
                        cands.append(("C", n2))
            for (k, n) in cands:
                if k == "C" and j == nk - 1 and ch:
                    p = t.par.get(n)
                    want = 1 + (len(t.anc(t.par.get(p))) if p is not None else 0)
                    if len(ch) != want:
                        continue
                if k == "S" and j == nk - 1 and ch and len(ch) != len(t.anc(n)):
                    continue
                rest = resolve(j + 1, (k, n), None if (k == "C" and pend is not None and pend[0] == n) else pend,
                               beg | {n} if k == "S" else beg)
                if rest is not None:
                    return [(k, n)] + rest
            return None
        below0 = tuple(opens[th][-1][1][:2]) if opens[th] else None
        sol = resolve(i, below0, pending.get(th), frozenset(begun))
        if sol is None:
            raise Mismatch("unresolved brackets at %s %s: stack %s, open %s" % (
                o.what, o.id, [(k, c[0] if c else None) for (k, r, c, f) in stack], [n[1][:2] for n in opens[th]]))
        for j, (k, n) in zip(range(i, nk), sol):
            node = [k, n, 1 if k == "W" else None, []]
            if k == "S":
                begun.add(n)
                if stack[j][2]: tok2op[stack[j][2][0]] = n
            if k == "W" and stack[j][2]:
                tok2op[stack[j][2][0]] = n
            if k == "C":
                completed.add(n)
                if th in pending and pending[th][0] == n:
                    pending.pop(th)
            body_of(th).append(node)
            opens[th].append((keys[j], node))
        if o.what == "complete":
            pending[th] = (t.leaf_op[int(o.id)], len(stack))
        body_of(th).append(["O", o.idx, None, []])
        if wait and o.what == "root":
            # the observing adaptor now forwards to sync_wait's receiver through its own wrapper: a completion
            # bracket of op 1 that contains no observation point (known from the adaptor's code: it always forwards)
            body_of(th).append(["C", 1, None, []])
        expected.append((o.idx, th, o))
    def show(node):
        k, a, b, ch = node
        if k == "O": return "(O %d)" % a
        head = {"S": "S %s" % a, "C": "C %s" % a, "W": "W %s %s" % (a, b), "L": "L"}[k]
        return "(" + " ".join([head] + [show(c) for c in ch]) + ")"
    return [" ".join(show(n) for n in p) for p in progs], expected


def canon_impl(o, wait=False):
    """canonical snapshot: the kinds of the roots, innermost first, and the innermost root's frame chain with
    frames renamed by position (its ancestors are alive, hence distinct)"""
    out = []
    n = len(o.stack)
    for idx, (kind, rt, ch, flagged) in enumerate(o.stack):
        if wait and o.thread == 0 and idx == n - 1 and kind == "C":
            kind = "S"
        if idx == 0 and ch is not None:
            names = {}
            out.append(kind + ":" + ">".join(str(names.setdefault(x, len(names))) for x in ch))
        else:
            out.append(kind)
    return " ".join(out) or "none"


def canon_model(snap, impl_o):
    out = []
    ws = [] if snap == "none" else snap.split()
    for idx, w in enumerate(ws):
        kind, _, ch = w.partition(":")
        ch = ch.split("!")[0]
        if idx == 0 and kind != "E":
            names = {}
            out.append(kind + ":" + ">".join(str(names.setdefault(x, len(names))) for x in ch.split(">")))
        else:
            out.append(kind)
    return " ".join(out) or "none"


def model_line(t, progs):
    n = max(t.par) + 1 if t.par else 0
    pars = ",".join("-" if t.par[i] is None else str(t.par[i]) for i in range(n))
    return "asyncstack %s | %s" % (pars, " ; ".join(progs))


def check_run(t, trace, wait=False, nthreads=1):
    """-> (verdict string '' = ok, info dict).  Direct monitors + model comparison for one implementation run."""
    plain, obs, tail = parse_log(trace)
    info = {"observations": len(obs)}
    end = [x for x in plain if isinstance(x, tuple) and x[1].startswith("as end")]
    if not end:
        return "monitor: no quiescence record", info
    for _, x in end:
        if "ROOT-NOT-RESTORED" in x or "FRAME-STILL-ACTIVE" in x:
            return "monitor: " + x, info
    for x in plain:
        if isinstance(x, str) and "ROOT-NOT-RESTORED" in x:
            return "monitor: " + x, info
    m = re.search(r"stalecache=(\d+)", end[-1][1])
    info["stalecache"] = int(m.group(1)) if m else -1
    # while idle (between script events) no root is installed on the driving thread
    for o in obs:
        if o.what == "idle" and o.stack and not (wait and o.thread == 0):
            return "monitor: roots installed while idle: %r" % (o.stack,), info
        for (kind, rt, ch, flagged) in o.stack:
            if ch and "LOOP" in ch:
                return "monitor: cyclic parent chain", info
    try:
        progs, expected = reconstruct(t, obs, wait, nthreads)
    except Mismatch as ex:
        return "shape: " + str(ex), info
    info["program"] = progs
    info["model_line"] = model_line(t, progs)
    info["expected"] = expected
    return "", info


def compare_with_model(info, mout, wait=False):
    body, _, tail = mout.partition(" # ")
    if mout.startswith("ERR"):
        return "model: " + mout[:200]
    snaps = {}
    for x in body.split(";"):
        m = re.match(r"obs (\d+) t(\d+) (.*)$", x)
        if m:
            snaps[int(m.group(1))] = (int(m.group(2)), m.group(3))
        elif x.startswith("ASSERT"):
            return "model: the reconstructed run fires an assert in the model: " + x
    for idx, th, o in info["expected"]:
        if idx not in snaps:
            return "model: observation %d (%s %s) not reached by the model (blocked: run not admissible)" % (idx, o.what, o.id)
        ci, cm = canon_impl(o, wait), canon_model(snaps[idx][1], o)
        if ci != cm:
            return "snapshot %d (%s %s): impl [%s] model [%s]" % (idx, o.what, o.id, ci, cm)
    m = re.search(r"failed=(\d) quiescent=(\d) cur=(\S+) live_roots=(\d+) acts=(\d+) deacts=(\d+) asserts=(\d+) stalecache=(\d+)", tail)
    if not m:
        return "model: no summary"
    if m.group(1) != "0" or m.group(2) != "1" or int(m.group(4)) != 0 or m.group(5) != m.group(6):
        return "model: final state " + tail
    info["model_acts"] = int(m.group(5))
    info["model_stalecache"] = int(m.group(8))
    return ""


# ------------------------------------------------------------------------------------------ async_trace (visitation builds)
def predicted_trace(t, op):
    """async_trace(receiver of leaf `op`) with continuation visitation: one entry per receiver from the leaf's
    to the root receiver: per operation on the path the wrapper receiver of inject_async_stack.hpp plus - for
    every non-leaf operation except unstoppable (which hands its receiver straight to with_query_value) - the
    adaptor's own receiver; plus the root receiver.  Returns (entries, max depth)."""
    path = t.anc(op)
    n = 1
    for i, x in enumerate(path):
        n += 1
        if i > 0 and t.label[x] != "unstoppable":
            n += 1
    return n, n - 1


def check_traces(t, obs):
    """-> '' or a verdict; only for runs whose final receiver is the harness's root receiver"""
    for o in obs:
        if o.what in ("start", "istart") and o.extra:
            op = t.leaf_op[int(o.id)] if o.what == "start" else t.inl_op[int(o.id)]
            n, d = predicted_trace(t, op)
            want = "%d/%d/root" % (n, d)
            if o.extra != want:
                culprit = [t.label[x] for x in t.anc(op) if t.label[x] in ("stop_when",)]
                return "trace%s: async_trace from leaf %s gives %s (entries/depth/reaches root receiver), expected %s for the path %s" % (
                    "/" + culprit[0] if culprit else "", o.id, o.extra, want, [t.label[x] for x in t.anc(op)])
    return ""


# ------------------------------------------------------------------------------------------ task<> case (monitors only)
TASK_SUFFIX = 7   # frames between the observing adaptor's operation and the end of the chain in run_case_task:
                  # 2 operations of task's await_transform (with_scheduler_affinity around the awaited sender),
                  # the task's frame (awaiter::frame_), connect_awaitable's sender_task promise frame, the two
                  # wrapper operations of connect(task, receiver), sync_wait's initial frame


def check_task_run(t, trace):
    """coroutine path (connect_awaitable / await_transform / task): direct monitors on the snapshots"""
    plain, obs, tail = parse_log(trace)
    info = {"observations": len(obs)}
    for x in plain:
        txt = x[1] if isinstance(x, tuple) else x
        if "ROOT-NOT-RESTORED" in txt or "FRAME-STILL-ACTIVE" in txt:
            return "monitor: " + txt, info
    if not any(isinstance(x, tuple) and x[1].startswith("as end") and x[1].endswith("ok") for x in plain):
        return "monitor: no clean quiescence record on thread 0", info
    if not any(isinstance(x, str) and x.startswith("as@1 end ok") for x in plain):
        return "monitor: no clean quiescence record on thread 1", info
    before = [o for o in obs if o.what == "coro" and o.id == "before"]
    if len(before) != 1 or not before[0].stack or before[0].stack[-1][0] != "C":
        return "shape: coroutine body did not start under sync_wait's initial root", info
    init_frame = before[0].stack[-1][2][0]
    coro_chain = before[0].stack[0][2]
    coro_root = before[0].stack[0][1]
    if coro_chain[-1] != init_frame:
        return "shape: the coroutine's frame chain %s does not end at sync_wait's frame %s" % (coro_chain, init_frame), info
    suffix = None
    for o in obs:
        if o.what in ("start", "istart", "complete"):
            op = t.leaf_op[int(o.id)] if o.what != "istart" else t.inl_op[int(o.id)]
            path = [x for x in t.anc(op) if t.kind[x] != "wait"]
            ch = o.chain or []
            if len(set(ch)) != len(ch):
                return "chain-cycle: %s" % ch, info
            if not ch or ch[-1] != init_frame:
                return "chain: leaf %s: chain %s does not reach sync_wait's frame %s" % (o.id, ch, init_frame), info
            if len(ch) != len(path) + TASK_SUFFIX:
                return "chain-length: leaf %s: %d frames, expected %d (+%d)" % (o.id, len(ch), len(path), TASK_SUFFIX), info
            sfx = ch[len(path):]
            if suffix is not None and sfx != suffix:
                return "chain: the frames above the awaited expression differ between leaves: %s vs %s" % (sfx, suffix), info
            suffix = sfx
            if sfx[-len(coro_chain):] != coro_chain:
                return "chain: leaf %s: chain does not pass through the coroutine's frames %s" % (o.id, coro_chain), info
        if o.what == "start" and o.thread == 0:
            # the awaiting coroutine is suspended: its root has no active frame (await_suspend deactivated it)
            rs = [x for x in o.stack if x[1] == coro_root]
            if not rs or rs[0][0] != "E":
                return "shape: the suspended coroutine's root still has an active frame at leaf start: %r" % (rs,), info
        if o.what == "coro" and o.id == "after":
            if o.thread != 0 or o.stack[-1][2] is None or o.stack[-1][2][0] != init_frame:
                return "shape: coroutine resumed outside sync_wait's root", info
            if o.stack[0][2] != coro_chain:
                return "shape: coroutine resumed with frame chain %s, had %s" % (o.stack[0][2], coro_chain), info
        if o.what == "idle" and o.stack:
            return "monitor: roots installed on the completer thread while idle", info
    info["suffix"] = suffix
    return "", info
