#!/usr/bin/env python3
"""Concurrency-safe helpers for shared files.
  tools/coqadd.py project <file.v> [<file.v> ...]      add .v files to coq/_CoqProject (before Extract.v)
  tools/coqadd.py extract <Coq.Module.Path> <name> [<name> ...]   add a Require + names to coq/Extract.v
"""
import sys, os, fcntl
V = os.path.dirname(os.path.dirname(os.path.abspath(__file__)))
def locked(fn):
    with open(os.path.join(V, ".lock"), "w") as lk:
        fcntl.flock(lk, fcntl.LOCK_EX)
        fn()
def project(files):
    p = os.path.join(V, "coq", "_CoqProject")
    lines = open(p).read().split("\n")
    lines = [l for l in lines if l.strip()]
    for f in files:
        if f not in lines:
            i = lines.index("Extract.v") if "Extract.v" in lines else len(lines)
            lines.insert(i, f)
    open(p, "w").write("\n".join(lines) + "\n")
def extract(mod, names):
    p = os.path.join(V, "coq", "Extract.v")
    s = open(p).read()
    req = "From V Require Import %s.\n" % mod
    if req not in s:
        s = s.replace("\nExtraction Blacklist", "\n" + req.rstrip("\n") + "\nExtraction Blacklist", 1) if "\n" + req not in s else s
    for n in names:
        if (" " + n + " ") not in s and (" " + n + "\n") not in s and (" " + n + ".") not in s:
            s = s.replace("\n  (*END*).", "\n  " + n + "\n  (*END*).", 1)
    open(p, "w").write(s)
if __name__ == "__main__":
    if sys.argv[1] == "project":
        locked(lambda: project(sys.argv[2:]))
    elif sys.argv[1] == "extract":
        locked(lambda: extract(sys.argv[2], sys.argv[3:]))
