#!/usr/bin/env python3
"""usage: tools/seedstore.py <ID> <wave-letter> <worktree> [check-id ...]
Stores the two changes a seed agent left in <worktree>/out/ as seeded/<ID><wave>-seed{1,2}/ (patch.diff, demo.cpp,
NOTES_agent.md, meta.json skeleton) and runs tools/seedtest.sh for each against the named checks (default: <ID>).
The `breaks` / `needs` fields of meta.json are filled in by hand afterwards."""
import sys, os, json, shutil, subprocess
V = os.path.dirname(os.path.dirname(os.path.abspath(__file__)))

def main():
    pid, wave, wt = sys.argv[1], sys.argv[2], sys.argv[3]
    seeds = [int(a[6:]) for a in sys.argv[4:] if a.startswith("seeds=")] or [1, 2]
    checks = [a for a in sys.argv[4:] if not a.startswith("seeds=")] or [pid]
    for n in seeds:
        src = os.path.join(wt, "out", "change%d.diff" % n)
        if not os.path.exists(src):
            print("missing", src); continue
        d = os.path.join(V, "seeded", "%s%s-seed%d" % (pid, wave, n))
        os.makedirs(d, exist_ok=True)
        shutil.copy(src, os.path.join(d, "patch.diff"))
        for ext in ("cpp",):
            demo = os.path.join(wt, "out", "demo%d.%s" % (n, ext))
            if os.path.exists(demo):
                shutil.copy(demo, os.path.join(d, "demo.cpp"))
        notes = os.path.join(wt, "out", "NOTES.md")
        if os.path.exists(notes):
            shutil.copy(notes, os.path.join(d, "NOTES_agent.md"))
        results = {}
        for c in checks:
            p = subprocess.run([os.path.join(V, "tools", "seedtest.sh"), os.path.join(d, "patch.diff"), c],
                               stdout=subprocess.PIPE, stderr=subprocess.STDOUT, text=True)
            results[c] = p.stdout.strip().splitlines()[-6:]
            print(d, c, "->", results[c][-1] if results[c] else "?")
        mp = os.path.join(d, "meta.json")
        meta = json.load(open(mp)) if os.path.exists(mp) else {
            "property": pid, "breaks": "", "needs": "", "caught_by": "",
            "agent_verified": "pinned suite passes with the change; demo fails with / passes without (seed agent in its own worktree, NOTES_agent.md)"}
        meta.setdefault("my_run", {})
        if not isinstance(meta["my_run"], dict):
            meta["my_run"] = {"note": meta["my_run"]}
        meta["my_run"].update({c: results[c] for c in checks})
        json.dump(meta, open(mp, "w"), indent=1)

if __name__ == "__main__":
    main()
