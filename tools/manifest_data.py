"""Single source for MANIFEST.json (tools/gen_manifest.py writes it)."""
TB = ("Coq 8.16.1 kernel, vm_compute only where stated, no native_compute; no axioms (Print Assumptions: closed) unless named; "
      "extraction with ExtrOcamlBasic only + ocaml/ glue; the C++ harness under /verif/harness; g++ 12.2. ")
PROPS = {
 "C01": {
  "claimed": True,
  "drivers": [("k1_when_all", "shim17")],
  "technique": "Coq proof (inductive invariant over all schedules, parametric n) of the RefElect election model + K1 lock-step correspondence with the real when_all under a schedule-controlling shim",
  "text": ("PARTIAL. Theorems (all numbers of children, all interleavings, any schedule length): the reference-count election used by the "
           "concurrent combinators completes the receiver at most once, exactly once when all children have finished and no stop callback is in "
           "flight, never before every child finished, with the documented result. Tie: every schedule with <=2 (quick) / <=3 (thorough) "
           "pre-emptions plus seeded random schedules of the real when_all (1-4 children, every outcome combination, racing/pre-start stop) is "
           "replayed step by step on the extracted model (each shared access incl. memory order). Sequential and nested composition: "
           "theorems over the Calc model for ALL expressions and scripts (at most one completion, none lost while no leaf is running, silence after completion), "
           "tied by the K2 program differential."),
  "note": TB + "Sequential consistency assumed (the shim serialises threads). Stop-source internals belong to C03's model. Schedulers/timers/io completions are C06/C07/C14.",
  "design_ref": "5/C01",
 },
 "C04": {
  "claimed": True, "drivers": [],
  "technique": "Coq proof by induction on sender expressions over the Calc operational model (all scripts, all stop positions) + K2 program differential with the real algorithms",
  "text": ("Theorems for ALL expressions over the modelled algorithm set (just*/then/upon_*/let_*/sequence/finally/when_all/stop_when/with_query_value/"
           "unstoppable/materialize/done_as_optional over asynchronous and stop-reactive leaves) and ALL event scripts with the stop request at any position "
           "(incl. before start): the request reaches every running connected leaf exactly once, children started later start stopped, losers of "
           "when_all/stop_when are stopped, the composite completes during the request iff all its leaves completed, and no stop callback is registered "
           "on the receiver's token at completion (refuted for stop_when as written before the fix). Tie: generated expressions x scripts run on the real "
           "library, traces equal to the extracted model event by event. Races (stop vs last child on another thread) are decided by the E1 models of C01/C03/C19."),
  "note": TB + "take_until/stop_immediately/when_any/let_value_with_stop_source/task/future are not in the Calc model (C13/C10/C09 units).",
  "design_ref": "5/C04",
 },
 "C05": {
  "claimed": True, "drivers": [],
  "technique": "Coq proof: operational Calc machine = independent time-stamped denotational specification (all expressions, all stop-free scripts) + K2 program differential",
  "text": ("Theorem C05_calc_result/timing: for ALL expressions without stop-reactive leaves and ALL stop-free scripts (every assignment of leaf outcomes, "
           "every completion order, duplicates, unknown ids, every position of a throwing callable) the root completes iff, when, and with exactly the outcome "
           "the compositional denotation written from the documentation prescribes. Tie: the same machine is compared event by event with the real library "
           "on generated expressions x scripts (K2)."),
  "note": TB + "when_any, retry_when, repeat_effect_until, into_variant, variant_sender, defer/just_from, via/on, sync_wait are not in the Calc model yet; values are ints.",
  "design_ref": "5/C05",
 },
 "C11": {
  "claimed": True, "drivers": [],
  "technique": "Coq proof of soundness of Gallina mirrors of the headers' trait formulas against the Calc machine + comparison of the mirrors with the compiled sender_traits",
  "text": ("PARTIAL (static-traits half). Theorems for ALL expressions: a sender whose mirrored traits say sends_done=false never completes with done (any script, "
           "any stop); blocking always_inline/always completes inside start(); never does not. Tie: for every generated expression the three compile-time "
           "traits and run-time blocking() printed by the compiled program equal the mirrors. Completion contexts (via/on/affinity, task) are not modelled."),
  "note": TB + "Execution contexts are outside the Calc model: the first sentence of C11 (via/on/affine senders/task resume context) is not decided here.",
  "design_ref": "5/C11",
 },
 "C12": {
  "claimed": True, "drivers": [],
  "technique": "Coq proof by induction on expressions (env threading invariant) + K2 program differential in which every leaf logs what its receiver answers",
  "text": ("PARTIAL. Theorem for ALL expressions and scripts: every leaf observes exactly the query answers obtained by folding the documented overrides along its "
           "path (innermost with_query_value wins; unstoppable / the algorithms' own stop sources decide stop_possible). Tie: K2. get_scheduler/get_allocator, "
           "type-erased wrappers' declared query sets and allocate()/spawn allocator symmetry are not in the model yet."),
  "note": TB + "Only the stop token and two user-defined query CPOs are modelled.",
  "design_ref": "5/C12",
 },
 "C17": {
  "claimed": True,
  "drivers": [("k3_c17", "plain17")],
  "technique": "Coq proof (lia/nia, induction) of FindIfDefs model + K3 differential correspondence with the compiled find_if/bulk_schedule",
  "text": ("Theorems for every range length n (unbounded Z): find_if's chunks partition [0,n), the predicate is evaluated only inside the "
           "range, at most once per element, and the result is the least match or end (seq and par); bulk_schedule's loop visits 0..m-1 "
           "once each in order, all of them before value, a multiple of 16 before done. Tie: the extracted model and the real code agree on "
           "the exact visit sequence for every n up to 420 (quick) / 2100 (thorough) with boundary-aimed match positions, all four policies "
           "and every stop block."),
  "note": TB + "Modelled, not verified: iterator arithmetic as Z offsets (diff_t overflow outside the model); visit order on a multi-threaded pool is not compared (result and range containment only).",
  "design_ref": "5/C17",
 },
}
NOT_YET = {
}
