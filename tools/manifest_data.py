"""Single source for MANIFEST.json (tools/gen_manifest.py writes it)."""
TB = ("Coq 8.16.1 kernel, vm_compute only where stated, no native_compute; no axioms (Print Assumptions: closed) unless named; "
      "extraction with ExtrOcamlBasic only + ocaml/ glue; the C++ harness under /verif/harness; g++ 12.2. ")
PROPS = {
 "C01": {
  "claimed": True,
  "drivers": [("k1_when_all", "shim17")],
  "technique": "Coq proof (inductive invariant over all schedules, parametric n) of the RefElect election model + K1 lock-step correspondence with the real when_all under a schedule-controlling shim",
  "text": ("PARTIAL. Theorems (all numbers of children, all interleavings, any schedule length): the reference-count election used by the "
           "concurrent combinators completes the receiver at most once, exactly once when all children have finished and no stop callback is in "
           "flight, never before every child finished, with the documented result. Tie: every schedule with <=2 (quick) / <=3 (thorough) "
           "pre-emptions plus seeded random schedules of the real when_all (1-4 children, every outcome combination, racing/pre-start stop) is "
           "replayed step by step on the extracted model (each shared access incl. memory order). Sequential composition (then/let_*/sequence/"
           "finally/...) is not yet inside a Coq model; see DESIGN section 10."),
  "note": TB + "Sequential consistency assumed (the shim serialises threads). Stop-source internals belong to C03's model. Schedulers/timers/io completions are C06/C07/C14.",
  "design_ref": "5/C01",
 },
 "C17": {
  "claimed": True,
  "drivers": [("k3_c17", "plain17")],
  "technique": "Coq proof (lia/nia, induction) of FindIfDefs model + K3 differential correspondence with the compiled find_if/bulk_schedule",
  "text": ("Theorems for every range length n (unbounded Z): find_if's chunks partition [0,n), the predicate is evaluated only inside the "
           "range, at most once per element, and the result is the least match or end (seq and par); bulk_schedule's loop visits 0..m-1 "
           "once each in order, all of them before value, a multiple of 16 before done. Tie: the extracted model and the real code agree on "
           "the exact visit sequence for every n up to 420 (quick) / 2100 (thorough) with boundary-aimed match positions, all four policies "
           "and every stop block."),
  "note": TB + "Modelled, not verified: iterator arithmetic as Z offsets (diff_t overflow outside the model); visit order on a multi-threaded pool is not compared (result and range containment only).",
  "design_ref": "5/C17",
 },
}
NOT_YET = {
}
