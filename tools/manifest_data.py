"""Single source for MANIFEST.json (tools/gen_manifest.py writes it)."""
TB = ("Coq 8.16.1 kernel, vm_compute only where stated, no native_compute; no axioms (Print Assumptions: closed) unless named; "
      "extraction with ExtrOcamlBasic only + ocaml/ glue; the C++ harness under /verif/harness; g++ 12.2. ")
PROPS = {
 "C01": {
  "claimed": True,
  "drivers": [("k1_when_all", "shim17")],
  "technique": "Coq proof (inductive invariant over all schedules, parametric n) of the RefElect election model + K1 lock-step correspondence with the real when_all under a schedule-controlling shim",
  "text": ("PARTIAL. Theorems (all numbers of children, all interleavings, any schedule length): the reference-count election used by the "
           "concurrent combinators completes the receiver at most once, exactly once when all children have finished and no stop callback is in "
           "flight, never before every child finished, with the documented result. Tie: every schedule with <=2 (quick) / <=3 (thorough) "
           "pre-emptions plus seeded random schedules of the real when_all (1-4 children, every outcome combination, racing/pre-start stop) is "
           "replayed step by step on the extracted model (each shared access incl. memory order). Sequential and nested composition: "
           "theorems over the Calc model for ALL expressions and scripts (at most one completion, none lost while no leaf is running, silence after completion), "
           "tied by the K2 program differential."),
  "note": TB + "Sequential consistency assumed (the shim serialises threads). Stop-source internals belong to C03's model. Schedulers/timers/io completions are C06/C07/C14.",
  "design_ref": "5/C01",
 },
 "C04": {
  "claimed": True, "drivers": [],
  "technique": "Coq proof by induction on sender expressions over the Calc operational model (all scripts, all stop positions) + K2 program differential with the real algorithms",
  "text": ("Theorems for ALL expressions over the modelled algorithm set (just*/then/upon_*/let_*/sequence/finally/when_all/stop_when/with_query_value/"
           "unstoppable/materialize/done_as_optional over asynchronous and stop-reactive leaves) and ALL event scripts with the stop request at any position "
           "(incl. before start): the request reaches every running connected leaf exactly once, children started later start stopped, losers of "
           "when_all/stop_when are stopped, the composite completes during the request iff all its leaves completed, and no stop callback is registered "
           "on the receiver's token at completion (refuted for stop_when as written before the fix). Tie: generated expressions x scripts run on the real "
           "library, traces equal to the extracted model event by event. Races (stop vs last child on another thread) are decided by the E1 models of C01/C03/C19."),
  "note": TB + "take_until/stop_immediately/when_any/let_value_with_stop_source/task/future are not in the Calc model (C13/C10/C09 units).",
  "design_ref": "5/C04",
 },
 "C05": {
  "claimed": True, "drivers": [],
  "technique": "Coq proof: operational Calc machine = independent time-stamped denotational specification (all expressions, all stop-free scripts) + K2 program differential",
  "text": ("Theorem C05_calc_result/timing: for ALL expressions without stop-reactive leaves and ALL stop-free scripts (every assignment of leaf outcomes, "
           "every completion order, duplicates, unknown ids, every position of a throwing callable) the root completes iff, when, and with exactly the outcome "
           "the compositional denotation written from the documentation prescribes. Tie: the same machine is compared event by event with the real library "
           "on generated expressions x scripts (K2)."),
  "note": TB + "when_any, retry_when, repeat_effect_until, into_variant, variant_sender, defer/just_from, via/on, sync_wait are not in the Calc model yet; values are ints.",
  "design_ref": "5/C05",
 },
 "C08": {
  "claimed": True, "drivers": [],
  "technique": "Coq proof (inductive invariants over all schedules, parametric numbers of references and closers) of the Scope counter model + K1 lock-step correspondence with the real v2/v1/v0 async_scope",
  "text": ("Theorems for ALL numbers of scope references (started / detached / dropped), ALL closer/joiner programs (join, cleanup = close+stop+close, racing joins) and ALL schedules: "
           "the join event is set only when the scope is closed and no admitted reference is outstanding, and is set once that holds; each join completes exactly once; admission "
           "is linearised against the close (admitted work is counted until released, work after the close never starts); no deadlock; after the event is set nobody is still "
           "about to touch the scope (refuted for the code as written before the fix f42cb90, with witness schedules). Tie: every schedule with <=2/<=3 pre-emptions plus random "
           "ones of the real v2, v1 (spawn_detached/attach/cleanup/request_stop) and v0 scopes replayed step by step on the extracted model; direct monitors incl. stop delivery."),
  "note": TB + "Sequential consistency assumed. The manual-reset event inside the scope is abstract here (its internals: C16); v1 attach's election and spawn_future are C01/C09. Stop delivery to outstanding work is monitored, not a theorem.",
  "design_ref": "5/C08",
 },
 "C09": {
  "claimed": True, "drivers": [],
  "technique": "Coq proof by exhaustive reachable-set closure computed and checked inside Coq for every parameter tuple (finite state space, all schedules of any length) + K1 lock-step with the real spawn_future",
  "text": ("Theorems for EVERY schedule (any length), every operation outcome (value/error/done), the throwing value store, and every future program (drop, await, await+stop, connect-then-drop): "
           "shared state deleted at most once and exactly once at quiescence; the stored result destroyed once and the member destroyed is the member constructed; the future's result is the "
           "operation's or done iff abandoned first; drop/cancel requests stop on the operation; no step touches freed state. The reachable set of the (finite) model is computed in Coq "
           "and proved closed under every thread's step, so the claim is unbounded in schedule length. Three refuted theorems document the defects of the code as written (fixed in /repo). "
           "Tie: all schedules with <=2/<=3 pre-emptions + random of the real spawn_future in a v2 scope, tracked values, poisoning allocator."),
  "note": TB + "Sequential consistency. v1-scope programs and throwing allocation/connect are monitored only; spawn_detached's terminate-on-error is not driven; a throwing nest() is not exercised.",
  "design_ref": "5/C09",
 },
 "C16": {
  "claimed": True, "drivers": [],
  "technique": "Coq proof (pointer-level model of the v1 event word and next_ chain, auto-reset event on top; invariants over all programs and schedules) + K1 lock-step with the real code",
  "text": ("PARTIAL. Theorems for ALL thread programs over set/reset/ready/wait (any number of waiters) and ALL schedules: each waiter resumed at most once; resumed iff it observed "
           "'signalled' or a set took the stack while it was on it; no stranded wait at quiescence; reset only affects later waits; auto-reset: each set consumed by at most one next, "
           "done is absorbing, a single consumer gets done only after set_done. Tie: K1 lock-step on the real v1 event and auto-reset event. The cancellable v2 event is exercised with "
           "direct monitors only (no Coq model yet)."),
  "note": TB + "Sequential consistency. v2 event: monitor only. Findings in cancellable/atomic_intrusive_list surfaced by the v2 lifetime monitor are listed in KNOWN_FINDINGS.txt (see C19/C15).",
  "design_ref": "5/C16",
 },
 "C11": {
  "claimed": True, "drivers": [],
  "technique": "Coq proof of soundness of Gallina mirrors of the headers' trait formulas against the Calc machine + comparison of the mirrors with the compiled sender_traits",
  "text": ("PARTIAL (static-traits half). Theorems for ALL expressions: a sender whose mirrored traits say sends_done=false never completes with done (any script, "
           "any stop); blocking always_inline/always completes inside start(); never does not. Tie: for every generated expression the three compile-time "
           "traits and run-time blocking() printed by the compiled program equal the mirrors. Completion contexts (via/on/affinity, task) are not modelled."),
  "note": TB + "Execution contexts are outside the Calc model: the first sentence of C11 (via/on/affine senders/task resume context) is not decided here.",
  "design_ref": "5/C11",
 },
 "C12": {
  "claimed": True, "drivers": [],
  "technique": "Coq proof by induction on expressions (env threading invariant) + K2 program differential in which every leaf logs what its receiver answers",
  "text": ("PARTIAL. Theorem for ALL expressions and scripts: every leaf observes exactly the query answers obtained by folding the documented overrides along its "
           "path (innermost with_query_value wins; unstoppable / the algorithms' own stop sources decide stop_possible). Tie: K2. get_scheduler/get_allocator, "
           "type-erased wrappers' declared query sets and allocate()/spawn allocator symmetry are not in the model yet."),
  "note": TB + "Only the stop token and two user-defined query CPOs are modelled.",
  "design_ref": "5/C12",
 },
 "C17": {
  "claimed": True,
  "drivers": [("k3_c17", "plain17")],
  "technique": "Coq proof (lia/nia, induction) of FindIfDefs model + K3 differential correspondence with the compiled find_if/bulk_schedule",
  "text": ("Theorems for every range length n (unbounded Z): find_if's chunks partition [0,n), the predicate is evaluated only inside the "
           "range, at most once per element, and the result is the least match or end (seq and par); bulk_schedule's loop visits 0..m-1 "
           "once each in order, all of them before value, a multiple of 16 before done. Tie: the extracted model and the real code agree on "
           "the exact visit sequence for every n up to 420 (quick) / 2100 (thorough) with boundary-aimed match positions, all four policies "
           "and every stop block."),
  "note": TB + "Modelled, not verified: iterator arithmetic as Z offsets (diff_t overflow outside the model); visit order on a multi-threaded pool is not compared (result and range containment only).",
  "design_ref": "5/C17",
 },
}
NOT_YET = {
}
