"""Single source for MANIFEST.json (tools/gen_manifest.py writes it)."""
TB = ("Coq 8.16.1 kernel, vm_compute only where stated, no native_compute; no axioms (Print Assumptions: closed) unless named; "
      "extraction with ExtrOcamlBasic only + ocaml/ glue; the C++ harness under /verif/harness; g++ 12.2. ")
PROPS = {
 "C01": {
  "claimed": True,
  "drivers": [("k1_when_all", "shim17")],
  "technique": "Coq proof (inductive invariant over all schedules, parametric n) of the RefElect election model + K1 lock-step correspondence with the real when_all under a schedule-controlling shim",
  "text": ("PARTIAL. Theorems (all numbers of children, all interleavings, any schedule length): the reference-count election used by the "
           "concurrent combinators completes the receiver at most once, exactly once when all children have finished and no stop callback is in "
           "flight, never before every child finished, with the documented result. Tie: every schedule with <=2 (quick) / <=3 (thorough) "
           "pre-emptions plus seeded random schedules of the real when_all (1-4 children, every outcome combination, racing/pre-start stop) is "
           "replayed step by step on the extracted model (each shared access incl. memory order). Sequential and nested composition: "
           "theorems over the Calc model for ALL expressions and scripts (at most one completion, none lost while no leaf is running, silence after completion), "
           "tied by the K2 program differential."
           "Second-generation model Calc2 (adds operation-state lifetimes, execution contexts and schedulers, via/on/with_scheduler_affinity, let_value_with_stop_source, stop_if_requested, repeat_effect_until, retry_when, when_any, into_variant, values whose copy throws): the corresponding theorems are re-proved over it (Properties_<id>_calc2.v) and tied by the K2v2 differential."),
  "note": TB + "Sequential consistency assumed (the shim serialises threads). Stop-source internals belong to C03's model. Schedulers/timers/io completions are C06/C07/C14.",
  "design_ref": "5/C01",
 },
 "C02": {
  "claimed": True, "drivers": [],
  "technique": "Coq proof over the second-generation sender calculus Calc2 with explicit operation-state lifetimes (life-cycle automata per leaf instance, one mutual induction over start/stop/leafev) + K2v2 program differential in which every leaf operation state logs its destruction; E1 'freed'-flag theorems for the self-owning heap operations live in C09/C19/C13",
  "text": ("PARTIAL. Theorems for ALL expressions over the Calc2 algorithm set (Calc + schedulers, via/on, let_value_with_stop_source, stop_if_requested, repeat_effect_until, retry_when, "
           "when_any, into_variant) and ALL scripts: no operation state is destroyed while its operation is running; each started instance (including every re-start by repeat/retry) is destroyed "
           "exactly once, strictly alternating with its starts; nothing touches an instance after its destruction; when the root has completed and been destroyed every started instance "
           "has been destroyed (nothing leaked); after the root's completion only destruction events follow. Tie: generated expressions x scripts on the real library with logging leaf "
           "op-states in poisoned storage; direct life-cycle monitor on the implementation trace. NOT in the model: lifetimes of stored values/callables/receivers, throwing copies / connect / "
           "allocation (callable throws are); those are covered only where a unit monitors them (C09, C18)."),
  "note": TB + "Stop-callback order inside one cascade is compared batch-wise (multiset + per-leaf order). thread_unsafe_event_loop's uninitialised links are C07's finding.",
  "design_ref": "5/C02",
 },
 "C03": {
  "claimed": True, "drivers": [],
  "technique": "Coq proof (inductive invariant, frames-per-thread model of inplace_stop_source with re-entrant callback bodies; all programs, all schedules) + K1 lock-step with the real inplace_stop_token.cpp, fused_stop_source and token adapter",
  "text": ("Theorems for ARBITRARY numbers of threads and callbacks, arbitrary thread programs over register/deregister/request_stop/stop_requested with callback bodies that are programs "
           "themselves (self-deregistration, deregistering another callback, nested request_stop), and ALL schedules: exactly one request_stop is first; stop never reverts; each callback "
           "runs at most once, and runs iff popped by the stop or registered after it (inline on the registering thread); after a deregistration returns nothing touches the callback and it is "
           "not running elsewhere; deregistration on the notifying thread never blocks; destroyed callbacks are unreachable; deadlock-freedom. Tie: all schedules <=2/<=3 pre-emptions + random "
           "of the real code (single source, fused source, adapter: each source projected onto the model) replayed step by step at lock granularity, every memory order compared."),
  "note": TB + "Sequential consistency assumed (weak-memory behaviour of the annotated orders is compared syntactically only). The composition corollary for chains of adapters is informal.",
  "design_ref": "5/C03",
 },
 "C04": {
  "claimed": True, "drivers": [],
  "technique": "Coq proof by induction on sender expressions over the Calc operational model (all scripts, all stop positions) + K2 program differential with the real algorithms",
  "text": ("Theorems for ALL expressions over the modelled algorithm set (just*/then/upon_*/let_*/sequence/finally/when_all/stop_when/with_query_value/"
           "unstoppable/materialize/done_as_optional over asynchronous and stop-reactive leaves) and ALL event scripts with the stop request at any position "
           "(incl. before start): the request reaches every running connected leaf exactly once, children started later start stopped, losers of "
           "when_all/stop_when are stopped, the composite completes during the request iff all its leaves completed, and no stop callback is registered "
           "on the receiver's token at completion (refuted for stop_when as written before the fix). Tie: generated expressions x scripts run on the real "
           "library, traces equal to the extracted model event by event. Races (stop vs last child on another thread) are decided by the E1 models of C01/C03/C19."
           "Second-generation model Calc2 (adds operation-state lifetimes, execution contexts and schedulers, via/on/with_scheduler_affinity, let_value_with_stop_source, stop_if_requested, repeat_effect_until, retry_when, when_any, into_variant, values whose copy throws): the corresponding theorems are re-proved over it (Properties_<id>_calc2.v) and tied by the K2v2 differential. Calc2 adds: stop through let_value_with_stop_source's own source, a leaf-requested stop reaching the leaves under that source, when_any's first finisher stopping the other."),
  "note": TB + "take_until/stop_immediately/when_any/let_value_with_stop_source/task/future are not in the Calc model (C13/C10/C09 units).",
  "design_ref": "5/C04",
 },
 "C05": {
  "claimed": True, "drivers": [],
  "technique": "Coq proof: operational Calc machine = independent time-stamped denotational specification (all expressions, all stop-free scripts) + K2 program differential",
  "text": ("Theorem C05_calc_result/timing: for ALL expressions without stop-reactive leaves and ALL stop-free scripts (every assignment of leaf outcomes, "
           "every completion order, duplicates, unknown ids, every position of a throwing callable) the root completes iff, when, and with exactly the outcome "
           "the compositional denotation written from the documentation prescribes. Tie: the same machine is compared event by event with the real library "
           "on generated expressions x scripts (K2)."
           "Calc2 REFINES Calc on the common fragment (theorem C05_calc2_refines_calc: erasing lifetime/context events from the Calc2 run of the embedded expression gives exactly the Calc run, for ALL expressions and scripts), so the denotation theorem holds for the second-generation machine too (C05_calc2_result). Calc2 (tie + theorem thrown_store_is_error): a value whose copy throws when an algorithm stores it (finally, let_value, when_all, when_any, done_as_optional) surfaces as set_error at that node and finally's completion sender still runs."),
  "note": TB + "when_any, retry_when, repeat_effect_until, into_variant, variant_sender, defer/just_from, via/on, sync_wait are not in the Calc model yet; values are ints.",
  "design_ref": "5/C05",
 },
 "C06": {
  "claimed": True, "drivers": [],
  "technique": "Coq proofs (inductive invariants over all schedules; parametric numbers of producers/items/workers; recursive evaluator for the trampoline) + K1 lock-step with the real manual_event_loop/single_thread_context, atomic_intrusive_queue, static_thread_pool, new_thread_context under mutex/condvar/thread shims, K3 differential for trampoline_scheduler",
  "text": ("Theorems for ALL numbers of producers, items, workers, ALL schedules including spurious wake-ups: every item is executed at most once, exactly once at the end, on the worker thread, "
           "in FIFO order of the enqueue critical sections (single-threaded loop); items accepted before stop() are always run; no lost wake-up (a waiting worker implies an empty queue or a "
           "pending notify); run() returns only if stopped and empty; done instead of value iff stop was requested first; the atomic queue loses and duplicates nothing and tells exactly one "
           "producer to wake the consumer; the thread pool's pop returns null only if empty and stopped; new_thread_context's destructor waits for every thread; the trampoline never nests "
           "deeper than its depth and runs every deferred item exactly once before the outermost start() returns (all depths, all operation trees). Thread-pool join progress is PARTIAL "
           "(safety half proved). Tie: K1 lock-step incl. every mutex/condvar operation; 572 trampoline programs compared exactly."),
  "note": TB + "OS thread creation/join and std::mutex/condition_variable semantics are modelled (lock + wait-set with spurious wake-ups), not verified. inline_scheduler/any_scheduler/schedule_with_subscheduler not covered; timed loops are C07.",
  "design_ref": "5/C06",
 },
 "C07": {
  "claimed": True, "drivers": [],
  "technique": "Coq proofs: exact integer arithmetic of time_point (lia/nia over Z), stable sorted insertion (induction), TimerQueue interleaving model with a virtual clock (invariants over all schedules) + K3 function differential and K1 lock-step with the real timed_single_thread_context / thread_unsafe_event_loop",
  "text": ("PARTIAL (io_epoll/io_uring timers use the kernel clock and are not covered). Theorems: time_point normalisation is canonical and value-preserving for all integers, comparison is a strict total "
           "order agreeing with the exact value, +/- a duration are exact inverses, the difference is the truncated exact difference (after the fix); the timer list insertion is a stable sort; "
           "for ALL numbers of timers, due times, stop requests and schedules including clock advances: no timer fires before its original due time, the timer thread takes only the due head, "
           "ties fire in submission order, a cancelled timer becomes due at once, each started timer completes exactly once and is unlinked afterwards, no lost wake-up. "
           "Tie: 9.7k boundary-aimed arithmetic/heap cases compared exactly; lock-step of the real contexts under a virtual clock."),
  "note": TB + "int64 overflow is outside the arithmetic model. Kernel-clock contexts are not modelled. thread_unsafe_event_loop has sorted order but no FIFO-ties theorem.",
  "design_ref": "5/C07",
 },
 "C08": {
  "claimed": True, "drivers": [],
  "technique": "Coq proof (inductive invariants over all schedules, parametric numbers of references and closers) of the Scope counter model + K1 lock-step correspondence with the real v2/v1/v0 async_scope",
  "text": ("Theorems for ALL numbers of scope references (started / detached / dropped), ALL closer/joiner programs (join, cleanup = close+stop+close, racing joins) and ALL schedules: "
           "the join event is set only when the scope is closed and no admitted reference is outstanding, and is set once that holds; each join completes exactly once; admission "
           "is linearised against the close (admitted work is counted until released, work after the close never starts); no deadlock; after the event is set nobody is still "
           "about to touch the scope (refuted for the code as written before the fix f42cb90, with witness schedules). Tie: every schedule with <=2/<=3 pre-emptions plus random "
           "ones of the real v2, v1 (spawn_detached/attach/cleanup/request_stop) and v0 scopes replayed step by step on the extracted model; direct monitors incl. stop delivery."),
  "note": TB + "Sequential consistency assumed. The manual-reset event inside the scope is abstract here (its internals: C16); v1 attach's election and spawn_future are C01/C09. Stop delivery to outstanding work is monitored, not a theorem.",
  "design_ref": "5/C08",
 },
 "C09": {
  "claimed": True, "drivers": [],
  "technique": "Coq proof by exhaustive reachable-set closure computed and checked inside Coq for every parameter tuple (finite state space, all schedules of any length) + K1 lock-step with the real spawn_future",
  "text": ("Theorems for EVERY schedule (any length), every operation outcome (value/error/done), the throwing value store, and every future program (drop, await, await+stop, connect-then-drop): "
           "shared state deleted at most once and exactly once at quiescence; the stored result destroyed once and the member destroyed is the member constructed; the future's result is the "
           "operation's or done iff abandoned first; drop/cancel requests stop on the operation; no step touches freed state. The reachable set of the (finite) model is computed in Coq "
           "and proved closed under every thread's step, so the claim is unbounded in schedule length. Three refuted theorems document the defects of the code as written (fixed in /repo). "
           "Tie: all schedules with <=2/<=3 pre-emptions + random of the real spawn_future in a v2 scope, tracked values, poisoning allocator."),
  "note": TB + "Sequential consistency. v1-scope programs and throwing allocation/connect are monitored only; spawn_detached's terminate-on-error is not driven; a throwing nest() is not exercised.",
  "design_ref": "5/C09",
 },
 "C13": {
  "claimed": True, "drivers": [],
  "technique": "Coq proof over a stream-pipeline calculus (per-adaptor next/cleanup/stop machines, independent element denotation, executable per-source monitor proved to accept every model trace) + K2-stream differential with the real stream adaptors over scripted sources with tracked operation states",
  "text": ("Theorems for ALL pipelines over range/single/scripted/never sources with transform, filter, take_until, stop_immediately, type_erase and reduce/for_each consumers, ALL source "
           "lengths, element values, error positions and ALL scripts incl. stop at any point: the elements fed to the consumer are a prefix of (and without stop_immediately/never exactly) "
           "the adaptor's denotation; the result is the fold over precisely those; every source's cleanup starts at most once, only after a next was started and all started nexts completed, "
           "and completes before the consumer's result; at most one result; no use after destroy in the model of the current code (four refuted theorems document the code as written before "
           "the fixes). Tie: generated pipelines x scripts on the real adaptors, event by event, plus op-state lifetime monitors. The internal races of take_until / stop_immediately / "
           "type_erased_stream are a separate E1 unit (in progress)."),
  "note": TB + "on_stream/via_stream/delay/adapt variants are not in the model. reduce_stream has sends_done=false: after a stop the root is the partial fold as a value (stated as such).",
  "design_ref": "5/C13",
 },
 "C14": {
  "claimed": True, "drivers": [],
  "technique": "Coq proofs: RemoteQueue (hand-written invariants, parametric producers/items/stoppers), IoCancel and UringOp (reachable-set closure certificates over a finite core for every parameter value, all stopper counts) + K1 lock-step with the real io_epoll_context on real pipes/eventfds through logging syscall pass-throughs; io_uring by real-thread monitors",
  "text": ("PARTIAL (kernel behaviour is assumed as modelled). Theorems for ALL schedules: remote work is never lost (blocked loop implies empty queue or a producer about to signal), each item runs exactly once "
           "in order on the I/O thread, run() returns only after stop and after everything enqueued before; one epoll read/write completes at most once, completes unless legitimately parked, with "
           "value iff the transfer happened / the OS error / done iff stopped without transfer, leaves no kernel registration, queued item or live callback at completion, and nothing touches it "
           "afterwards (six refuted theorems document the code before the three epoll fixes); the io_uring operation's election, single callback registration and clean completion. "
           "Tie: lock-step on the real epoll context (RemoteQueue 14k schedules, IoCancel 27k) with the kernel-side registration set visible in the trace; byte streams intact and fd counts equal "
           "for buffer sizes below/at/above pipe capacity; io_uring: real-thread runs with monitors (no schedule control)."),
  "note": TB + "Kernel (epoll, eventfd, io_uring, pipes) assumed as modelled. Two io_uring findings are known findings (pre-stopped operation not cancelled; transferred bytes reported as done). Timers of these contexts use the kernel clock and are not covered (C07).",
  "design_ref": "5/C14",
 },
 "C15": {
  "claimed": True, "drivers": [],
  "technique": "Coq proof (inductive invariants over all numbers of lockers and all schedules; v1 at pointer level over atomic_intrusive_queue, v2 over a two-phase abstract waiter list + cancellable bits + Dekker guard) + K1 lock-step with the real v1/v2 async_mutex",
  "text": ("Theorems for ALL numbers of lockers/try_lockers/stoppers and ALL schedules: at most one holder, acquire and release alternate; waiters are exactly stack ++ pending, each resumed at most "
           "once and all served at quiescence; v1 grants in the order of the successful enqueue CASes; no deadlock, bounded steps (v1); v2: tokens = locked (lock never leaked — refuted for the "
           "code before the completion_forwarder fix, with witness), a cancelled waiter never owns the lock, FIFO over claims minus removed, the Dekker guard (unlocked with a waiter queued "
           "implies some thread is about to re-examine), no deadlock. Tie: every schedule with <=2/<=3 pre-emptions + random of the real mutexes replayed step by step."),
  "note": TB + "Sequential consistency (the Dekker fences are compared syntactically). The link-level atomic_intrusive_list is a NAMED ASSUMPTION (two-phase push/pop as observed in lock-step), not refined; its lifetime defect is a known finding (C16). v2 livelock-freedom is not proved.",
  "design_ref": "5/C15",
 },
 "C16": {
  "claimed": True, "drivers": [],
  "technique": "Coq proof (pointer-level model of the v1 event word and next_ chain, auto-reset event on top; invariants over all programs and schedules) + K1 lock-step with the real code",
  "text": ("Theorems for ALL thread programs over set/reset/ready/wait (any number of waiters) and ALL schedules: each waiter resumed at most once; resumed iff it observed "
           "'signalled' or a set took the stack while it was on it; no stranded wait at quiescence; reset only affects later waits; auto-reset: each set consumed by at most one next, "
           "done is absorbing, a single consumer gets done only after set_done. Tie: K1 lock-step on the real v1 event and auto-reset event. The cancellable v2 event: Coq model EventV2 (cancellable bits, two-phase "
           "latch list, stop source at its linearisation points): each wait at most once, no waiter on a latched event, reset only affects later waits for ALL programs; value iff drained/latched, "
           "done iff removed, progress and exactly-once at quiescence per instance (reachable-set closure certificates for 10 programs x both cancellable variants); quiet-after-completion "
           "refuted with the two witnesses of the known cancellable findings; lock-step on the real code. async_pass: payload to exactly one acceptor, value iff accepted, cancel leaves the "
           "other side waiting, no deadlock - for ALL programs and schedules."),
  "note": TB + "Sequential consistency. v2 event's parametric value/done/progress theorems are per instance. Findings in cancellable/atomic_intrusive_list surfaced by the v2 lifetime monitor are listed in KNOWN_FINDINGS.txt (see C19/C15).",
  "design_ref": "5/C16",
 },
 "C10": {
  "claimed": True, "drivers": [],
  "technique": "Coq proof over a coroutine-body calculus (frames, LIFO cleanup lists, unwinding) with an executable trace monitor proved to accept every model trace + K2 differential on generated C++20 coroutine bodies; SrThunk election model with K1 lock-step",
  "text": ("PARTIAL below the model (frame allocation, symmetric transfer, compiler-generated coroutine code). Theorems for ALL coroutine bodies (return/throw/await of inline, asynchronous, "
           "stop-reactive leaves and nested tasks, locals, at_coroutine_exit cleanups, try/catch) and ALL scripts: co_await maps value/error/done as specified, a task completes with its "
           "body's denotation, cleanups run exactly once each in reverse registration order before the parent resumes on every exit path, locals and frames destroyed exactly once, a stop "
           "request reaches the currently awaited sender; the stop-request thunk resumes the continuation exactly once in every interleaving. Tie: generated coroutine programs x scripts "
           "compiled as C++20 agree event by event with the extracted model and pass the extracted monitor."),
  "note": TB + "The pinned suite compiles none of the coroutine code (C++17); this check builds it as C++20 with g++ 12.",
  "design_ref": "5/C10",
 },
 "C11": {
  "claimed": True, "drivers": [],
  "technique": "Coq proof of soundness of Gallina mirrors of the headers' trait formulas against the Calc machine + comparison of the mirrors with the compiled sender_traits",
  "text": ("Static traits, theorems for ALL expressions: a sender whose mirrored traits say sends_done=false never completes with done (any script, "
           "any stop); blocking always_inline/always completes inside start(); never does not. Tie: for every generated expression the three compile-time "
           "traits and run-time blocking() printed by the compiled program equal the mirrors; hand-written probes for algorithms outside the grammar (dematerialize, retry_when, via/on, ...). "
           "Completion contexts (Calc2: every completion carries the context of the event that caused it): via c s completes its receiver on context c, on c s starts s on context c with get_scheduler = c, "
           "with_scheduler_affinity (non-affine branch) completes on the receiver's scheduler context - for ALL s and scripts; tie: K2v2 with harness schedulers whose contexts are tags. "
           "Task scheduler affinity and the hop of event/mutex/async_pass senders are checked by monitors in C10/C15/C16 only."),
  "note": TB + "Contexts are tags of single-threaded harness schedulers (real threads only in the K1 units). is_always_scheduler_affine is mirrored and compared, its soundness is proved only for via/on/with_scheduler_affinity compositions.",
  "design_ref": "5/C11",
 },
 "C12": {
  "claimed": True, "drivers": [],
  "technique": "Coq proof by induction on expressions (env threading invariant) + K2 program differential in which every leaf logs what its receiver answers",
  "text": ("PARTIAL. Theorem for ALL expressions and scripts: every leaf observes exactly the query answers obtained by folding the documented overrides along its "
           "path (innermost with_query_value wins; unstoppable / the algorithms' own stop sources decide stop_possible). Tie: K2. get_scheduler/get_allocator, "
           "type-erased wrappers' declared query sets and allocate()/spawn allocator symmetry are not in the model yet."
           "Second-generation model Calc2 (adds operation-state lifetimes, execution contexts and schedulers, via/on/with_scheduler_affinity, let_value_with_stop_source, stop_if_requested, repeat_effect_until, retry_when, when_any, into_variant, values whose copy throws): the corresponding theorems are re-proved over it (Properties_<id>_calc2.v) and tied by the K2v2 differential. Calc2 adds the get_scheduler query (with_query_value/on overrides)."),
  "note": TB + "Only the stop token and two user-defined query CPOs are modelled.",
  "design_ref": "5/C12",
 },
 "C18": {
  "claimed": True, "drivers": [],
  "technique": "Coq proof over an executable AnyBox machine (any_object/any_unique/any_ref operation sequences; trace monitor proved to accept every model trace; refinement to an optional cell) + K3 exact-trace differential with the real wrappers; any_sender_of / any_scheduler / type_erased_stream by translation-validation style comparison",
  "text": ("Theorems for EVERY configuration (inline size/alignment, noexcept requirement), every number of variables and EVERY operation sequence (construct, move-construct, move-assign incl. self and "
           "different wrapped types, assign-value, swap, invoke, any_ref on top, destroy, with a throwing move or allocation at any point): each wrapped object destroyed exactly once, allocations and "
           "deallocations balance with equal sizes, no copy ever, heap-stored objects are transferred by pointer, storage is inline iff the library's predicate holds, moves are noexcept when required, "
           "the documented exception guarantees, and refinement to 'a box is an optional cell'. Tie: 6.6k generated sequences (quick) over 8 configurations x 12 wrapped-type classes agree event by "
           "event. COMPARED ONLY (no theorem): any_sender_of inserted at a random node of the K2 expressions must reproduce the Calc model's trace of the un-wrapped expression (1560 scripts), "
           "any_scheduler equality, type_erased_stream vs the plain stream."),
  "note": TB + "One known finding (any_sender_of stop bridge, KNOWN_FINDINGS.txt). any_scheduler_ref operator== is identity of the referred object (documented difference, not flagged); plain any_sender_of forwards only the stop token.",
  "design_ref": "5/C18",
 },
 "C19": {
  "claimed": True, "drivers": [],
  "technique": "Coq proofs per wrapper: reachable-set closure certificates checked by the kernel (cancellable, canary, create_basic_sender, detach_on_cancel: finite thread sets) and a hand-written inductive invariant (stop_on_request, parametric n) + K1 lock-step with the real wrappers, ASan variants in the thorough tier",
  "text": ("Theorems for ALL schedules of {start body, completion on thread A, stop on thread B, destruction by the owner} in every mode (sync/async completion, skip-start, stop first): "
           "exactly one completion, the stop hook at most once and only for a started uncompleted operation, callbacks torn down before completion, detach_on_cancel frees the child exactly once, "
           "canary never used after destruction and blocks only while a guard is held. The 'nothing touches the operation after completion' statement is REFUTED for cancellable and "
           "create_basic_sender on the faithful models, with witness schedules reproduced on the real code (listed in KNOWN_FINDINGS.txt, not fixed: they need a protocol change). "
           "Tie: 169k schedules / 3.4k projected traces (quick), every step compared."),
  "note": TB + "Sequential consistency. Known findings are reported as KNOWN-FINDING lines. create<> and the affine completion_forwarder mode are not covered.",
  "design_ref": "5/C19",
 },
 "C17": {
  "claimed": True,
  "drivers": [("k3_c17", "plain17")],
  "technique": "Coq proof (lia/nia, induction) of FindIfDefs model + K3 differential correspondence with the compiled find_if/bulk_schedule",
  "text": ("Theorems for every range length n (unbounded Z): find_if's chunks partition [0,n), the predicate is evaluated only inside the "
           "range, at most once per element, and the result is the least match or end (seq and par); bulk_schedule's loop visits 0..m-1 "
           "once each in order, all of them before value, a multiple of 16 before done. Tie: the extracted model and the real code agree on "
           "the exact visit sequence for every n up to 420 (quick) / 2100 (thorough) with boundary-aimed match positions, all four policies "
           "and every stop block."),
  "note": TB + "Modelled, not verified: iterator arithmetic as Z offsets (diff_t overflow outside the model); visit order on a multi-threaded pool is not compared (result and range containment only).",
  "design_ref": "5/C17",
 },
 "C20": {
  "claimed": True, "category": "translation_validation", "drivers": [],
  "technique": "translation validation: the K2 programs compiled in 8 build configurations against the ONE Calc model trace; Coq proof of the AsyncStack bracket discipline (balance, roots restored, parent chain) tied to frame/root snapshots of debug builds",
  "text": ("First half (translation validation, inherently sampled): generated sender expressions x scripts compiled as {C++17,C++20} x {NDEBUG, debug+async stacks} x {continuation visitation 0,1}; every "
           "configuration's trace equals the one trace of the extracted Calc model, hence each other. Second half (proof): for ALL operation trees, families of traced runs and schedules the "
           "async-stack discipline of inject_async_stack/sync_wait never trips an assertion, every activated frame is deactivated, every thread's root is restored at quiescence, and the parent "
           "chain from a started operation's frame is exactly its path to the root (the async_trace claim); tie: snapshots of tryGetCurrentAsyncStackRoot()/frame chains in the four debug "
           "configurations replayed on the model, async_trace checked against the expression's nesting. The coroutine path (task/connect_awaitable/await_transform) is monitored only."),
  "note": TB + "The cross-configuration claim is a finite sample by nature. A pending operation's frame can keep the stackRoot of a destroyed root (refuted theorem, observed on the real code; not a property violation).",
  "design_ref": "5/C20",
 },
}
NOT_YET = {
}

# ---- session 4 additions (appended to the claimed texts) ---------------------------------------------------------
_ADD = {
 "C02": (" Fault probe (direct monitor on the real code, harness/k3_c02_probe.cpp): the k-th connect() of the source throws under retry_when / "
         "repeat_effect_until (the re-connecting algorithms), k = 0..4: construction/destruction balance, no destructor on a dead or never constructed "
         "operation state, documented completion. Stored values: a bound-value watch in K2v2 (a successor operation checks in its destructor that the "
         "value let_value bound for it is alive). Calc2 stage 6: the values the algorithms store (let_value values_, let_error error_, finally's stored result, "
         "when_all / stop_when / when_any stores) are events of the model with their own life-cycle key (KVal): the balance / exactly-once / nothing-after-"
         "destruction theorems cover them for ALL expressions and scripts, and the K2v2 tie compares every store construction/destruction with the real code."),
 "C04": (" Fault probe (direct monitor, harness/k3_c04_probe.cpp): stop_on_request over 1-3 external tokens whose k-th callback registration throws: "
         "no callback left on the receiver's token at completion; let_value_with_stop_token over inplace and wrapped receiver tokens, with and without a stop. "
         "RegElect (Properties_C04_elect.v): for when_all_range and stop_when, ALL outcome lists (n = 0 included) and ALL schedules: the stop callback on the "
         "receiver's token is deregistered at every delivery, nothing touches the operation after the delivery, a stop request is forwarded to the own source; "
         "K1 lock-step with the real algorithms (71 k + 70 k schedules quick)."),
 "C09": (" The spawn fault sweep also hands the sender over as an lvalue of a type with a throwing copy and a noexcept move (every noexcept-specification "
         "on the nest() path must be computed for the copy)."),
 "C10": (" SrThunk now carries the continuation chosen by complete_and_choose_continuation: theorem C10_srthunk_resumes_own_result (whoever resumes, the "
         "continuation for the body's own value/error/done is resumed); the driver's monitor compares the task's result with its body's."),
 "C11": (" TraitsMulti (Properties_C11_multi.v, 38 theorems): the n-ary trait formulas of let_value (n value signatures), let_error (n error types), "
         "when_all, stop_when, sequence, variant_sender mirrored over lists; for ALL lists of sound components the mirrored traits are sound for every "
         "behaviour of an executable semantics of the combinator (always_inline / always / never / sends_done / affine); the as-found when_all / stop_when "
         "`never` formulas are refuted (fixed in /repo) and the repaired ones proved; tie: systematic families of real senders over harness components "
         "(compile-time traits vs mirror, observed runs vs semantics, direct + crossed soundness monitors) and real-library probes."),
 "C17": (" indexed_for (seq and par, also with a throwing function) is compared with the same index model."),
 "C19": (" create_basic_sender: 60 parameter values incl. body events that request stop on the operation's own source re-entrantly (before / after "
         "set_value) and a re-requesting stop event: theorems stop_dispatch (stop event at most once, only to a started unfinished operation) and "
         "first_decision_wins."),
 "C20": (" Coroutine path under schedule control: the task stop-request thunk driver built with assertions and async stacks (cfg shimdbg20) - every "
         "explored schedule must pass the library's own async-stack assertions and the SrThunk lock-step. The C02/C04 fault probes are built in the "
         "four C++17 configurations and must print what the release build prints."),
 "C14": (" io_uring real-thread monitors: wall-clock bounds scaled by VERIF_TIME_SCALE (default 6); `resubmit 640` exercises completion-ring wrap-around."),
}
_ADD["C13"] = (" SCalc now contains next_adapt_stream / cleanup_adapt_stream / adapt_stream over a table of sender adaptors (then f, via, typed_via, on, "
               "delay) and via_stream / typed_via_stream / on_stream / delay DEFINED as the headers define them; every theorem holds over the enlarged grammar, plus: "
               "elements of next_adapt(then f) = map f; the scheduler streams yield exactly the source's elements; via completes after the hop, on_stream starts after it. "
               "The harness schedulers are inline and ignore stop (a cancelled hop is not modelled).")
_ADD["C01"] = (" RegElect (Properties_C01_elect.v): the same election for when_all_range (incl. the empty range) and stop_when together with the registration / "
               "deregistration of the stop callback, the own stop source, the start loop and the owner that destroys the operation: at most once, exactly once at "
               "quiescence, not before every child finished / was started, for ALL outcome lists and schedules; tied by K1 drivers over the real algorithms. "
               "Their documented RESULT and deadlock-freedom are monitored, not proved.")
_ADD["C07"] = (" EpollTimers: io_epoll_context's timers (schedule_at, local and remote stop, update_timers, timerfd arming) run under schedule control with a "
               "virtual clock against the executable model coq/Proto/EpollTimerDefs.v (lock-step, 12.5 k schedules quick) and a direct monitor (once, never early, "
               "order, prompt done, no reference retained). PROOFS PARTIAL: the per-operation phase invariant is preserved by starter / remote-stopper / pop steps "
               "(Properties_C07_epoll.v, *_partial); preservation by the I/O thread's own steps and the all-schedule theorems are not proved yet.")
for _k, _v in _ADD.items():
    PROPS[_k]["text"] = PROPS[_k]["text"] + _v
