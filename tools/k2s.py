"""K2-stream program differential (C13, sequential half): generate stream pipelines + event scripts,
emit C++ translation units over the real unifex stream API (harness/k2s.hpp) and the same cases as
terms of the SCalc model (coq/Calc/StreamDefs.v, ocaml handler `scalc`), run both, compare the
traces event by event, and evaluate the property itself (direct monitors) on the implementation's
trace.

The adapt_stream family (adapt_stream / next_adapt_stream / cleanup_adapt_stream with the sender adaptors of
SCalc.sadapt: identity, then(f), via / typed_via / on over the harness scheduler k2s::hsched{sid}, finally +
schedule_after; via_stream / typed_via_stream / on_stream / delay themselves) is generated directly on the
source or directly under the consumer (nodes "na" "ca" "ad1" "ad2" "via" "tvia" "on" "delay"), plus the
corpus cases 8.. with scripts for stop in the middle, pre-stopped and armed root tokens.  k2s::hsched is an
inline, stop-insensitive context that logs `hop <sid> <d>`; the model prints the same event (THop)."""
import hashlib, os, random, re
import vlib

# Which variant of the model the implementation is compared with:
#   "fixed"      - /repo with the two repairs of DESIGN.md section 8 (findings 2 and 9) applied
#   "as_written" - take_until's trigger_receiver::set_done destroys sourceOp_; stop_immediately's
#                  next-op start() goes on through its destroyed operation after an inline stop
# The theorems (coq/Properties_C13_calc.v) are about "fixed"; `..._refuted` about "as_written".
MODEL_VARIANT = "fixed"

KEY_F2 = "k2s/take_until/trigger_cleanup_done_destroys_sourceOp_instead_of_triggerOp"
KEY_F9 = "k2s/stop_immediately/next_start_uses_destroyed_op_after_inline_stop"
KEY_F14 = "k2s/stop_immediately/cleanup_set_error_forwards_reference_into_destroyed_cleanup_op"
KEY_F15 = "k2s/type_erase/receiver_wrapper_reads_members_after_destroying_its_op"

UN = ["tr", "fi", "tu", "si", "te", "na", "ca", "ad1", "ad2", "via", "tvia", "on", "delay"]
ADK = ["na", "ca", "ad1", "ad2", "via", "tvia", "on", "delay"]      # the adapt_stream family
def inner(s):
    """the stream an adaptor node is applied to (None for sources)"""
    k = s[0]
    if k in ("tr", "fi", "na", "ca", "ad1", "via", "tvia", "on"): return s[2]
    if k in ("tu", "si", "te"): return s[1]
    if k in ("ad2", "delay"): return s[3]
    return None

# ------------------------------------------------------------------------------------------ generation
class Gen:
    def __init__(self, rng):
        self.rng = rng
        self.next_id = 1          # id 0 = the pipeline's scripted source (if any); triggers get 1, 2, ...

    def fn(self):
        r = self.rng
        k = r.choice("aaammi")
        if k == "a": return ("add", r.randint(1, 9))
        if k == "m": return ("mul", r.randint(2, 4))
        return ("throwif", r.randint(0, 12), r.randint(60, 69))

    def pred(self):
        r = self.rng
        k = r.choice("lnneei")
        if k == "l": return ("lt", r.randint(1, 12))
        if k == "n": return ("ne", r.randint(0, 8))
        if k == "e": return ("even",)
        return ("pthrowif", r.randint(0, 12), r.randint(70, 79))

    def rfn(self):
        r = self.rng
        k = r.choice("sshhi")
        if k == "s": return ("sum",)
        if k == "h": return ("horner",)
        return ("rthrowif", r.randint(0, 12), r.randint(80, 89))

    def source(self):
        r = self.rng
        c = r.random()
        if c < 0.55: return ("src", 0, 1 if r.random() < 0.5 else 0)
        if c < 0.80:
            a = r.randint(0, 4)
            return ("range", a, a + r.choice([0, 1, 2, 3, 5, 8]))
        if c < 0.90: return ("single", r.randint(0, 12))
        return ("never",)

    def sadapt(self, nextpos, s):
        """a sender adaptor of the table SCalc.sadapt; then(f) only where a value is carried"""
        r = self.rng
        k = r.choice(["id", "then", "avia", "atvia", "aon", "adelay"])
        if k == "then" and (not nextpos or valueless(s)): k = "avia"
        sid = r.randint(5, 9)
        if k == "id": return ("id",)
        if k == "then": return ("then", self.fn())
        if k == "adelay": return ("adelay", sid, r.randint(1, 9))
        return (k, sid)

    def adapt(self, s):
        r = self.rng
        k = r.choice(ADK)
        sid = r.randint(5, 9)
        if k == "na": return ("na", self.sadapt(True, s), s)
        if k == "ca": return ("ca", self.sadapt(False, s), s)
        if k == "ad1": return ("ad1", self.sadapt(False, s), s)
        if k == "ad2": return ("ad2", self.sadapt(True, s), self.sadapt(False, s), s)
        if k == "delay": return ("delay", sid, r.randint(1, 9), s)
        return (k, sid, s)

    def stream(self, depth):
        s = self.source()
        if self.rng.random() < 0.22: s = self.adapt(s)      # the adapt_stream family: directly on the source ...
        under_tu_chain = False     # built bottom-up: remember whether a `te` is reachable through tr/fi only
        te_reach = False
        for _ in range(depth):
            k = self.rng.choice(["tr", "tr", "fi", "fi", "tu", "si", "te"])
            if k == "tu" and te_reach:
                k = "tr"           # ordering restriction of the model: no type_erase directly beneath take_until
            if k == "te" and s[0] == "te":
                k = "tr"           # type_erase<int>(type_erased_stream<int>) is the move constructor, not a second layer
            if k == "si" and "te" in kinds(s):
                k = "tr"           # stop_immediately's receivers forward no queries; type_erase needs get_scheduler
            if k == "tr" and valueless(s):
                k = "fi"           # then() over never's empty value_types does not compile
            if k == "fi" and through_adapt(s)[0] == "single":
                k = "tr"           # filter_stream's noexcept-specifier connects single's next sender with an lvalue
            if k == "tr": s = ("tr", self.fn(), s)
            elif k == "fi": s = ("fi", self.pred(), s)
            elif k == "tu":
                s = ("tu", s, self.next_id, 1 if self.rng.random() < 0.6 else 0); self.next_id += 1
            elif k == "si": s = ("si", s)
            else: s = ("te", s)
            if k == "te": te_reach = True
            elif k in ("tr", "fi"): pass
            else: te_reach = False
        if self.rng.random() < 0.22 and "te" not in kinds(s): s = self.adapt(s)   # ... or directly under the consumer
        return s

    def case(self, depth):
        s = self.stream(depth)
        if self.rng.random() < 0.75:
            c = ("reduce", self.rng.choice([0, 0, 1, 7]), self.rfn())
        else:
            c = ("foreach", self.fn())
        return (c, s)


def through_adapt(s):
    """the stream beneath the adapt_stream-family nodes at the top of s"""
    while s[0] in ADK: s = inner(s)
    return s


def valueless(s):
    """the stream's next sender has never_stream's empty value_types"""
    if s[0] == "never": return True
    if s[0] == "fi": return valueless(s[2])
    if s[0] in ("tu", "si"): return valueless(s[1])
    if s[0] in ADK: return valueless(inner(s))
    return False


def kinds(s, acc=None):
    acc = [] if acc is None else acc
    acc.append(s[0])
    if inner(s) is not None: kinds(inner(s), acc)
    return acc


def src_ids(s, acc=None):
    """(id, is_trigger) of every scripted source in the pipeline"""
    acc = [] if acc is None else acc
    if s[0] == "src": acc.append((s[1], False))
    elif s[0] in ("tr", "fi"): src_ids(s[2], acc)
    elif s[0] == "tu":
        acc.append((s[2], True)); src_ids(s[1], acc)
    elif s[0] in ("si", "te"): src_ids(s[1], acc)
    elif s[0] in ADK: src_ids(inner(s), acc)
    return acc


def m_fn(f): return "(%s)" % " ".join(map(str, f))

def to_model(s):
    k = s[0]
    if k == "range": return "(range %d %d)" % (s[1], s[2])
    if k == "single": return "(single %d)" % s[1]
    if k == "src": return "(src %d %d)" % (s[1], s[2])
    if k == "never": return "(never)"
    if k in ("tr", "fi"): return "(%s %s %s)" % (k, m_fn(s[1]), to_model(s[2]))
    if k == "tu": return "(tu %s %d %d)" % (to_model(s[1]), s[2], s[3])
    if k in ("na", "ca", "ad1"): return "(%s %s %s)" % (k, m_ad(s[1]), to_model(s[2]))
    if k == "ad2": return "(ad2 %s %s %s)" % (m_ad(s[1]), m_ad(s[2]), to_model(s[3]))
    if k in ("via", "tvia", "on"): return "(%s %d %s)" % (k, s[1], to_model(s[2]))
    if k == "delay": return "(delay %d %d %s)" % (s[1], s[2], to_model(s[3]))
    return "(%s %s)" % (k, to_model(s[1]))

def m_ad(a):
    if a[0] == "then": return "(then %s)" % m_fn(a[1])
    return "(%s)" % " ".join(map(str, a))

def cpp_ad(a):
    if a[0] == "id": return "k2s::ad_id{}"
    if a[0] == "then": return "k2s::ad_then{%s}" % cpp_fn(a[1])
    if a[0] == "avia": return "k2s::ad_via{k2s::hsched{%d}}" % a[1]
    if a[0] == "atvia": return "k2s::ad_tvia{k2s::hsched{%d}}" % a[1]
    if a[0] == "aon": return "k2s::ad_on{k2s::hsched{%d}}" % a[1]
    return "k2s::ad_delay{k2s::hsched{%d}, %d}" % (a[1], a[2])

def cons_model(c):
    if c[0] == "reduce": return "(reduce %d %s)" % (c[1], m_fn(c[2]))
    return "(foreach %s)" % m_fn(c[1])

def case_model(case): return cons_model(case[0]) + " " + to_model(case[1])


def cpp_fn(f):
    if f[0] == "add": return "k2s::fnobj{'a',%d,0}" % f[1]
    if f[0] == "mul": return "k2s::fnobj{'m',%d,0}" % f[1]
    return "k2s::fnobj{'i',%d,%d}" % (f[1], f[2])

def cpp_pred(p):
    if p[0] == "lt": return "k2s::predobj{'l',%d,0}" % p[1]
    if p[0] == "ne": return "k2s::predobj{'n',%d,0}" % p[1]
    if p[0] == "even": return "k2s::predobj{'e',0,0}"
    return "k2s::predobj{'i',%d,%d}" % (p[1], p[2])

def cpp_rfn(f):
    if f[0] == "sum": return "k2s::redobj{'s',0,0}"
    if f[0] == "horner": return "k2s::redobj{'h',0,0}"
    return "k2s::redobj{'i',%d,%d}" % (f[1], f[2])

MV = [False]     # emitting for the K2S_ELEM_MV build (move-sensitive elements)
def to_cpp(s):
    k = s[0]
    if k == "range":
        return ("unifex::transform_stream(unifex::range_stream{%d, %d}, k2s::to_elem{})" if MV[0] else "unifex::range_stream{%d, %d}") % (s[1], s[2])
    if k == "single": return "unifex::single(unifex::just(k2s::elem_t(%d)))" % s[1]
    if k == "src": return "k2s::src{%d, %s}" % (s[1], "true" if s[2] else "false")
    if k == "never": return "unifex::never_stream{}"
    if k == "tr": return "unifex::transform_stream(%s, %s)" % (to_cpp(s[2]), cpp_fn(s[1]))
    if k == "fi": return "unifex::filter_stream(%s, %s)" % (to_cpp(s[2]), cpp_pred(s[1]))
    if k == "tu": return "unifex::take_until(%s, k2s::src{%d, %s})" % (to_cpp(s[1]), s[2], "true" if s[3] else "false")
    if k == "si": return "unifex::stop_immediately<k2s::elem_t>(%s)" % to_cpp(s[1])
    if k == "te": return "unifex::type_erase<k2s::elem_t>(%s)" % to_cpp(s[1])
    if k == "na": return "unifex::next_adapt_stream(%s, %s)" % (to_cpp(s[2]), cpp_ad(s[1]))
    if k == "ca": return "unifex::cleanup_adapt_stream(%s, %s)" % (to_cpp(s[2]), cpp_ad(s[1]))
    if k == "ad1": return "unifex::adapt_stream(%s, %s)" % (to_cpp(s[2]), cpp_ad(s[1]))
    if k == "ad2": return "unifex::adapt_stream(%s, %s, %s)" % (to_cpp(s[3]), cpp_ad(s[1]), cpp_ad(s[2]))
    if k == "via": return "unifex::via_stream(k2s::hsched{%d}, %s)" % (s[1], to_cpp(s[2]))
    if k == "tvia": return "k2s::tvia_stream(k2s::hsched{%d}, %s)" % (s[1], to_cpp(s[2]))
    if k == "on": return "unifex::on_stream(k2s::hsched{%d}, %s)" % (s[1], to_cpp(s[2]))
    if k == "delay": return "unifex::delay(%s, k2s::hsched{%d}, std::chrono::milliseconds(%d))" % (to_cpp(s[3]), s[1], s[2])
    raise ValueError(k)

def case_cpp(case):
    c, s = case
    if c[0] == "reduce": return "unifex::reduce_stream(%s, %d, %s)" % (to_cpp(s), c[1], cpp_rfn(c[2]))
    return "unifex::for_each(%s, k2s::eachobj{%s})" % (to_cpp(s), cpp_fn(c[1]))


def gen_scripts(rng, case, n):
    ids = src_ids(case[1])
    out = []
    def nev(i, trig):
        c = rng.random()
        if trig:
            if c < 0.5: return "N%d:v%d" % (i, rng.randint(0, 12))
            if c < 0.8: return "N%d:d" % i
            return "N%d:e%d" % (i, rng.randint(30, 39))
        if c < 0.72: return "N%d:v%d" % (i, rng.randint(0, 12))
        if c < 0.90: return "N%d:d" % i
        return "N%d:e%d" % (i, rng.randint(30, 39))
    def cev(i):
        return "C%d:d" % i if rng.random() < 0.8 else "C%d:e%d" % (i, rng.randint(40, 49))
    for _ in range(n):
        prestop = 0
        c = rng.random()
        if c < 0.08: prestop = 1
        elif c < 0.22: prestop = 2
        body = []
        if ids:
            for _ in range(rng.randint(0, 7)):
                i, trig = rng.choice(ids)
                if trig and rng.random() < 0.6:
                    i, trig = ids[-1] if not ids[-1][1] else (i, trig)   # favour the main source
                c = rng.random()
                if c < 0.8: body.append(nev(i, trig))
                else: body.append(cev(i))
        if rng.random() < 0.5:
            body.insert(rng.randint(0, len(body)), "S")
        if rng.random() < 0.15:
            body.insert(rng.randint(0, len(body)), "A")
        if rng.random() < 0.9:                       # drain: complete whatever is still running
            for rnd in range(3):
                order = ids[:]
                rng.shuffle(order)
                for i, trig in order:
                    body.append("N%d:d" % i if rng.random() < 0.7 else nev(i, trig))
                rng.shuffle(order)
                for i, trig in order:
                    body.append(cev(i))
        out.append((prestop, " ".join(body)))
    out.append((0, ""))
    out.append((0, "S"))
    out.append((2, " ".join("N%d:d C%d:d" % (i, i) for i, _ in ids)))
    return out


# ------------------------------------------------------------------------------------------ TU emission
def emit_tu(cases, mv=False):
    MV[0] = mv
    src = (["#define K2S_ELEM_MV 1"] if mv else []) + ['#include "k2s.hpp"', ""]
    for i, case in enumerate(cases):
        src.append("// %s" % case_model(case))
        src.append("static std::string case_%d(int pre, const std::vector<k2s::script_ev>& s) {" % i)
        src.append("  return k2s::run_case([] { return %s; }, pre, s);" % case_cpp(case))
        src.append("}")
    src.append("static k2s::case_fn CASES[] = {%s};" % ", ".join("case_%d" % i for i in range(len(cases))))
    src.append("int main() { return k2s::main_loop(CASES, %d); }" % len(cases))
    return "\n".join(src) + "\n"


def canon(trace):
    """form compared with the model: the next-operation life-time events and the harness' own
    irregularity markers are the monitors' business, not the model's"""
    body, _, tail = trace.partition(" # ")
    evs = [x for x in body.split(";") if x and not x.startswith("opdel N ") and not x.startswith("VIOL ")]
    m = re.match(r"roots=\d+", tail)
    return ";".join(evs) + " # " + (m.group(0) if m else tail)


# ------------------------------------------------------------------------------------------ direct monitors
def monitor(trace):
    """C13 evaluated on an implementation trace.  Returns (name, text) or None."""
    body, _, tail = trace.partition(" # ")
    evs = [x for x in body.split(";") if x]
    m = re.match(r"roots=(\d+) ops=(\S*) viol=(\d+)", tail)
    if not m:
        return ("format", "unparsable summary: " + tail[:80])
    roots = int(m.group(1))
    outstanding, started, cstart, cdone, kcount = {}, set(), {}, {}, {}
    root_at = None
    for n, x in enumerate(evs):
        w = x.split()
        if root_at is not None and w[0] not in ("skip",):
            return ("root_last", "activity after the root completed: " + x)
        if w[0] == "nstart":
            i, k = int(w[1]), int(w[2])
            if outstanding.get(i): return ("next_overlap", "next of source %d started while another is outstanding" % i)
            if cstart.get(i): return ("next_after_cleanup", "next of source %d started after its cleanup" % i)
            if k != kcount.get(i, 0): return ("next_index", "source %d: next #%d, expected #%d" % (i, k, kcount.get(i, 0)))
            kcount[i] = k + 1
            outstanding[i] = True; started.add(i)
        elif w[0] == "ndone":
            i = int(w[1])
            if not outstanding.get(i): return ("next_done_twice", "next of source %d completed while none outstanding" % i)
            outstanding[i] = False
        elif w[0] == "cstart":
            i = int(w[1])
            if cstart.get(i): return ("cleanup_twice", "cleanup of source %d started twice" % i)
            if outstanding.get(i): return ("cleanup_during_next", "cleanup of source %d started while its next is outstanding" % i)
            if i not in started: return ("cleanup_without_next", "cleanup of source %d whose next never started" % i)
            cstart[i] = True
        elif w[0] == "cdone":
            i = int(w[1])
            if not cstart.get(i) or cdone.get(i): return ("cleanup_done", "cleanup of source %d completed out of order" % i)
            cdone[i] = True
        elif w[0] == "root":
            root_at = n
            for i in started:
                if not cdone.get(i):
                    return ("root_before_cleanup", "root completed before cleanup of source %d finished" % i)
            for i in outstanding:
                if outstanding[i]:
                    return ("root_before_next_done", "root completed while next of source %d outstanding" % i)
        elif w[0] == "VIOL":
            return ("opstate", x)
    if roots > 1:
        return ("root_twice", "%d root completions" % roots)
    if roots == 1:
        for part in [p for p in m.group(2).split(",") if p]:
            name, cd = part.split(":")
            c, d = cd.split("/")
            if c != d:
                return ("opstate", "tracked op-state %s constructed %s times, destroyed %s times" % (name, c, d))
    if int(m.group(3)):
        return ("opstate", "%s irregular op-state uses" % m.group(3))
    return None


CORPUS = [
    # finding 2: trigger cleanup completes with done
    (("reduce", 0, ("sum",)), ("tu", ("src", 0, 1), 1, 1)),
    (("reduce", 0, ("sum",)), ("tu", ("tr", ("add", 1), ("src", 0, 0)), 1, 0)),
    # finding 9: stop_immediately directly on the root token, armed
    (("reduce", 0, ("sum",)), ("si", ("src", 0, 0))),
    (("reduce", 0, ("horner",)), ("tr", ("add", 1), ("si", ("src", 0, 1)))),
    (("foreach", ("add", 1)), ("si", ("range", 0, 3))),
    (("reduce", 0, ("sum",)), ("te", ("si", ("tu", ("src", 0, 1), 1, 1)))),
    (("reduce", 1, ("sum",)), ("fi", ("even",), ("tr", ("mul", 3), ("range", 0, 7)))),
    (("reduce", 0, ("sum",)), ("tu", ("si", ("src", 0, 0)), 1, 1)),
    # the adapt_stream family (indices 8..)
    (("reduce", 0, ("sum",)), ("via", 7, ("src", 0, 1))),
    (("reduce", 0, ("sum",)), ("on", 8, ("src", 0, 0))),
    (("reduce", 0, ("horner",)), ("tvia", 6, ("tr", ("add", 1), ("src", 0, 1)))),
    (("reduce", 0, ("sum",)), ("delay", 5, 3, ("src", 0, 0))),
    (("reduce", 0, ("sum",)), ("na", ("then", ("mul", 2)), ("src", 0, 1))),
    (("foreach", ("add", 1)), ("ca", ("avia", 7), ("src", 0, 0))),
    (("reduce", 0, ("sum",)), ("ad2", ("then", ("throwif", 3, 61)), ("aon", 9), ("src", 0, 1))),
    (("reduce", 0, ("sum",)), ("ad1", ("id",), ("range", 0, 4))),
    (("reduce", 0, ("sum",)), ("on", 8, ("via", 7, ("na", ("then", ("mul", 2)), ("src", 0, 1))))),
    (("reduce", 0, ("sum",)), ("tu", ("via", 7, ("src", 0, 1)), 1, 1)),
    (("reduce", 0, ("sum",)), ("si", ("on", 8, ("src", 0, 0)))),
    (("reduce", 1, ("sum",)), ("fi", ("even",), ("via", 6, ("range", 0, 6)))),
]
# move-sensitive elements: every value-carrying adaptor followed by a by-value consumer
MV_CORPUS = [
    (("reduce", 0, ("horner",)), ("fi", ("ne", 4), ("src", 0, 0))),
    (("reduce", 0, ("sum",)), ("fi", ("even",), ("tr", ("add", 1), ("range", 0, 9)))),
    (("foreach", ("add", 1)), ("fi", ("lt", 5), ("tr", ("mul", 2), ("src", 0, 1)))),
    (("reduce", 0, ("horner",)), ("tr", ("add", 2), ("fi", ("ne", 3), ("te", ("src", 0, 0))))),
    (("reduce", 0, ("horner",)), ("fi", ("lt", 9), ("si", ("tu", ("src", 0, 1), 1, 1)))),
    (("reduce", 0, ("sum",)), ("te", ("tr", ("add", 1), ("single", 6)))),
]
CORPUS_SCRIPTS = {
    0: [(0, "N0:v1 N0:v2 N1:v0 C0:d C1:d"), (0, "N0:v1 N0:d C1:d C0:d N1:d C1:d"), (0, "N0:v3 S C0:d C1:d")],
    1: [(0, "N0:v1 N1:d N0:d C0:d C1:d"), (0, "N0:v1 N1:d N0:d C1:d C0:d")],
    2: [(2, "N0:v1 C0:d"), (2, "N0:d C0:d"), (0, "N0:v1 A N0:v2 C0:d"), (0, "N0:v1 S N0:v2 C0:d")],
    3: [(2, "C0:d"), (0, "N0:v4 A C0:d")],
    4: [(2, ""), (1, "")],
    5: [(2, "N0:d C0:d C1:d"), (0, "N0:v1 S C0:d C1:d")],
    7: [(2, "N0:d N1:d C0:d C1:d"), (0, "N0:v2 N1:v0 N0:v5 C0:d C1:d")],
    8: [(0, "N0:v1 N0:v2 N0:d C0:d"), (0, "N0:v1 S C0:d"), (1, "C0:d"), (2, "N0:d C0:d"), (0, "N0:e31 C0:e41")],
    9: [(0, "N0:v1 N0:v2 N0:d C0:d"), (0, "N0:v1 S N0:d C0:d"), (1, "N0:d C0:d"), (2, "N0:d C0:d"), (0, "N0:v4 A N0:v5 N0:d C0:e42")],
    10: [(0, "N0:v1 N0:d C0:d"), (0, "S C0:d"), (1, "C0:d")],
    11: [(0, "N0:v1 N0:v2 N0:d C0:d"), (0, "N0:v1 S N0:d C0:d"), (1, "N0:d C0:d")],
    12: [(0, "N0:v1 N0:v2 N0:d C0:d"), (0, "N0:v1 S C0:d"), (1, "C0:d")],
    13: [(0, "N0:v1 N0:d C0:d"), (0, "N0:v1 S N0:d C0:e43"), (1, "N0:d C0:d")],
    14: [(0, "N0:v1 N0:v3 C0:d"), (0, "N0:v1 S C0:d"), (1, "C0:d")],
    15: [(0, ""), (1, ""), (2, "")],
    16: [(0, "N0:v3 S C0:d"), (1, "C0:d"), (2, "C0:d")],
    17: [(0, "N0:v1 N1:v0 C0:d C1:d"), (0, "N0:v1 S C0:d C1:d")],
    18: [(0, "N0:v1 S N0:v2 C0:d"), (2, "N0:v1 C0:d")],
    19: [(0, ""), (1, "")],
}


def run_k2s(chk, n_tus, cases_per_tu, scripts_per_case, depth_range=(0, 4), cfg="plain17", tag="k2s", corpus=None, mv=False):
    rng = random.Random(chk.seed * 104729 + 13 + (7919 if mv else 0))
    tus = []
    for t in range(n_tus):
        cases = []
        for c in range(cases_per_tu):
            g = Gen(rng)
            cases.append(g.case(rng.randint(*depth_range)))
        tus.append(cases)
    corpus = CORPUS if corpus is None else corpus
    ncorpus_tus = 0
    if corpus:
        ct = [corpus[i:i + cases_per_tu] for i in range(0, len(corpus), cases_per_tu)]
        ncorpus_tus = len(ct)
        tus = ct + tus
    cd = vlib.cache_dir()
    gen_dir = os.path.join(cd, "k2src")
    os.makedirs(gen_dir, exist_ok=True)
    hdr_dir = os.environ.get("K2S_HDR_DIR", "")          # development only
    extra = "-g0" + ((" -I" + hdr_dir) if hdr_dir else "")   # no debug info: the template names make it 4x slower
    hdr = open(os.path.join(hdr_dir or vlib.HARNESS, "k2s.hpp"), "rb").read()
    jobs = []
    for cases in tus:
        src = emit_tu(cases, mv)
        h = hashlib.sha256(src.encode() + hdr).hexdigest()[:12]
        p = os.path.join(gen_dir, "%s_%s.cpp" % (tag, h))
        if not os.path.exists(p):
            open(p, "w").write(src)
        jobs.append(("%s_%s" % (tag, h), cfg, p, extra, True))
    built = vlib.build_many(jobs)
    stats = chk.cov.setdefault("k2s", {"programs": 0, "scripts": 0, "kinds": {}, "roots_completed": 0,
                                       "compile_failures": 0, "distinct_traces": 0, "model_variant": MODEL_VARIANT})
    distinct = set()
    for tn, ((name, cfgn, p, _, _), cases) in enumerate(zip(jobs, tus)):
        exe, err = built[(name, cfgn)]
        if err:
            stats["compile_failures"] += 1
            rp = chk.replay_file("k2s_build_" + name, {"kind": "build-failure", "tu": p, "error": err[-3000:],
                                                        "cases": [case_model(c) for c in cases]})
            chk.violation("k2s/build", rp, no_input=True, text="generated TU does not compile against /repo: " + err[-300:].replace("\n", " "))
            continue
        ilines, mlines, meta = [], [], []
        for i, case in enumerate(cases):
            stats["programs"] += 1
            for k in kinds(case[1]) + [case[0][0]]:
                stats["kinds"][k] = stats["kinds"].get(k, 0) + 1
            scripts = gen_scripts(rng, case, scripts_per_case)
            if tn < ncorpus_tus and not mv:
                scripts = CORPUS_SCRIPTS.get(tn * cases_per_tu + i, []) + scripts
            for pre, sc in scripts:
                ilines.append("%d %d | %s" % (i, pre, sc))
                mlines.append("scalc %s %d %s | %s" % (MODEL_VARIANT, pre, case_model(case), sc))
                meta.append((case, pre, sc))
        iout = vlib.run_impl_lines(exe, ilines, chunk=400)
        mout = model_run(mlines)
        bad = []
        for n, ((case, pre, sc), io, mo, il) in enumerate(zip(meta, iout, mout, ilines)):
            stats["scripts"] += 1
            toks = sc.split()
            nontriv = bool(pre) or "S" in toks or "A" in toks or " error " in io or any(t[0] == "C" and ":e" in t for t in toks)
            chk.count((case_model(case), pre, sc), nontriv)
            crashed = io.startswith("CRASH")
            if "root " in io:
                stats["roots_completed"] += 1
            mon = None if crashed else monitor(io)
            ci, cm = (io, mo) if crashed else (canon(io), canon(mo))
            if MODEL_VARIANT != "fixed" and "uaf " in mo:
                # comparing with the as-written model: the model marks the places where the real code has
                # undefined behaviour; "uaf 0"/"uaf 1" runs are not comparable beyond that point
                mev = mo.partition(" # ")[0].split(";")
                if "uaf 0" in mev or "uaf 1" in mev:
                    stats["ub_paths_skipped"] = stats.get("ub_paths_skipped", 0) + 1
                    continue
                cm = canon(";".join(x for x in mev if not x.startswith("uaf ")) + " # " + mo.partition(" # ")[2])
            distinct.add(ci)
            if ci == cm and not mon:
                chk.cov["traces_validated_against_impl"] += 1
                if nontriv:
                    chk.sample({"case": case_model(case), "prestop": pre, "script": sc, "trace": io[:300]}, limit=8)
                continue
            chk.cov["disagreements_checked"] += 1
            bad.append((n, crashed, mon, ci, cm))
        if not bad:
            continue
        # classify against the as-written model (one batch): the known defects get their own keys
        aws = model_run(["scalc as_written %d %s | %s" % (meta[n][1], case_model(meta[n][0]), meta[n][2]) for n, *_ in bad])
        for (n, crashed, mon, ci, cm), aw in zip(bad, aws):
            (case, pre, sc), io, mo, il = meta[n], iout[n], mout[n], ilines[n]
            ks = "+".join(sorted(set(kinds(case[1])) & set(UN)))
            awe = aw.partition(" # ")[0].split(";")
            aw_nouaf = ";".join(x for x in awe if not x.startswith("uaf ")) + " # " + aw.partition(" # ")[2]
            if not crashed and canon(aw_nouaf) == ci and "tu" in ks and canon(aw_nouaf) != cm:
                key, txt = KEY_F2, "implementation behaves like the as-written model"
            elif "uaf 0" in awe:
                key, txt = KEY_F9, "stop requested inside stop_immediately's callback registration"
            elif "uaf 1" in awe:
                key, txt = KEY_F14, "cleanup error of take_until passed through stop_immediately's cleanup receiver"
            elif "tu" in ks and canon(aw_nouaf) != cm:
                # the run goes through trigger_receiver::set_done: the wrong operation state is destroyed
                # (possibly while still running), what follows is undefined
                key, txt = KEY_F2, "run passes take_until's trigger-cleanup-done path (wrong op-state destroyed)"
            elif "uaf 2" in awe:
                key, txt = KEY_F15, "completion passed through type_erased_stream's receiver wrappers (miscompiled at -O1)"
            elif mon:
                key, txt = "k2s/monitor/%s/%s" % (mon[0], ks), mon[1]
            else:
                key, txt = "k2s/corr/%s" % ks, ""
            if any(v[0] == key for v in chk.violations):
                continue
            rec = {"kind": "k2s", "key": key, "case": case_model(case), "cpp": case_cpp(case), "prestop": pre, "script": sc,
                   "impl": io, "model": mo, "model_as_written": aw, "monitor": list(mon) if mon else None,
                   "obligation": "K2-stream correspondence SCalc.exec vs the real stream algorithms + direct monitors",
                   "replay": "echo '%s' | %s" % (il, exe)}
            rp = chk.replay_file("k2s_%s" % hashlib.sha256((key + case_model(case) + sc).encode()).hexdigest()[:10], rec)
            chk.violation(key, rp, text="%s | %s | pre=%d %s | %s | impl=%s | model=%s" % (
                key, case_model(case), pre, sc, txt, ci[:240], cm[:240]))
    stats["distinct_traces"] = len(distinct)
    return stats


def model_run(lines):
    exe = os.environ.get("K2S_MODEL_EXE")                 # development only
    if exe:
        rc, out, err = vlib.sh2([exe], input="\n".join(lines) + "\n", timeout=900)
        res = out.split("\n")
        if res and res[-1] == "":
            res.pop()
        if rc != 0 or len(res) != len(lines):
            raise RuntimeError("model driver failed: " + err[-500:])
        return res
    return vlib.model_run(lines)


def standard_k2s(chk):
    """quick: few translation units (cached by content hash of TU + harness + /repo tree)"""
    quick = chk.tier == "quick"
    run_k2s(chk, n_tus=5 if quick else 28, cases_per_tu=6, scripts_per_case=14 if quick else 40,
            depth_range=(0, 4) if quick else (0, 5))
    # the same with move-sensitive elements and by-value callables (K2S_ELEM_MV)
    return run_k2s(chk, n_tus=2 if quick else 10, cases_per_tu=6, scripts_per_case=14 if quick else 40,
                   depth_range=(1, 4) if quick else (1, 5), tag="k2smv", corpus=MV_CORPUS, mv=True)
