#!/usr/bin/env python3
import json, os, sys
sys.path.insert(0, os.path.dirname(os.path.abspath(__file__)))
import manifest_data as M
V = os.path.dirname(os.path.dirname(os.path.abspath(__file__)))
ids = [json.loads(l)["id"] for l in open(os.path.join(V, "properties.jsonl"))]
checks, na = [], []
for i in ids:
    p = M.PROPS.get(i)
    if p and p.get("claimed"):
        checks.append({
            "property_id": i,
            "quick_cmd": "tools/check %s --tier quick" % i,
            "thorough_cmd": "tools/check %s --tier thorough" % i,
            "evidence_file": "/verif/evidence/%s.json" % i,
            "replay_cmd_template": "tools/check %s --replay {path}" % i,
            "engine": p.get("engine", "coq+tie"),
            "level_claimed": {"category": p.get("category", "proof"), "text": p["text"], "design_ref": p.get("design_ref", "")},
            "level_note": p["note"],
            "technique": p["technique"],
        })
    else:
        na.append({"property_id": i, "reason": (M.NOT_YET.get(i) or "machine-checked model, theorems and correspondence check for this property are not built yet; not claimed on the strength of tests alone (see DESIGN.md section 10)")})
m = {
 "version": 1,
 "setup_cmd": "python3 tools/setup.py",
 "hooks": {"guard": "UNIFEX_VERIF", "enable": "none needed: checks force-include /verif/harness/verif_shim.hpp (g++ -include) when compiling /repo's sources; no source hooks exist",
           "baseline_off_cmd": "cmake --build /repo/_build && ctest --test-dir /repo/_build -j8 --timeout 900",
           "source_commits": [], "add_only": True},
 "engines": [
   {"name": "coq", "path": "coq/", "serves_properties": [c["property_id"] for c in checks], "kind_free_text": "Coq 8.16 models (Defs), proofs, Properties_<id>.v; extraction to ocaml/"},
   {"name": "harness", "path": "harness/", "serves_properties": [c["property_id"] for c in checks], "kind_free_text": "C++ drivers compiled against /repo's working tree on every check; schedule-controlling shim (verif_shim.hpp + dsched)"},
 ],
 "checks": checks,
 "not_applicable": na,
 "notes": "See DESIGN.md. Findings fixed in /repo are listed in KNOWN_FINDINGS.txt.",
}
json.dump(m, open(os.path.join(V, "MANIFEST.json"), "w"), indent=1)
print("claimed:", [c["property_id"] for c in checks])
