// K1 driver: the real unifex::v1::async_scope (= v2 scope + stop source).
// program: <spawners: string over s,a,d,n,f> <joiners: string over j,k,r,q>
//   s  spawn_detached(then(leaf), scope) on thread A_i; the leaf is completed on thread C_i
//   n  like s, but only after some closer/joiner has started
//   a  scope.attach(leaf) connected to a logging receiver + start; leaf completed on C_i
//   d  scope.attach(leaf) dropped unstarted
//   f  scope.spawn(then(leaf)) = spawn_future: reference a = the future, reference b = the spawned
//      operation; the future is dropped unconsumed on A_i; the leaf is completed on C_i
//   x  spawn_detached(then(throwing_leaf), scope): connect of the nested sender throws while the
//      detached operation is being constructed; the caller catches
//   w  spawn_detached(then(leaf), scope, throwing allocator): the allocation throws; caller catches
//   y  scope.attach(throwing_leaf) then connect: throws on an admitted sender (caller catches); a
//      rejected one connects, is started and completes with done
//   z  scope.spawn(then(throwing_leaf)) = spawn_future whose operation construction throws
//   j  complete()      k  cleanup()      r  request_stop() and return      q  request_stop(); complete()
// `!ref k` markers: see k1_scope.cpp.  The owner (thread 0) destroys the scope once every spawn
// call has returned and every closer/joiner is done.
#include <unifex/v1/async_scope.hpp>
#include <unifex/then.hpp>
#include "k1_scope_common.hpp"
using namespace unifex;

static auto void_leaf(vh::leaf_ctl* c) { return then(vh::leaf{c}, [](int) noexcept {}); }
static auto void_throwing(int i) { return then(sc::throwing_leaf{i}, [](int) noexcept {}); }

struct Shared {
  manual_lifetime<v1::async_scope> scope;
  static constexpr int MAXS = 6, MAXJ = 3;
  vh::leaf_ctl ctl[MAXS];
  vh::root_state root[MAXS];
  bool nested[MAXS] = {};
  bool rejected[MAXS] = {};
  using att_t = decltype(std::declval<v1::async_scope&>().attach(vh::leaf{nullptr}));
  using att_op_t = connect_result_t<att_t, vh::root_receiver<>>;
  manual_lifetime<att_op_t> att_op[MAXS];
  using att_x_t = decltype(std::declval<v1::async_scope&>().attach(sc::throwing_leaf{0}));
  manual_lifetime<connect_result_t<att_x_t, vh::root_receiver<>>> att_x[MAXS];
  sc::run_ctl rc;
  using complete_t = decltype(std::declval<v1::async_scope&>().complete());
  using cleanup_t = decltype(std::declval<v1::async_scope&>().cleanup());
  manual_lifetime<connect_result_t<complete_t, sc::join_receiver>> cop[MAXJ];
  manual_lifetime<connect_result_t<cleanup_t, sc::join_receiver>> kop[MAXJ];
  sc::join_state jst[MAXJ];
  sc::resume_slot slot[MAXJ];
  bool setup = false;
  int closers_started = 0;
  char leafname[MAXS][16], nestname[MAXS][16];
};

int main(int argc, char** argv) {
  auto cli = vh::parse_cli(argc, argv);
  std::string sp = cli.prog.at(0), jn = cli.prog.size() > 1 ? cli.prog[1] : "k";
  if (sp == "-") sp = "";
  const int S = (int)sp.size(), J = (int)jn.size();
  std::vector<int> ref0(S);
  { int k = 0; for (int i = 0; i < S; ++i) { ref0[i] = k; k += (sp[i] == 'f' || sp[i] == 'z') ? 2 : 1; } }
  auto is_fault = [](char c) { return c == 'x' || c == 'w' || c == 'y' || c == 'z'; };

  auto make = [&]() -> std::vector<std::function<void()>> {
    auto sh = std::make_shared<Shared>();
    for (int i = 0; i < S; ++i) {
      std::snprintf(sh->leafname[i], 16, "leaf%d", i); sh->ctl[i].name = sh->leafname[i];
      std::snprintf(sh->nestname[i], 16, "nest%d", i);
    }
    for (int j = 0; j < J; ++j) sh->slot[j].id = j;
    std::vector<std::function<void()>> th;
    th.push_back([sh, S, J] {
      sh->scope.construct();
      auto& sc = sh->scope.get();
      dsched::name_range(&sc.scope_.opState_, sizeof(sc.scope_.opState_), "scope.opState");
      dsched::name_range(&sc.scope_.evt_.state_, sizeof(sc.scope_.evt_.state_), "evt.state");
      dsched::name_value((std::uint64_t)(std::uintptr_t)&sc.scope_.evt_, "SIG");
      dsched::name_range(&sc.stopSource_.state_, 1, "stop.state");
      sh->setup = true;
      dsched::block_until([&] {
        for (int i = 0; i < S; ++i) if (!sh->nested[i]) return false;
        for (int j = 0; j < J; ++j) if (sh->jst[j].completions == 0) return false;
        return true;
      });
      dsched::action("scope.destroy");
      sh->scope.destruct();
    });
    for (int i = 0; i < S; ++i) {
      char k = sp[i];
      int r = ref0[i];
      th.push_back([sh, i, k, r] {
        sc::active_guard ag(&sh->rc);
        dsched::block_until([&] { return sh->setup; });
        if (k == 'n') dsched::block_until([&] { return sh->closers_started > 0; });
        auto& scope = sh->scope.get();
        dsched::action("ref %d", r);
        if (k == 's' || k == 'n') {
          spawn_detached(void_leaf(&sh->ctl[i]), scope);
          sh->rejected[i] = !sh->ctl[i].started;   // start is synchronous inside spawn_detached
          sh->nested[i] = true;
          dsched::action("spawn%d %s", i, sh->rejected[i] ? "rejected" : "admitted");
        } else if (k == 'd') {
          {
            auto snd = scope.attach(vh::leaf{&sh->ctl[i]});
            sh->rejected[i] = true;   // never started
            sh->nested[i] = true;
          }
          dsched::action("nest%d dropped", i);
        } else if (k == 'a') {
          vh::root_receiver<> rcv{&sh->root[i], {}, sh->nestname[i]};
          auto snd = scope.attach(vh::leaf{&sh->ctl[i]});
          sh->nested[i] = true;
          sh->att_op[i].construct_with([&] { return unifex::connect(std::move(snd), rcv); });
          unifex::start(sh->att_op[i].get());
          sh->rejected[i] = !sh->ctl[i].started;
          dsched::action("attach%d %s", i, sh->rejected[i] ? "rejected" : "admitted");
        } else if (k == 'x' || k == 'w' || k == 'z') {
          try {
            if (k == 'x') spawn_detached(void_throwing(i), scope);
            else if (k == 'w') spawn_detached(void_leaf(&sh->ctl[i]), scope, sc::throwing_alloc<std::byte>{i});
            else { auto fut = scope.spawn(void_throwing(i)); (void)fut; }
            dsched::action("fault%d.nothrow", i);   // the scope was closed: nothing was constructed
          } catch (const sc::connect_failure&) {
            dsched::action("fault%d.caught", i);
          } catch (const std::bad_alloc&) {
            dsched::action("fault%d.caught", i);
          }
          sh->rejected[i] = true;
          sh->nested[i] = true;
        } else if (k == 'y') {
          vh::root_receiver<> rcv{&sh->root[i], {}, sh->nestname[i]};
          auto snd = scope.attach(sc::throwing_leaf{i});
          sh->rejected[i] = true;
          sh->nested[i] = true;
          try {
            sh->att_x[i].construct_with([&] { return unifex::connect(std::move(snd), rcv); });
            unifex::start(sh->att_x[i].get());   // only an empty (rejected) sender gets here
          } catch (const sc::connect_failure&) {
            dsched::action("fault%d.caught", i);
          }
        } else if (k == 'f') {
          {
            auto fut = scope.spawn(void_leaf(&sh->ctl[i]));
            sh->rejected[i] = !sh->ctl[i].started;
            sh->nested[i] = true;
            dsched::action("future%d %s", i, sh->rejected[i] ? "rejected" : "admitted");
            dsched::action("ref %d", r);
          }
          dsched::action("future%d dropped", i);
        }
      });
    }
    for (int i = 0; i < S; ++i) {
      if (sp[i] == 'd' || is_fault(sp[i])) continue;
      int r = ref0[i] + (sp[i] == 'f' ? 1 : 0);
      th.push_back([sh, i, r] {
        sc::active_guard ag(&sh->rc);
        dsched::block_until([&] { return sh->ctl[i].started || (sh->nested[i] && sh->rejected[i]); });
        if (!sh->ctl[i].started) return;
        dsched::action("ref %d", r);
        sh->ctl[i].complete('v', i);
      });
    }
    for (int j = 0; j < J; ++j) {
      char jk = jn[j];
      th.push_back([sh, j, jk] {
        sc::active_guard ag(&sh->rc);
        dsched::block_until([&] { return sh->setup; });
        auto& scope = sh->scope.get();
        sc::join_receiver rcv{&sh->jst[j], &sh->slot[j], j};
        dsched::action("join%d.start", j);
        sh->closers_started++;
        if (jk == 'r' || jk == 'q') {
          scope.request_stop();
          dsched::action("stop%d.returned", j);
          if (jk == 'r') { sh->jst[j].completions = 1; return; }
        }
        if (jk == 'k') {
          sh->kop[j].construct_with([&] { return unifex::connect(scope.cleanup(), rcv); });
          unifex::start(sh->kop[j].get());
          if (!sh->slot[j].run_when_ready(&sh->rc)) sh->jst[j].completions = -1;
          sh->kop[j].destruct();
        } else {
          sh->cop[j].construct_with([&] { return unifex::connect(scope.complete(), rcv); });
          unifex::start(sh->cop[j].get());
          if (!sh->slot[j].run_when_ready(&sh->rc)) sh->jst[j].completions = -1;
          sh->cop[j].destruct();
        }
      });
    }
    sh->rc.active = (int)th.size() - 1;
    return th;
  };
  sc::MonitorCfg cfg;
  cfg.joins_started = 0;
  for (char c : jn) if (c != 'r') cfg.joins_started++;
  cfg.expect_stop = jn.find_first_of("krq") != std::string::npos;
  for (int i = 0; i < S; ++i) if (sp[i] == 'f') cfg.stop_exempt.insert("leaf" + std::to_string(i));
  for (char c : sp) {
    if (c == 'x') cfg.fault_op = "spawn_detached";
    if (c == 'w') cfg.fault_op = "spawn_detached-alloc";
    if (c == 'y') cfg.fault_op = "attach+connect";
    if (c == 'z') cfg.fault_op = "spawn_future";
  }
  auto monitor = [&](const dsched::Result& r) -> std::string { return sc::scope_monitor(r, cfg); };
  return vh::drive(cli, make, monitor);
}
