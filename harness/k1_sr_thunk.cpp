// K1 driver: the stop-request thunk of task<> (include/unifex/task.hpp, _sr_thunk_promise_base: refCount_,
// stop_callback, deferred stop request, complete_and_choose_continuation).  A real task<int> awaiting one scripted
// leaf is connected to a receiver whose scheduler is a manual queue drained by its own virtual thread, so the
// deferred stop request and the task's completion are separate steps; an external stop request races with the
// completion of the leaf.
// program: <leaf outcome v|e|d> <stop|nostop>
#include <unifex/task.hpp>
#include <unifex/scheduler_concepts.hpp>
#include <cstddef>
#include "vh.hpp"
using namespace unifex;

// ---- manual scheduler: schedule() enqueues; virtual thread 3 runs the items in order -----------------------
struct qctx {
  // plain data: virtual threads are switched only at instrumented accesses and dsched calls
  std::vector<std::pair<void (*)(void*), void*>> q;
  int enq = 0;
};
template <typename R>
struct qop {
  qctx* c; R r;
  void start() noexcept {
    dsched::action("enq %d", c->enq++);
    c->q.push_back({[](void* p) { unifex::set_value(std::move(static_cast<qop*>(p)->r)); }, this});
  }
};
struct qsched {
  qctx* c;
  struct sender {
    template <template <typename...> class Variant, template <typename...> class Tuple>
    using value_types = Variant<Tuple<>>;
    template <template <typename...> class Variant>
    using error_types = Variant<std::exception_ptr>;
    static constexpr bool sends_done = true;
    static constexpr blocking_kind blocking = blocking_kind::never;
    qctx* c;
    template <typename R>
    qop<remove_cvref_t<R>> connect(R&& r) const { return qop<remove_cvref_t<R>>{c, (R&&)r}; }
  };
  sender schedule() const noexcept { return {c}; }
  friend bool operator==(qsched a, qsched b) noexcept { return a.c == b.c; }
  friend bool operator!=(qsched a, qsched b) noexcept { return a.c != b.c; }
};

// ---- a leaf that names the thunk's atomics when it is started (the stop token it sees is the thunk's) -------
struct leaf_ctl2 : vh::leaf_ctl {};
template <typename Receiver>
struct nleaf_op {
  vh::leaf_op<Receiver> inner;
  void start() noexcept {
    auto tok = unifex::get_stop_token(inner.r);
    inplace_stop_source* src = tok.source_;
    using P = _task::_sr_thunk_promise_base;
#pragma GCC diagnostic push
#pragma GCC diagnostic ignored "-Winvalid-offsetof"
    auto* p = reinterpret_cast<P*>(reinterpret_cast<char*>(src) - offsetof(P, stopSource_));
#pragma GCC diagnostic pop
    dsched::name_range(&p->refCount_, sizeof(p->refCount_), "thunk.refCount");
    dsched::name_range(&src->state_, 1, "thunk.src");
    inner.start();
  }
};
struct nleaf {
  template <template <typename...> class Variant, template <typename...> class Tuple>
  using value_types = Variant<Tuple<int>>;
  template <template <typename...> class Variant>
  using error_types = Variant<std::exception_ptr>;
  static constexpr bool sends_done = true;
  static constexpr blocking_kind blocking = blocking_kind::never;
  static constexpr bool is_always_scheduler_affine = false;
  vh::leaf_ctl* ctl;
  template <typename R>
  friend nleaf_op<remove_cvref_t<R>> tag_invoke(tag_t<unifex::connect>, const nleaf& s, R&& r) {
    return nleaf_op<remove_cvref_t<R>>{vh::leaf_op<remove_cvref_t<R>>{s.ctl, (R&&)r}};
  }
};

struct root_rcv {
  vh::root_state* st;
  inplace_stop_token tok;
  qctx* c;
  void set_value(int) && noexcept { st->completions++; st->kind = 'v'; dsched::action("root value"); }
  void set_error(std::exception_ptr) && noexcept { st->completions++; st->kind = 'e'; dsched::action("root error"); }
  void set_done() && noexcept { st->completions++; st->kind = 'd'; dsched::action("root done"); }
  friend inplace_stop_token tag_invoke(tag_t<get_stop_token>, const root_rcv& r) noexcept { return r.tok; }
  friend qsched tag_invoke(tag_t<get_scheduler>, const root_rcv& r) noexcept { return qsched{r.c}; }
};

static task<int> body(vh::leaf_ctl* ctl) { co_return co_await nleaf{ctl}; }

int main(int argc, char** argv) {
  auto cli = vh::parse_cli(argc, argv);
  char outk = cli.prog.at(0)[0];
  std::string stopmode = cli.prog.size() > 1 ? cli.prog[1] : "nostop";
  auto make = [&]() -> std::vector<std::function<void()>> {
    struct Shared {
      vh::leaf_ctl ctl;
      inplace_stop_source ext;
      vh::root_state root;
      qctx ctx;
      using op_t = connect_result_t<task<int>, root_rcv>;
      manual_lifetime<op_t> op;
      bool constructed = false, stopper_done = false;
    };
    auto sh = std::make_shared<Shared>();
    sh->ctl.name = "leaf";
    std::vector<std::function<void()>> th;
    // thread 0: connect + start, destroy the operation once the root completed
    th.push_back([sh] {
      dsched::name_range(&sh->ext.state_, 1, "ext.state");
      sh->op.construct_with([&] { return unifex::connect(body(&sh->ctl), root_rcv{&sh->root, sh->ext.get_token(), &sh->ctx}); });
      sh->constructed = true;
      unifex::start(sh->op.get());
      dsched::block_until([&] { return sh->root.completions > 0; });
      sh->op.destruct();
      dsched::action("op_destroyed");
    });
    // thread 1: completes the leaf
    th.push_back([sh, outk] { sh->ctl.complete(outk, 7); });
    // thread 2: external stop request
    th.push_back([sh, stopmode] {
      if (stopmode == "stop") { dsched::block_until([&] { return sh->constructed; }); sh->ext.request_stop(); }
      sh->stopper_done = true;
    });
    // thread 3: the scheduler's run loop
    th.push_back([sh] {
      for (;;) {
        dsched::block_until([&] { return !sh->ctx.q.empty() || (sh->root.completions > 0 && sh->stopper_done); });
        if (sh->ctx.q.empty()) break;
        auto it = sh->ctx.q.front();
        sh->ctx.q.erase(sh->ctx.q.begin());
        dsched::action("run");
        it.first(it.second);
      }
    });
    return th;
  };
  // direct monitor: the continuation (the root receiver) is resumed exactly once, after the leaf completed and, if
  // the deferred stop request was started (it is the second thing enqueued at most), after it ran
  auto monitor = [&](const dsched::Result& r) -> std::string {
    int roots = 0, adds = 0, subs = 0; bool leaf_done = false, early = false;
    const char* want = outk == 'v' ? "!root value" : outk == 'e' ? "!root error" : "!root done";
    std::string wrong;
    for (auto& e : r.trace) {
      if (e.find("!root ") != std::string::npos && e.find(want) == std::string::npos) wrong = e;
      if (e.find("!root ") != std::string::npos) { ++roots; if (!leaf_done) early = true; if (adds != 0 && subs < 2) early = true; }
      if (e.find("leaf.complete") != std::string::npos) leaf_done = true;
      if (e.find("thunk.refCount A") != std::string::npos) ++adds;
      if (e.find("thunk.refCount U") != std::string::npos) ++subs;
    }
    if (roots != 1) return "continuation resumed " + std::to_string(roots) + " times";
    // the leaf ignores stop requests: the task's result is the leaf's, whether or not a stop request raced with it
    if (!wrong.empty()) return std::string("task completed with `") + wrong + "` although its body ended with " + (outk == 'v' ? "a value" : outk == 'e' ? "an exception" : "done");
    if (early) return "continuation resumed before the task completed / before the started deferred stop request ran";
    return "";
  };
  return vh::drive(cli, make, monitor);
}
