// K1 driver (C01/C04, unit when_all_range/RegElect): the real unifex::when_all_range over a vector of n
// scripted leaves (n = 0..4), each completed on its own virtual thread, with an external stop request on the
// root receiver's token racing on another thread (or requested before connect, or never).
// program: <outcomes: string over v,e,d; "-" = no child at all> <stop|nostop|prestop>
// virtual threads: 0..n-1 = the completers of child 0..n-1; n = connect + start(); n+1 = the external
// stop requester; n+2 = the owner of the receiver: destroys the operation as soon as the receiver has
// been completed and fills the storage with 0xAB (under ASan the storage is really freed) so that any
// late touch is visible.
#include <unifex/when_all_range.hpp>
#include "vh.hpp"
#include "k1_elect_common.inc"
using namespace unifex;

namespace {

std::vector<std::function<void()>> make_threads(const std::string& outs, const std::string& stopmode) {
  const std::size_t N = outs.size();
  using sender_t = decltype(when_all_range(std::vector<vh::leaf>{}));
  using op_t = connect_result_t<sender_t, velect::root_receiver>;
  struct Shared {
    vh::leaf_ctl ctl[4];
    inplace_stop_source ext;
    velect::root_state root;
    void* mem = nullptr;
    op_t* op = nullptr;
    bool constructed = false;
    ~Shared() { if (mem) ::operator delete(mem, std::align_val_t(alignof(op_t))); }
  };
  auto sh = std::make_shared<Shared>();
  static const char* names[] = {"leaf0", "leaf1", "leaf2", "leaf3"};
  for (std::size_t i = 0; i < N; ++i) sh->ctl[i].name = names[i];
  sh->root.ext = &sh->ext;
  // pre-stopped: the receiver's source is stopped outside the run (no events, no yield points)
  if (stopmode == "prestop") sh->ext.request_stop();
  std::vector<std::function<void()>> th;
  for (std::size_t i = 0; i < N; ++i)
    th.push_back([sh, i, k = outs[i]] { sh->ctl[i].complete(k, (int)i + 10); });
  // N: connect + start
  th.push_back([sh, N] {
    dsched::name_range(&sh->ext.state_, 1, "ext.state");
    sh->mem = ::operator new(sizeof(op_t), std::align_val_t(alignof(op_t)));
    std::memset(sh->mem, 0xAB, sizeof(op_t));
    std::vector<vh::leaf> v;
    for (std::size_t i = 0; i < N; ++i) v.push_back(vh::leaf{&sh->ctl[i]});
    sh->op = ::new (sh->mem) op_t(unifex::connect(
        when_all_range(std::move(v)), velect::root_receiver{&sh->root, sh->ext.get_token()}));
    op_t& op = *sh->op;
    dsched::name_range(&op.refCount_, sizeof(op.refCount_), "op.refCount");
    dsched::name_range(&op.doneOrError_, sizeof(op.doneOrError_), "op.doneOrError");
    dsched::name_range(&op.stopSource_.state_, 1, "op.src.state");
    dsched::name_range(&op.stopCallback_, sizeof(op.stopCallback_), "op.cb");
    sh->constructed = true;
    dsched::action("op.start");
    unifex::start(op);
  });
  // N+1: external stop
  th.push_back([sh, stopmode] {
    if (stopmode == "stop") { dsched::block_until([&] { return sh->constructed; }); sh->ext.request_stop(); }
  });
  // N+2: the owner of the receiver
  th.push_back([sh] {
    dsched::block_until([&] { return sh->root.completions > 0; });
    sh->op->~op_t();
    std::memset(sh->mem, 0xAB, sizeof(op_t));
#if defined(__SANITIZE_ADDRESS__)
    ::operator delete(sh->mem, std::align_val_t(alignof(op_t)));
    sh->mem = nullptr;
#endif
    dsched::action("op_destroyed");
  });
  return th;
}

}  // namespace

int main(int argc, char** argv) {
  auto cli = vh::parse_cli(argc, argv);
  std::string outs = cli.prog.at(0), stopmode = cli.prog.size() > 1 ? cli.prog[1] : "nostop";
  if (outs == "-") outs = "";
  if (outs.size() > 4) outs.resize(4);
  auto make = [&]() { return make_threads(outs, stopmode); };
  auto monitor = [&](const dsched::Result& r) { return velect::monitor(r, outs, stopmode, velect::RANGE); };
  return vh::drive(cli, make, monitor);
}
// rev 2
