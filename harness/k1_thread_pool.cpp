// K1 driver (C06, unit 4): the real static_thread_pool.
//   program: <mode: dtor|race> <k: worker threads> <counts: n1,n2,...>
//   thread 0 constructs static_thread_pool(k) (its k workers are created through the shim and become
//   virtual threads p+1..p+k).
//     dtor: waits until every producer returned from its last start(), then request_stop() + join()
//     race: request_stop() at once, racing the producers; then as dtor
//   threads 1..p: producer x connects and starts schedule(pool) operations x.0, x.1, ...
// Receivers log `!run x.j value`.
#include <unifex/static_thread_pool.hpp>
#include <unifex/scheduler_concepts.hpp>
#include <unifex/sender_concepts.hpp>
#include "vh.hpp"
using namespace unifex;

namespace {
constexpr int MAXP = 6, MAXI = 6;

const char* intern(const std::string& s) {
  static std::set<std::string> pool;
  return pool.insert(s).first->c_str();
}

struct Shared;
struct item_receiver {
  Shared* sh; int p, j;
  void set_value() && noexcept;
  void set_done() && noexcept { dsched::action("run %d.%d done", p, j); }
  template <class E> void set_error(E&&) && noexcept { dsched::action("run %d.%d error", p, j); }
};
using sched_t = decltype(std::declval<static_thread_pool&>().get_scheduler());
using op_t = connect_result_t<decltype(schedule(std::declval<sched_t&>())), item_receiver>;

struct Shared {
  manual_lifetime<static_thread_pool> pool;
  bool ready = false;
  int producers_done = 0;
  manual_lifetime<op_t> ops[MAXP][MAXI];
  bool made[MAXP][MAXI] = {};
  ~Shared() { for (int p = 0; p < MAXP; ++p) for (int j = 0; j < MAXI; ++j) if (made[p][j]) ops[p][j].destruct(); }
};
void item_receiver::set_value() && noexcept { dsched::action("run %d.%d value", p, j); }

std::vector<int> parse_counts(const std::string& s) {
  std::vector<int> v; std::stringstream ss(s); std::string t;
  while (std::getline(ss, t, ',')) if (!t.empty()) v.push_back(std::atoi(t.c_str()));
  return v;
}
}  // namespace

int main(int argc, char** argv) {
  auto cli = vh::parse_cli(argc, argv);
  const bool race = cli.prog.at(0) == "race";
  const int k = std::atoi(cli.prog.at(1).c_str());
  const std::vector<int> counts = parse_counts(cli.prog.at(2));
  const int p = (int)counts.size();
  if (p >= MAXP || k < 1 || k > 4) { std::printf("FATAL bad program\n"); return 2; }
  for (int c : counts) if (c > MAXI) { std::printf("FATAL too many items\n"); return 2; }

  auto make = [&]() -> std::vector<std::function<void()>> {
    auto sh = std::make_shared<Shared>();
    std::vector<std::function<void()>> th;
    th.push_back([sh, k, p, race] {
      sh->pool.construct((std::uint32_t)k);
      auto& pool = sh->pool.get();
      dsched::name_range(&pool.nextThread_, sizeof(pool.nextThread_), "pool.next");
      for (int q = 0; q < k; ++q) {
        dsched::name_range(&pool.threadStates_[q].mut_, sizeof(std::mutex), intern("q" + std::to_string(q) + ".mutex"));
        dsched::name_range(&pool.threadStates_[q].cv_, sizeof(std::condition_variable), intern("q" + std::to_string(q) + ".cv"));
        dsched::name_range(&pool.threads_[q], sizeof(std::thread), intern("thr" + std::to_string(q)));
      }
      sh->ready = true;
      if (race) pool.request_stop();
      dsched::block_until([&] { return sh->producers_done == p; });
      sh->pool.destruct();
      dsched::action("joined");
    });
    for (int x = 1; x <= p; ++x)
      th.push_back([sh, x, n = counts[x - 1]] {
        dsched::block_until([&] { return sh->ready; });
        auto sched = sh->pool.get().get_scheduler();
        for (int j = 0; j < n; ++j) {
          sh->ops[x][j].construct_with([&] { return unifex::connect(schedule(sched), item_receiver{sh.get(), x, j}); });
          sh->made[x][j] = true;
          unifex::start(sh->ops[x][j].get());
        }
        sh->producers_done++;
      });
    return th;
  };

  // direct monitor
  auto monitor = [&](const dsched::Result& r) -> std::string {
    std::string err;
    std::vector<int> nextj(p + 1, 0);
    std::map<std::string, bool> pushed_late;   // item -> pushed into a queue whose stop flag was set
    std::vector<bool> qstop(k, false);
    std::set<std::string> ran;
    bool joined = false; int joins = 0;
    for (auto& e : r.trace) {
      int t = std::atoi(e.c_str() + 1);
      std::string rest = e.substr(e.find(' ') + 1);
      if (rest[0] == 'q' && rest.find(".mutex ML") != std::string::npos && rest.find(" 0->1") != std::string::npos) {
        int q = std::atoi(rest.c_str() + 1);
        if (t == 0) qstop[q] = true;
        else if (t >= 1 && t <= p) {
          std::string it = std::to_string(t) + "." + std::to_string(nextj[t]++);
          pushed_late[it] = qstop[q];
        }
      } else if (rest.rfind("!run ", 0) == 0) {
        char it[32], kind[16];
        std::sscanf(rest.c_str(), "!run %31s %15s", it, kind);
        if (t <= p || t > p + k) err += std::string("item ") + it + " completed off the pool's threads (t" + std::to_string(t) + "); ";
        if (!ran.insert(it).second) err += std::string("item ") + it + " completed twice; ";
        if (std::string(kind) != "value") err += std::string("item ") + it + " completed with " + kind + "; ";
        if (joined) err += std::string("item ") + it + " ran after join(); ";
      } else if (rest.rfind("thr", 0) == 0 && rest.find(" J.") != std::string::npos) {
        ++joins;
      } else if (rest == "!joined") {
        joined = true;
        if (joins != k) err += "joined " + std::to_string(joins) + " of " + std::to_string(k) + " threads; ";
      }
    }
    if (!joined) err += "no join; ";
    for (auto& kv : pushed_late)
      if (!ran.count(kv.first) && !kv.second) err += "item " + kv.first + " was accepted before request_stop reached its queue and never ran; ";
    int total = 0; for (int c : counts) total += c;
    if ((int)pushed_late.size() != total) err += "only " + std::to_string(pushed_late.size()) + " of " + std::to_string(total) + " items were pushed; ";
    if (!race && (int)ran.size() != total) err += "ran " + std::to_string(ran.size()) + " of " + std::to_string(total) + " items; ";
    return err;
  };
  return vh::drive(cli, make, monitor);
}
