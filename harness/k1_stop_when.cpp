// K1 driver (C01/C04, unit stop_when/RegElect): the real unifex::stop_when(source, trigger) over two scripted
// leaves, each completed on its own virtual thread, with an external stop request on the root receiver's token
// racing on another thread (or requested before connect, or never).
// program: <outcomes: 2 characters over v,e,d: source then trigger> <stop|nostop|prestop>
// virtual threads: 0 = the completer of the source, 1 = of the trigger; 2 = connect + start(); 3 = the external
// stop requester; 4 = the owner of the receiver: destroys the operation as soon as the receiver has been completed
// and fills the storage with 0xAB (under ASan the storage is really freed) so that any late touch is visible.
#include <unifex/stop_when.hpp>
#include "vh.hpp"
#include "k1_elect_common.inc"
using namespace unifex;

namespace {

std::vector<std::function<void()>> make_threads(const std::string& outs, const std::string& stopmode) {
  using sender_t = decltype(stop_when(vh::leaf{nullptr}, velect::void_leaf{nullptr}));
  using op_t = connect_result_t<sender_t, velect::root_receiver>;
  struct Shared {
    vh::leaf_ctl ctl[2];
    inplace_stop_source ext;
    velect::root_state root;
    void* mem = nullptr;
    op_t* op = nullptr;
    bool constructed = false;
    ~Shared() { if (mem) ::operator delete(mem, std::align_val_t(alignof(op_t))); }
  };
  auto sh = std::make_shared<Shared>();
  sh->ctl[0].name = "leaf0"; sh->ctl[1].name = "leaf1";
  sh->root.ext = &sh->ext;
  // pre-stopped: the receiver's source is stopped outside the run (no events, no yield points)
  if (stopmode == "prestop") sh->ext.request_stop();
  std::vector<std::function<void()>> th;
  for (std::size_t i = 0; i < 2; ++i)
    th.push_back([sh, i, k = outs[i]] { sh->ctl[i].complete(k, (int)i + 10); });
  // 2: connect + start
  th.push_back([sh] {
    dsched::name_range(&sh->ext.state_, 1, "ext.state");
    sh->mem = ::operator new(sizeof(op_t), std::align_val_t(alignof(op_t)));
    std::memset(sh->mem, 0xAB, sizeof(op_t));
    sh->op = ::new (sh->mem) op_t(unifex::connect(
        stop_when(vh::leaf{&sh->ctl[0]}, velect::void_leaf{&sh->ctl[1]}),
        velect::root_receiver{&sh->root, sh->ext.get_token()}));
    op_t& op = *sh->op;
    dsched::name_range(&op.activeOpCount_, sizeof(op.activeOpCount_), "op.refCount");
    dsched::name_range(&op.stopSource_.state_, 1, "op.src.state");
    dsched::name_range(&op.stopCallback_, sizeof(op.stopCallback_), "op.cb");
    sh->constructed = true;
    dsched::action("op.start");
    unifex::start(op);
  });
  // 3: external stop
  th.push_back([sh, stopmode] {
    if (stopmode == "stop") { dsched::block_until([&] { return sh->constructed; }); sh->ext.request_stop(); }
  });
  // 4: the owner of the receiver
  th.push_back([sh] {
    dsched::block_until([&] { return sh->root.completions > 0; });
    sh->op->~op_t();
    std::memset(sh->mem, 0xAB, sizeof(op_t));
#if defined(__SANITIZE_ADDRESS__)
    ::operator delete(sh->mem, std::align_val_t(alignof(op_t)));
    sh->mem = nullptr;
#endif
    dsched::action("op_destroyed");
  });
  return th;
}

}  // namespace

int main(int argc, char** argv) {
  auto cli = vh::parse_cli(argc, argv);
  std::string outs = cli.prog.at(0), stopmode = cli.prog.size() > 1 ? cli.prog[1] : "nostop";
  outs.resize(2, 'v');
  auto make = [&]() { return make_threads(outs, stopmode); };
  auto monitor = [&](const dsched::Result& r) { return velect::monitor(r, outs, stopmode, velect::STOPWHEN); };
  return vh::drive(cli, make, monitor);
}
// rev 2
