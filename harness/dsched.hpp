// dsched — deterministic baton scheduler for "virtual threads" (real pthreads, exactly one runs at
// a time) plus a trace recorder and a preemption-bounded schedule explorer.  Used through
// verif_shim.hpp, which routes every std::atomic / mutex / condition_variable / thread / clock
// operation of the library here.  Outside a run every hook is a no-op.
#pragma once
#include <atomic>
#include <chrono>
#include <cstdarg>
#include <cstdint>
#include <functional>
#include <string>
#include <vector>

namespace dsched {

enum Kind : int {
  K_LOAD, K_STORE, K_XCHG, K_CAS, K_ADD, K_SUB, K_OR, K_AND, K_XOR, K_FENCE,
  K_MLOCK, K_MUNLOCK, K_CVWAIT, K_CVNOTIFY, K_YIELD, K_JOIN, K_SPAWN, K_CLOCK, K_SYSCALL
};

bool active() noexcept;        // true on a virtual thread inside a run
int self() noexcept;           // virtual thread id, -1 outside

// ---- hooks called by the shim ------------------------------------------------------------------
void pre(const void* addr, Kind k, int order) noexcept;   // yield point, before the access
void post(const void* addr, Kind k, int order, std::uint64_t oldv, std::uint64_t newv, bool ok) noexcept;
void yield_now() noexcept;                                   // this_thread::yield / spin hint
// generic blocking: the calling virtual thread is descheduled until pred() is true (pred is
// evaluated by whichever thread holds the baton).  deadline_ns < 0: no timeout.  Returns false
// on timeout (virtual clock reached the deadline while every thread was blocked).
bool block_until(std::function<bool()> pred, std::int64_t deadline_ns = -1) noexcept;
int spawn(std::function<void()> fn);          // dynamic virtual thread (library-created threads)
bool thread_done(int tid) noexcept;
std::int64_t now_ns() noexcept;                // virtual clock
void advance_clock(std::int64_t ns) noexcept;  // explicit advance (a schedule-visible step)

// ---- naming, observable actions -----------------------------------------------------------------
void name_range(const void* p, std::size_t bytes, const char* name, std::size_t elem = 0);
void name_value(std::uint64_t v, const char* name);   // render this value (a pointer) symbolically
void action(const char* fmt, ...) noexcept __attribute__((format(printf, 1, 2)));

// ---- running --------------------------------------------------------------------------------------
struct Choice {
  int step;
  std::vector<int> runnable;
  int chosen;
  int current;            // thread that arrived at the yield point (-1 at the start)
  bool current_runnable;
};

struct Options {
  std::vector<std::pair<int, int>> decisions;  // (choice index, thread): overrides of the default policy
  std::uint64_t random_seed = 0;               // != 0: random switches with probability switch_permille
  int switch_permille = 150;
  long step_cap = 200000;
  bool trace_unnamed = false;                  // also log accesses to unnamed locations
};

struct Result {
  std::vector<std::string> trace;   // rendered events, oldest first
  std::vector<Choice> choices;
  bool deadlock = false;
  bool step_cap_hit = false;
  std::string fatal;                // non-empty: run aborted (deadlock / cap)
  long steps = 0;
  std::string schedule() const;     // thread id per choice, run-length encoded "0x13 1x5 ..."
};

// Runs the given thread bodies as virtual threads 0..n-1 (more may be spawned) under opts.
// The calling (real) thread blocks until all virtual threads are done.
// On deadlock / step cap the process cannot be recovered (threads are stuck inside library
// code): on_fatal is called with the partial result and the process exits with code 3.
Result run(const std::vector<std::function<void()>>& threads, const Options& opts);
extern std::function<void(const Result&)> on_fatal;

// Preemption-bounded exploration: calls make() for a fresh set of thread bodies for every
// schedule, check(result) after each run (return false to stop).  Returns number of runs.
struct ExploreStats { long runs = 0; long max_steps = 0; bool truncated = false; };
ExploreStats explore(const std::function<std::vector<std::function<void()>>()>& make,
                     const std::function<bool(const Result&, const Options&)>& check,
                     int preemption_bound, long max_runs, std::uint64_t random_seed = 0, long random_runs = 0);

std::string decisions_to_string(const std::vector<std::pair<int, int>>& d);
std::vector<std::pair<int, int>> decisions_from_string(const std::string& s);

}  // namespace dsched
