// k3_lvss_probe.cpp - deterministic probe run by tools/k2v2.py lvss_probe (cfg asan17); see below.
// let_value_with_stop_source: the operation's own stop source is destroyed while its request_stop() is still running.
//
// The operation registers a callback on the receiver's token that calls stopSource_.request_stop()
// (fused_stop_source.hpp:28-30).  If a child completes synchronously from its stop callback (here with set_done),
// stop_source_receiver::set_done forwards the completion at once (let_value_with_stop_source.hpp:72-75); a parent
// that destroys the finished child operation right away (finally.hpp:440, also let_error / let_done / let_value /
// sequence / retry_when / repeat_effect_until ...) destroys the let_value_with_stop_source operation -- and with it
// stopSource_ -- while inplace_stop_source::request_stop() of that very source is still on the stack: after the
// callback returns it locks the source again (source/inplace_stop_token.cpp request_stop loop) = use after destroy.
// when_all / stop_when protect their own source against exactly this (when_all.hpp:226-234, refCount_).
//
// Here the operation lives in a heap block (allocate) so that AddressSanitizer sees it:
//   g++ -std=c++17 -g -O1 -fsanitize=address -pthread -I<repo>/include this.cpp <libunifex.a built with asan>
// expected: "completed: done", exit 0;  actual: heap-use-after-free in inplace_stop_source::lock / request_stop.
#include <unifex/allocate.hpp>
#include <unifex/finally.hpp>
#include <unifex/inplace_stop_token.hpp>
#include <unifex/just.hpp>
#include <unifex/let_value_with_stop_source.hpp>
#include <unifex/manual_lifetime.hpp>
#include <unifex/receiver_concepts.hpp>
#include <unifex/sender_concepts.hpp>
#include <cstdio>
#include <exception>

// a sender that completes with set_done from inside its stop callback (as cancellable waits and timers do)
template <typename Receiver>
struct reactive_op {
  struct cb {
    reactive_op* self;
    void operator()() noexcept {
      auto* s = self;
      s->callback.destruct();                      // deregister (we are inside the callback: allowed)
      unifex::set_done(std::move(s->r));
    }
  };
  using token_t = unifex::stop_token_type_t<Receiver&>;
  using cb_t = typename token_t::template callback_type<cb>;
  Receiver r;
  unifex::manual_lifetime<cb_t> callback;
  void start() noexcept { callback.construct(unifex::get_stop_token(r), cb{this}); }
};
struct reactive {
  template <template <typename...> class Variant, template <typename...> class Tuple>
  using value_types = Variant<Tuple<>>;
  template <template <typename...> class Variant>
  using error_types = Variant<std::exception_ptr>;
  static constexpr bool sends_done = true;
  template <typename R>
  friend reactive_op<unifex::remove_cvref_t<R>> tag_invoke(unifex::tag_t<unifex::connect>, reactive, R&& r) {
    return reactive_op<unifex::remove_cvref_t<R>>{(R&&)r, {}};
  }
};
struct receiver {
  unifex::inplace_stop_token tok;
  void set_value() && noexcept { std::puts("completed: value"); }
  void set_error(std::exception_ptr) && noexcept { std::puts("completed: error"); }
  void set_done() && noexcept { std::puts("completed: done"); }
  friend unifex::inplace_stop_token tag_invoke(unifex::tag_t<unifex::get_stop_token>, const receiver& r) noexcept { return r.tok; }
};
int main() {
  unifex::inplace_stop_source src;
  auto s = unifex::finally(
      unifex::allocate(unifex::let_value_with_stop_source([](auto&) { return reactive{}; })),
      unifex::just());
  auto op = unifex::connect(std::move(s), receiver{src.get_token()});
  unifex::start(op);
  src.request_stop();
  return 0;
}
