// K1 driver (C19, unit stop_on_request): the real unifex::stop_on_request(tok1, ..., tokn) connected
// to a root receiver that carries the token of source 0.
// program: <n> <reqmask> <premask>
//   n        : number of external stop tokens (0, 1, 2 or 3); there are n+1 stop sources, source 0 is
//              the receiver's, sources 1..n are the ones handed to stop_on_request()
//   reqmask  : string of n+1 characters 0/1, character i = '1': requester thread i+1 calls
//              request_stop() on source i at any time after the operation was constructed
//   premask  : string of n+1 characters 0/1, character i = '1': source i is already stopped before
//              the operation is even connected (its callback then runs inline inside start())
// virtual threads: 0 = connect + start(); 1..n+1 = requester of source 0..n; n+2 = the owner of the
// receiver: destroys the operation as soon as the receiver completed and fills the storage with
// 0xAB (under ASan the storage is really freed), so that any late access is visible.  When no
// source is ever stopped the operation must never complete: the owner then tears the callbacks
// down by hand after start() returned (logged as `teardown`, not part of the protocol).
#include <unifex/stop_on_request.hpp>
#include <unifex/inplace_stop_token.hpp>
#include "vh.hpp"
#include <tuple>
using namespace unifex;

namespace {

static const char* kSrcName[] = {"s.src0", "s.src1", "s.src2", "s.src3"};
static const char* kCbName[] = {"s.cb0", "s.cb1", "s.cb2", "s.cb3"};

template <std::size_t... I>
std::vector<std::function<void()>> make_threads(const std::string& req, const std::string& pre, std::index_sequence<I...>) {
  constexpr std::size_t N = sizeof...(I);
  using sender_t = decltype(stop_on_request(((void)I, std::declval<inplace_stop_token>())...));
  using op_t = connect_result_t<sender_t, vh::root_receiver<>>;
  struct Shared {
    inplace_stop_source src[N + 1];
    vh::root_state root;
    void* mem = nullptr;
    op_t* op = nullptr;
    bool constructed = false;
    bool start_returned = false;
    bool destroyed = false;
    ~Shared() { if (mem) ::operator delete(mem, std::align_val_t(alignof(op_t))); }
  };
  auto sh = std::make_shared<Shared>();
  bool any = false;
  for (std::size_t i = 0; i <= N; ++i) {
    // pre-stopped sources: stopped outside the run (no events, no yield points)
    if (pre[i] == '1') { sh->src[i].request_stop(); any = true; }
    if (req[i] == '1') any = true;
  }
  std::vector<std::function<void()>> th;
  // 0: connect + start
  th.push_back([sh] {
    for (std::size_t i = 0; i <= N; ++i) dsched::name_range(&sh->src[i].state_, 1, kSrcName[i]);
    sh->mem = ::operator new(sizeof(op_t), std::align_val_t(alignof(op_t)));
    std::memset(sh->mem, 0xAB, sizeof(op_t));
    sh->op = ::new (sh->mem) op_t(unifex::connect(
        stop_on_request(sh->src[1 + I].get_token()...),
        vh::root_receiver<>{&sh->root, sh->src[0].get_token()}));
    op_t& op = *sh->op;
    dsched::name_range(&op.callbackState_, sizeof(op.callbackState_), "s.callbackState");
    dsched::name_range(&op.receiverStopCallback_, sizeof(op.receiverStopCallback_), kCbName[0]);
    ((void)dsched::name_range(&std::get<I>(op.stopCallbacks_), sizeof(std::get<I>(op.stopCallbacks_)), kCbName[1 + I]), ...);
    sh->constructed = true;
    unifex::start(op);
    sh->start_returned = true;
    dsched::action("start.returned");
  });
  // 1..N+1: requester of source i
  for (std::size_t i = 0; i <= N; ++i) {
    th.push_back([sh, i, want = req[i] == '1'] {
      if (!want) return;
      dsched::block_until([&] { return sh->constructed; });
      sh->src[i].request_stop();
    });
  }
  // N+2: the owner of the receiver
  th.push_back([sh, any] {
    if (any) {
      dsched::block_until([&] { return sh->root.completions > 0; });
    } else {
      // nothing will ever stop: the operation stays pending; tear it down by hand
      dsched::block_until([&] { return sh->start_returned; });
      dsched::action("teardown completions=%d", sh->root.completions);
      (std::get<I>(sh->op->stopCallbacks_).destruct(), ...);
      sh->op->receiverStopCallback_.destruct();
    }
    sh->op->~op_t();
    std::memset(sh->mem, 0xAB, sizeof(op_t));
#if defined(__SANITIZE_ADDRESS__)
    ::operator delete(sh->mem, std::align_val_t(alignof(op_t)));
    sh->mem = nullptr;
#endif
    sh->destroyed = true;
    if (any) dsched::action("op_destroyed");
  });
  return th;
}

}  // namespace

int main(int argc, char** argv) {
  auto cli = vh::parse_cli(argc, argv);
  std::size_t n = (std::size_t)std::atoi(cli.prog.at(0).c_str());
  std::string req = cli.prog.size() > 1 ? cli.prog[1] : "";
  std::string pre = cli.prog.size() > 2 ? cli.prog[2] : "";
  req.resize(n + 1, '0'); pre.resize(n + 1, '0');
  bool any = req.find('1') != std::string::npos || pre.find('1') != std::string::npos;
  auto make = [&]() -> std::vector<std::function<void()>> {
    switch (n) {
      case 0: return make_threads(req, pre, std::make_index_sequence<0>{});
      case 1: return make_threads(req, pre, std::make_index_sequence<1>{});
      case 2: return make_threads(req, pre, std::make_index_sequence<2>{});
      default: return make_threads(req, pre, std::make_index_sequence<3>{});
    }
  };
  // direct monitor = the property on the implementation's own run.  The verdict starts with a tag.
  auto monitor = [&](const dsched::Result& r) -> std::string {
    int roots = 0;
    bool completed = false, destroyed = false;
    std::string bad;
    auto has = [](const std::string& e, const char* s) { return e.find(s) != std::string::npos; };
    for (auto& e : r.trace) {
      if (has(e, "!root ")) {
        ++roots; completed = true;
        if (!has(e, "!root done") && bad.empty()) bad = "NOT-DONE: " + e;
        continue;
      }
      if (has(e, "!op_destroyed")) { destroyed = true; continue; }
      bool touches = has(e, " s.callbackState ") || has(e, " s.cb");
      if (touches && destroyed && bad.empty()) bad = "USE-AFTER-DESTROY: " + e;
      if (touches && completed && !destroyed && bad.empty()) bad = "LATE-ACCESS: " + e;
    }
    if (!bad.empty()) return bad;
    if (roots != (any ? 1 : 0)) return "COMPLETIONS: root completions=" + std::to_string(roots) + " expected " + (any ? "1" : "0");
    return "";
  };
  return vh::drive(cli, make, monitor);
}
