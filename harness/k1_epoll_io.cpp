// K1 driver (C14, model IoCancel): async_read_some / async_write_some of the REAL io_epoll_context
// on a real pipe under dsched, with stop requests, readiness and failing syscalls.
//
// program:  <r|w> <L|R> <stop> <peer> [reuse]
//   r|w    read operation on the pipe's read end / write operation on its write end (the pipe is
//          filled first, so that the write would block)
//   L|R    start() runs on the I/O thread (from a schedule() item) / on the main thread (remote)
//   stop   n  no stop request          p  stop requested before start()
//          s  a stopper thread calls request_stop() at any time
//   peer   what makes the descriptor ready:
//          0     ready before the operation starts (r: 5 bytes in the pipe; w: the pipe is empty)
//          y     a peer thread writes 5 bytes (r) / drains the pipe (w) at any time
//          n     never
//          late  the peer acts only after operation 0 has completed (activity on the descriptor
//                after a completed - typically cancelled - operation)
//          dir   (r) the descriptor is a directory: readv fails with EISDIR
//          fault (r) the buffer is an invalid address and 5 bytes are in the pipe: readv fails with EFAULT
//   reuse  after operation 0 completed a second operation (no stop) is started on the same
//          descriptor; a 'late' peer acts once it has been started
// Threads: 0 = I/O thread (context, run(), teardown), 1 = main, then the stopper (s), then the peer
// (y / late).
//
// The context's .cpp is compiled into THIS translation unit with the syscall wrappers of
// c14_sys.hpp; the archive's io_epoll_context.o is never linked.
#include "c14_sys.hpp"
#include <unifex/linux/io_epoll_context.hpp>
#include <unifex/../../source/linux/io_epoll_context.cpp>
#include <unifex/scheduler_concepts.hpp>
#include <unifex/sender_concepts.hpp>
#include <unifex/io_concepts.hpp>
#include <unifex/inplace_stop_token.hpp>
#include <sys/ioctl.h>
#include "vh.hpp"
using namespace unifex;
using unifex::linuxos::io_epoll_context;

namespace {
struct Shared;
struct io_rcv {
  Shared* sh; int k;
  void set_value(ssize_t n) && noexcept;
  void set_error(std::error_code ec) && noexcept;
  void set_error(std::exception_ptr) && noexcept;
  void set_done() && noexcept;
  friend inplace_stop_token tag_invoke(tag_t<get_stop_token>, const io_rcv& r) noexcept;
};
struct starter_rcv {
  Shared* sh; int k;
  void set_value() && noexcept;
  void set_done() && noexcept {}
  template <typename E> void set_error(E&&) && noexcept {}
};
using sched_t = decltype(std::declval<io_epoll_context&>().get_scheduler());
using sched_op_t = connect_result_t<decltype(unifex::schedule(std::declval<sched_t>())), starter_rcv>;
using read_op_t = connect_result_t<io_epoll_context::read_sender, io_rcv>;
using write_op_t = connect_result_t<io_epoll_context::write_sender, io_rcv>;

constexpr int NOPS = 2;
const char* N_state[NOPS] = {"op0.state", "op1.state"};
const char* N_cenq[NOPS] = {"op0.cenq", "op1.cenq"};
const char* N_denq[NOPS] = {"op0.denq", "op1.denq"};
const char* N_cb[NOPS] = {"op0.cbdone", "op1.cbdone"};
const char* N_src[NOPS] = {"src0", "src1"};
const char* N_comp[NOPS] = {"COMP0", "COMP1"};
const char* N_done[NOPS] = {"DONE0", "DONE1"};
const char* N_start[NOPS] = {"START0", "START1"};
constexpr int PIPE_SZ = 4096;

struct Shared {
  bool is_read = true, local = false, reuse = false;
  std::string stop, peer;
  manual_lifetime<io_epoll_context> ctx;
  inplace_stop_source runStop;
  inplace_stop_source opStop[NOPS];
  int rfd = -1, wfd = -1, iofd = -1;
  manual_lifetime<io_epoll_context::async_reader> reader;
  manual_lifetime<io_epoll_context::async_writer> writer;
  manual_lifetime<read_op_t> rop[NOPS];
  manual_lifetime<write_op_t> wop[NOPS];
  manual_lifetime<sched_op_t> sop[NOPS];
  char rbuf[NOPS][16] = {};
  char wbuf[16] = {'w', 'o', 'r', 'l', 'd'};
  const void* comp_ptr[NOPS] = {};
  int completions[NOPS] = {};
  bool ready = false, peer_go = false, peer_done = false, stopper_done = false, returned = false, teardown = false;
  int fds0 = 0;
};

void complete(Shared* sh, int k, const char* what) {
  // the property's "no stale state": ask the kernel whether the descriptor is still registered
  int reg = c14::kernel_registered(sh->ctx.get().epollFd_.get(), sh->iofd) ? 1 : 0;
  dsched::action("complete op%d %s kreg=%d", k, what, reg);
  c14::mark_dead(sh->comp_ptr[k]);
  if (sh->is_read) sh->rop[k].destruct(); else sh->wop[k].destruct();
  sh->completions[k]++;
}
void io_rcv::set_value(ssize_t n) && noexcept {
  char b[64];
  if (sh->is_read) std::snprintf(b, sizeof b, "value %zd data=%.*s", n, (int)std::max<ssize_t>(0, std::min<ssize_t>(n, 15)), sh->rbuf[k]);
  else std::snprintf(b, sizeof b, "value %zd", n);
  complete(sh, k, b);
}
void io_rcv::set_error(std::error_code ec) && noexcept {
  char b[64]; std::snprintf(b, sizeof b, "error %s", c14::ename(ec.value()));
  complete(sh, k, b);
}
void io_rcv::set_error(std::exception_ptr) && noexcept { complete(sh, k, "error exception"); }
void io_rcv::set_done() && noexcept { complete(sh, k, "done"); }
inplace_stop_token tag_invoke(tag_t<get_stop_token>, const io_rcv& r) noexcept { return r.sh->opStop[r.k].get_token(); }

void name_op(Shared* sh, int k) {
  if (sh->is_read) {
    auto& op = sh->rop[k].get();
    dsched::name_range(&op.state_, sizeof(op.state_), N_state[k]);
    auto* comp = (io_epoll_context::completion_base*)(&op);
    auto* done = (io_epoll_context::read_sender::done_op*)(&op);
    dsched::name_range(&comp->enqueued_, sizeof(comp->enqueued_), N_cenq[k]);
    dsched::name_range(&done->enqueued_, sizeof(done->enqueued_), N_denq[k]);
    dsched::name_range(&op.stopCallback_.get().callbackCompleted_, sizeof(std::atomic<bool>), N_cb[k]);
    dsched::name_value((std::uint64_t)(std::uintptr_t)(io_epoll_context::operation_base*)comp, N_comp[k]);
    dsched::name_value((std::uint64_t)(std::uintptr_t)(io_epoll_context::operation_base*)done, N_done[k]);
    sh->comp_ptr[k] = comp;
    c14::name_ptr(comp, N_comp[k]);
  } else {
    auto& op = sh->wop[k].get();
    dsched::name_range(&op.state_, sizeof(op.state_), N_state[k]);
    auto* comp = (io_epoll_context::completion_base*)(&op);
    auto* done = (io_epoll_context::write_sender::done_op*)(&op);
    dsched::name_range(&comp->enqueued_, sizeof(comp->enqueued_), N_cenq[k]);
    dsched::name_range(&done->enqueued_, sizeof(done->enqueued_), N_denq[k]);
    dsched::name_range(&op.stopCallback_.get().callbackCompleted_, sizeof(std::atomic<bool>), N_cb[k]);
    dsched::name_value((std::uint64_t)(std::uintptr_t)(io_epoll_context::operation_base*)comp, N_comp[k]);
    dsched::name_value((std::uint64_t)(std::uintptr_t)(io_epoll_context::operation_base*)done, N_done[k]);
    sh->comp_ptr[k] = comp;
    c14::name_ptr(comp, N_comp[k]);
  }
}
void start_io_op(Shared* sh, int k) {
  dsched::action("start op%d", k);
  if (sh->is_read) unifex::start(sh->rop[k].get()); else unifex::start(sh->wop[k].get());
  dsched::action("started op%d", k);
}
void starter_rcv::set_value() && noexcept { start_io_op(sh, k); }

void connect_op(Shared* sh, int k) {
  if (sh->is_read) {
    void* buf = sh->peer == "fault" ? (void*)std::uintptr_t(16) : (void*)sh->rbuf[k];
    sh->rop[k].construct_with([&] {
      return unifex::connect(async_read_some(sh->reader.get(), span<std::byte>((std::byte*)buf, 8)), io_rcv{sh, k});
    });
  } else {
    sh->wop[k].construct_with([&] {
      return unifex::connect(async_write_some(sh->writer.get(), span<const std::byte>((const std::byte*)sh->wbuf, 5)), io_rcv{sh, k});
    });
  }
  name_op(sh, k);
}
void launch(Shared* sh, int k) {
  if (!sh->local) { start_io_op(sh, k); return; }
  sh->sop[k].construct_with([&] { return unifex::connect(unifex::schedule(sh->ctx.get().get_scheduler()), starter_rcv{sh, k}); });
  dsched::name_value((std::uint64_t)(std::uintptr_t)(io_epoll_context::operation_base*)(&sh->sop[k].get()), N_start[k]);
  unifex::start(sh->sop[k].get());
}
void peer_act(Shared* sh) {
  dsched::action("peer");
  if (sh->is_read) { (void)::write(sh->wfd, "hello", 5); }
  else { char b[PIPE_SZ]; while (::read(sh->rfd, b, sizeof b) > 0) {} }
}
int pipe_bytes(int fd) { int n = 0; ::ioctl(fd, FIONREAD, &n); return n; }
}  // namespace

static std::vector<std::function<void()>> make_threads(bool is_read, bool local, const std::string& stop,
                                                       const std::string& peer, bool reuse) {
  c14::reset();
  auto sh = std::make_shared<Shared>();
  // a completion pointer handed back by epoll_wait although the completion was already delivered,
  // run (execute_ consumed) and the registration should be gone: the library would call a null
  // function pointer
  c14::tab().stale_hook = [p = sh.get()](const void* ptr) -> std::string {
    for (int k = 0; k < NOPS; ++k)
      if (ptr && ptr == p->comp_ptr[k] && ((const io_epoll_context::operation_base*)ptr)->execute_ == nullptr)
        return "its completion was already delivered and run: execute_ == nullptr";
    return "";
  };
  sh->is_read = is_read; sh->local = local; sh->stop = stop; sh->peer = peer; sh->reuse = reuse;
  std::vector<std::function<void()>> th;
  th.push_back([sh] {   // I/O thread
    sh->fds0 = c14::fd_count();
    dsched::name_value(65536, "65536"); dsched::name_value(65537, "65537");
    sh->ctx.construct();
    auto& ctx = sh->ctx.get();
    dsched::name_range(&ctx.remoteQueue_.head_, sizeof(ctx.remoteQueue_.head_), "rq.head");
    dsched::name_value((std::uint64_t)(std::uintptr_t)&ctx.remoteQueue_.head_, "INACTIVE");
    c14::name_fd(ctx.remoteQueueEventFd_.get(), "evfd");
    c14::name_fd(ctx.timerFd_.get(), "timerfd");
    c14::name_ptr(nullptr, "evfd");
    c14::name_ptr(ctx.timer_user_data(), "timer");
    sh->ready = true;
    ctx.run(sh->runStop.get_token());
    dsched::action("run returned");
    sh->returned = true;
    dsched::block_until([&] { return sh->teardown; });
    sh->ctx.destruct();
    dsched::action("fds %d %d", sh->fds0, c14::fd_count());
  });
  th.push_back([sh] {   // main
    Shared* s = sh.get();
    dsched::block_until([&] { return s->ready; });
    for (int k = 0; k < NOPS; ++k) dsched::name_range(&s->opStop[k].state_, sizeof(s->opStop[k].state_), N_src[k]);
    if (s->peer == "dir") {
      s->rfd = ::open("/tmp", O_RDONLY | O_DIRECTORY | O_CLOEXEC);
      s->iofd = s->rfd;
      s->reader.construct(s->ctx.get(), s->rfd);
    } else {
      int fd[2];
      if (::pipe2(fd, O_NONBLOCK | O_CLOEXEC) != 0) std::abort();
      ::fcntl(fd[1], F_SETPIPE_SZ, PIPE_SZ);
      s->rfd = fd[0]; s->wfd = fd[1];
      if (s->is_read) { s->iofd = s->rfd; s->reader.construct(s->ctx.get(), s->rfd); }
      else { s->iofd = s->wfd; s->writer.construct(s->ctx.get(), s->wfd); }
    }
    c14::name_fd(s->iofd, "iofd");
    if (s->peer != "dir") c14::name_fd(s->is_read ? s->wfd : s->rfd, "peerfd");
    if (s->is_read) {
      if (s->peer == "0" || s->peer == "fault") (void)::write(s->wfd, "hello", 5);
    } else if (s->peer != "0") {
      char fill[PIPE_SZ]; std::memset(fill, 'x', sizeof fill);
      while (::write(s->wfd, fill, sizeof fill) > 0) {}
    }
    if (s->stop == "p") { dsched::action("stop op0"); s->opStop[0].request_stop(); dsched::action("stopped op0"); }
    connect_op(s, 0);
    s->peer_go = (s->peer == "y");
    launch(s, 0);
    std::int64_t dl = dsched::now_ns() + 1000000000LL;
    if (!dsched::block_until([&] { return s->completions[0] > 0; }, dl)) dsched::action("LOST op0 never completed");
    if (s->reuse) {
      connect_op(s, 1);
      launch(s, 1);
      dsched::block_until([&] { return !s->local || true; });
      if (s->peer == "late") s->peer_go = true;
      dl = dsched::now_ns() + 1000000000LL;
      if (!dsched::block_until([&] { return s->completions[1] > 0; }, dl)) dsched::action("LOST op1 never completed");
    } else if (s->peer == "late") {
      s->peer_go = true;
      // let the I/O thread react to the activity on the descriptor: virtual time passes only
      // when every thread is blocked
      dsched::block_until([] { return false; }, dsched::now_ns() + 1000000000LL);
    }
    bool has_stopper = s->stop == "s", has_peer = (s->peer == "y" || s->peer == "late");
    dsched::block_until([&] { return (!has_stopper || s->stopper_done) && (!has_peer || s->peer_done); });
    if (s->wfd >= 0 || s->rfd >= 0) dsched::action("pipe bytes=%d", s->is_read ? pipe_bytes(s->rfd) : (s->rfd >= 0 ? pipe_bytes(s->rfd) : 0));
    dsched::action("stop run");
    s->runStop.request_stop();
    dsched::block_until([&] { return s->returned; });
    if (s->is_read) { s->reader.destruct(); if (s->wfd >= 0) ::close(s->wfd); }
    else { s->writer.destruct(); if (s->rfd >= 0) ::close(s->rfd); }
    s->teardown = true;
  });
  if (stop == "s")
    th.push_back([sh] {
      dsched::block_until([&] { return sh->ready; });
      dsched::action("stop op0");
      sh->opStop[0].request_stop();
      dsched::action("stopped op0");
      sh->stopper_done = true;
    });
  if (peer == "y" || peer == "late")
    th.push_back([sh] {
      dsched::block_until([&] { return sh->peer_go; });
      peer_act(sh.get());
      sh->peer_done = true;
    });
  return th;
}

int main(int argc, char** argv) {
  auto cli = vh::parse_cli(argc, argv);
  bool is_read = cli.prog.at(0) == "r";
  bool local = cli.prog.at(1) == "L";
  std::string stop = cli.prog.at(2), peer = cli.prog.at(3);
  bool reuse = cli.prog.size() > 4 && cli.prog[4] == "reuse";
  auto make = [&] { return make_threads(is_read, local, stop, peer, reuse); };

  // Direct monitor (C14 for one descriptor, evaluated on the implementation's own run).  The verdict
  // starts with a tag that names the defect class:
  //  STALE-REG    the operation completed while the kernel still holds an epoll registration of its
  //               descriptor (carrying a pointer to it), or epoll_wait handed such a pointer back later
  //  LOST         a started operation never completed (parked forever)
  //  WRONG-ERRNO  completed with an error code that is not the errno of the failing syscall
  //  LATE-ACCESS  a shared location of the operation was accessed after its completion
  //  TWICE / WRONG-RESULT / DATA / DATALOSS / FDLEAK
  auto monitor = [&](const dsched::Result& r) -> std::string {
    int ncomp[NOPS] = {};
    std::string kind[NOPS], detail[NOPS];
    bool stop_req = false;
    int last_errno_fail = 0;   // errno of the last failing readv/writev on the descriptor (not EAGAIN)
    std::string last_errno_name;
    int f0 = -1, f1 = -1, pipeb = -1;
    long idx = 0;
    for (auto& e : r.trace) {
      ++idx;
      auto sp = e.find(' ');
      std::string rest = e.substr(sp + 1);
      if (rest[0] != '!') {
        for (int k = 0; k < NOPS; ++k)
          if (ncomp[k] > 0 && rest.compare(0, 4, std::string("op") + char('0' + k) + ".") == 0)
            return "LATE-ACCESS: " + rest.substr(0, rest.find(' ')) + " accessed after operation " + std::to_string(k) + " completed: " + e;
        continue;
      }
      std::string a = rest.substr(1);
      int k = 0, reg = 0; char what[32] = {}, more[64] = {};
      if (a.compare(0, 6, "STALE ") == 0) return "STALE-REG: " + a;
      if (a.compare(0, 5, "LOST ") == 0) {
        // distinguish: parked on a failed syscall (finding 8) from anything else
        return std::string(last_errno_fail ? "LOST-ERR: " : "LOST: ") + a +
               (last_errno_fail ? " (the syscall had failed with " + last_errno_name + ")" : "");
      }
      if (a == "stop op0") stop_req = true;
      if ((a.compare(0, 6, "readv ") == 0 || a.compare(0, 7, "writev ") == 0) && a.find("iofd rc=-1") != std::string::npos) {
        std::string en = a.substr(a.rfind(' ') + 1);
        if (en != "EAGAIN") { last_errno_fail = 1; last_errno_name = en; }
      }
      if (std::sscanf(a.c_str(), "complete op%d %31s", &k, what) == 2) {
        if (k < 0 || k >= NOPS) return "bad event " + e;
        if (++ncomp[k] > 1) return "TWICE: operation " + std::to_string(k) + " completed twice";
        kind[k] = what; detail[k] = a;
        auto kr = a.find("kreg=");
        reg = std::atoi(a.c_str() + kr + 5);
        if (reg) return "STALE-REG: operation " + std::to_string(k) + " completed (" + what + ") while the kernel still has an epoll registration of its descriptor";
        if (kind[k] == "done" && !(k == 0 && stop_req)) return "WRONG-RESULT: done without a stop request: " + a;
        if (kind[k] == "error") {
          std::sscanf(a.c_str(), "complete op%d error %63s", &k, more);
          if (!last_errno_fail) return "WRONG-RESULT: error completion without a failing syscall: " + a;
          if (last_errno_name != more) return "WRONG-ERRNO: completed with " + std::string(more) + " but the syscall failed with " + last_errno_name;
        }
        if (kind[k] == "value") {
          long n = 0; std::sscanf(a.c_str(), "complete op%d value %ld", &k, &n);
          if (n != 5) return "WRONG-RESULT: " + a;
          if (is_read && a.find("data=hello") == std::string::npos) return "DATA: " + a;
        }
      }
      if (std::sscanf(a.c_str(), "fds %d %d", &f0, &f1) == 2) {}
      if (std::sscanf(a.c_str(), "pipe bytes=%d", &pipeb) == 1) {}
    }
    if (ncomp[0] == 0) return "LOST: operation 0 never completed";
    if (reuse && ncomp[1] == 0) return "LOST: operation 1 never completed";
    if (is_read && pipeb >= 0 && peer != "dir") {
      // bytes are never consumed and dropped: what was written and not delivered is still in the pipe
      int written = (peer == "n") ? 0 : 5;
      int delivered = 0;
      for (int k = 0; k < NOPS; ++k) if (kind[k] == "value") delivered += 5;
      // a 'y' peer may not have been told to go / a late peer always writes
      if (pipeb != written - delivered) return "DATALOSS: " + std::to_string(written) + " bytes written, " + std::to_string(delivered) + " delivered, " + std::to_string(pipeb) + " left in the pipe";
    }
    if (f0 != f1) return "FDLEAK: " + std::to_string(f0) + " descriptors before, " + std::to_string(f1) + " after";
    return "";
  };
  return vh::drive(cli, make, monitor);
}
