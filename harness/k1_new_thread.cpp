// K1 driver (C06, unit 5): the real new_thread_context.
//   program: <counts: n1,n2,...> <stops: x.j,x.j,... | ->
//   thread 0 constructs the context, waits until every starter returned from its last start(), then
//   destroys it.  threads 1..p: starter x connects and starts schedule(ctx) operations x.0, x.1, ...
//   Each start() creates a thread through the shim (virtual threads p+1, p+2, ... in creation order).
//   The listed operations have their stop token requested before anything starts.
// Receivers log `!run x.j value|done new=<0|1>` (new=1: not running on the starter's thread).
#include <unifex/new_thread_context.hpp>
#include <unifex/scheduler_concepts.hpp>
#include <unifex/sender_concepts.hpp>
#include <unifex/inplace_stop_token.hpp>
#include <cstring>
#include "vh.hpp"
using namespace unifex;

namespace {
constexpr int MAXP = 6, MAXI = 6;
const char* intern(const std::string& s) {
  static std::set<std::string> pool;
  return pool.insert(s).first->c_str();
}
struct Shared;
struct item_receiver {
  Shared* sh; int p, j; int starter_tid;
  void log(const char* kind) const noexcept {
    dsched::action("run %d.%d %s new=%d", p, j, kind, (int)(dsched::self() != starter_tid));
  }
  // third program word "d": the completion destroys the operation state and overwrites its storage, as a
  // receiver that owns its operation may (new_thread_context.hpp run(): "the receiver methods will likely end
  // up destroying the operation-state object before they return")
  void finish(const char* kind) noexcept;
  void set_value() && noexcept { finish("value"); }
  void set_done() && noexcept { finish("done"); }
  template <class E> void set_error(E&&) && noexcept { finish("error"); }
  friend inplace_stop_token tag_invoke(tag_t<get_stop_token>, const item_receiver& r) noexcept;
};
using sched_t = decltype(std::declval<new_thread_context&>().get_scheduler());
using op_t = connect_result_t<decltype(schedule(std::declval<sched_t&>())), item_receiver>;
struct Shared {
  manual_lifetime<new_thread_context> ctx;
  bool ready = false;
  int starters_done = 0;
  inplace_stop_source src[MAXP][MAXI];
  manual_lifetime<op_t> ops[MAXP][MAXI];
  bool made[MAXP][MAXI] = {};
  ~Shared() { for (int p = 0; p < MAXP; ++p) for (int j = 0; j < MAXI; ++j) if (made[p][j]) ops[p][j].destruct(); }
};
inplace_stop_token tag_invoke(tag_t<get_stop_token>, const item_receiver& r) noexcept { return r.sh->src[r.p][r.j].get_token(); }
bool g_destroy_on_completion = false;
void item_receiver::finish(const char* kind) noexcept {
  log(kind);
  if (!g_destroy_on_completion) return;
  Shared* s = sh; int x = p, i = j;          // *this lives inside the operation state
  s->made[x][i] = false;
  s->ops[x][i].destruct();
  std::memset(static_cast<void*>(&s->ops[x][i]), 0x5A, sizeof(s->ops[x][i]));
}

std::vector<int> parse_counts(const std::string& s) {
  std::vector<int> v; std::stringstream ss(s); std::string t;
  while (std::getline(ss, t, ',')) if (!t.empty()) v.push_back(std::atoi(t.c_str()));
  return v;
}
std::vector<std::pair<int, int>> parse_items(const std::string& s) {
  std::vector<std::pair<int, int>> v; if (s == "-" || s.empty()) return v;
  std::stringstream ss(s); std::string t;
  while (std::getline(ss, t, ',')) { auto d = t.find('.'); v.emplace_back(std::atoi(t.substr(0, d).c_str()), std::atoi(t.substr(d + 1).c_str())); }
  return v;
}
}  // namespace

int main(int argc, char** argv) {
  auto cli = vh::parse_cli(argc, argv);
  const std::vector<int> counts = parse_counts(cli.prog.at(0));
  const auto stops = parse_items(cli.prog.size() > 1 ? cli.prog[1] : "-");
  const int p = (int)counts.size();
  g_destroy_on_completion = cli.prog.size() > 2 && cli.prog[2] == "d";
  if (p >= MAXP) { std::printf("FATAL too many starters\n"); return 2; }
  for (int c : counts) if (c > MAXI) { std::printf("FATAL too many items\n"); return 2; }
  int total = 0; for (int c : counts) total += c;

  auto make = [&]() -> std::vector<std::function<void()>> {
    auto sh = std::make_shared<Shared>();
    for (auto& c : stops) sh->src[c.first][c.second].request_stop();   // before the run: no events
    std::vector<std::function<void()>> th;
    th.push_back([sh, p, counts] {
      for (int x = 1; x <= p; ++x) for (int j = 0; j < counts[x - 1]; ++j)
        dsched::name_range(&sh->src[x][j].state_, 1, intern("st" + std::to_string(x) + "." + std::to_string(j)));
      sh->ctx.construct();
      auto& c = sh->ctx.get();
      dsched::name_range(&c.mut_, sizeof(c.mut_), "nt.mutex");
      dsched::name_range(&c.cv_, sizeof(c.cv_), "nt.cv");
      dsched::name_range(&c.activeThreadCount_, sizeof(c.activeThreadCount_), "nt.count");
      dsched::name_range(&c.threadToJoin_, sizeof(c.threadToJoin_), "nt.tojoin");
      sh->ready = true;
      dsched::block_until([&] { return sh->starters_done == p; });
      sh->ctx.destruct();
      dsched::action("ctx destroyed");
    });
    for (int x = 1; x <= p; ++x)
      th.push_back([sh, x, n = counts[x - 1]] {
        dsched::block_until([&] { return sh->ready; });
        auto sched = sh->ctx.get().get_scheduler();
        for (int j = 0; j < n; ++j) {
          sh->ops[x][j].construct_with([&] { return unifex::connect(schedule(sched), item_receiver{sh.get(), x, j, dsched::self()}); });
          sh->made[x][j] = true;
          auto& op = sh->ops[x][j].get();
          dsched::name_range(&op.mut_, sizeof(op.mut_), intern("op" + std::to_string(x) + "." + std::to_string(j) + ".mutex"));
          dsched::name_range(&op.thread_, sizeof(op.thread_), intern("op" + std::to_string(x) + "." + std::to_string(j) + ".thread"));
          unifex::start(op);
        }
        sh->starters_done++;
      });
    return th;
  };

  auto monitor = [&](const dsched::Result& r) -> std::string {
    std::string err; std::set<std::string> ran; bool destroyed = false; std::set<int> created;
    std::set<std::string> stopset; for (auto& c : stops) stopset.insert(std::to_string(c.first) + "." + std::to_string(c.second));
    for (auto& e : r.trace) {
      int t = std::atoi(e.c_str() + 1);
      std::string rest = e.substr(e.find(' ') + 1);
      if (destroyed && t > p) err += "thread t" + std::to_string(t) + " still running after the context was destroyed; ";
      if (t > p) created.insert(t);
      if (rest.rfind("!run ", 0) == 0) {
        char it[32], kind[16]; int nw = 0;
        std::sscanf(rest.c_str(), "!run %31s %15s new=%d", it, kind, &nw);
        if (!ran.insert(it).second) err += std::string("item ") + it + " completed twice; ";
        if (nw != 1 || t <= p) err += std::string("item ") + it + " completed on a thread that is not its own new thread (t" + std::to_string(t) + "); ";
        bool want_done = stopset.count(it) != 0;
        if (want_done != (std::string(kind) == "done")) err += std::string("item ") + it + " completed with " + kind + "; ";
      } else if (rest == "!ctx destroyed") destroyed = true;
    }
    if ((int)ran.size() != total) err += "ran " + std::to_string(ran.size()) + " of " + std::to_string(total) + " items; ";
    if ((int)created.size() != total) err += "saw " + std::to_string(created.size()) + " created threads for " + std::to_string(total) + " operations; ";
    if (!destroyed) err += "destructor did not return; ";
    return err;
  };
  return vh::drive(cli, make, monitor);
}
