// K1 driver: the real v1::async_manual_reset_event driven by thread programs.
// program: <sig0: 0|1> <inline|ctx> <prog of thread 0> <prog of thread 1> ...
//   a thread program is a string of commands: S = set(), R = reset(), Y = ready(),
//   W<d> = connect(evt.async_wait(), receiver d) + start (d = one decimal digit, each at most once).
// Receivers answer get_scheduler with hop_scheduler<Inner>: it logs "w<d> handoff" when the event
// starts the rescheduling operation (op.set_value()) and then schedules on Inner:
//   inline: unifex::inline_scheduler (completion is synchronous),
//   ctx:    a single_thread_context constructed on an extra virtual thread (the last one); the
//           receiver logs whether it runs on that context's thread.
#include <unifex/v1/async_manual_reset_event.hpp>
#include <unifex/inline_scheduler.hpp>
#include <unifex/single_thread_context.hpp>
#include <unifex/scheduler_concepts.hpp>
#include "vh.hpp"
using namespace unifex;

namespace {

constexpr int MAXW = 10;

struct RunState {
  int handoff[MAXW] = {};
  int done[MAXW] = {};
  std::thread::id ctx_thread{};
  bool have_ctx = false;
};

template <class Inner>
struct hop_scheduler {
  Inner inner;
  int w;
  RunState* rs;
  struct sender {
    Inner inner;
    int w;
    RunState* rs;
    template <template <class...> class V, template <class...> class T>
    using value_types = V<T<>>;
    template <template <class...> class V>
    using error_types = V<std::exception_ptr>;
    static constexpr bool sends_done = true;
    static constexpr blocking_kind blocking = blocking_kind::maybe;
    static constexpr bool is_always_scheduler_affine = false;
    template <class R>
    struct op {
      int w;
      RunState* rs;
      connect_result_t<schedule_result_t<Inner&>, R> in;
      void start() & noexcept {
        rs->handoff[w]++;
        dsched::action("w%d handoff", w);
        unifex::start(in);
      }
    };
    template <class R>
    friend op<remove_cvref_t<R>> tag_invoke(tag_t<unifex::connect>, const sender& s, R&& r) {
      Inner i = s.inner;
      return op<remove_cvref_t<R>>{s.w, s.rs, unifex::connect(unifex::schedule(i), (R&&)r)};
    }
  };
  sender schedule() const noexcept { return sender{inner, w, rs}; }
  friend bool operator==(const hop_scheduler& a, const hop_scheduler& b) noexcept { return a.inner == b.inner && a.w == b.w; }
  friend bool operator!=(const hop_scheduler& a, const hop_scheduler& b) noexcept { return !(a == b); }
};

template <class Inner>
struct recv {
  RunState* rs;
  int w;
  Inner inner;
  void* owner;
  void (*destroy)(void*, int);   // destroys the wait operation (and poisons its storage)
  inplace_stop_token tok;        // always already stopped: the wait must complete with value anyway
  void set_value() && noexcept {
    RunState* r = rs; int wi = w;
    int onctx = r->have_ctx ? (int)(std::this_thread::get_id() == r->ctx_thread) : -1;
    // as a real consumer may: destroy the operation state from inside its completion
    destroy(owner, wi);
    dsched::action("w%d done onctx=%d", wi, onctx);
    r->done[wi]++;
  }
  template <class E>
  void set_error(E&&) && noexcept { dsched::action("w%d error", w); }
  void set_done() && noexcept { dsched::action("w%d cancelled", w); }
  friend inplace_stop_token tag_invoke(tag_t<get_stop_token>, const recv& r) noexcept { return r.tok; }
  friend hop_scheduler<Inner> tag_invoke(tag_t<get_scheduler>, const recv& r) noexcept {
    return hop_scheduler<Inner>{r.inner, r.w, r.rs};
  }
};

using Cmds = std::vector<std::pair<char, int>>;
std::vector<Cmds> parse(const std::vector<std::string>& progs) {
  std::vector<Cmds> p;
  for (auto& s : progs) {
    Cmds cmds;
    for (std::size_t i = 0; i < s.size(); ++i) {
      if (s[i] == 'W') { cmds.push_back({'W', s.at(i + 1) - '0'}); ++i; }
      else if (s[i] == '-') continue;   // "-" = empty program
      else cmds.push_back({s[i], 0});
    }
    p.push_back(cmds);
  }
  return p;
}

template <class Inner, bool Ctx>
std::vector<std::function<void()>> make_threads(bool sig0, const std::vector<Cmds>& P) {
  using R = recv<Inner>;
  using op_t = connect_result_t<decltype(std::declval<async_manual_reset_event&>().async_wait()), R>;
  struct Shared {
    explicit Shared(bool s) : evt(s) { stopped.request_stop(); }
    async_manual_reset_event evt;
    inplace_stop_source stopped;
    RunState rs;
    manual_lifetime<op_t> ops[MAXW];
    bool live[MAXW] = {};
    manual_lifetime<single_thread_context> ctx;
    bool ctx_ready = false;
    int finished = 0;
    ~Shared() { for (int i = 0; i < MAXW; ++i) if (live[i]) ops[i].destruct(); }
  };
  auto sh = std::make_shared<Shared>(sig0);
  std::vector<std::function<void()>> th;
  static const char* wn[MAXW] = {"w0", "w1", "w2", "w3", "w4", "w5", "w6", "w7", "w8", "w9"};
  const int nprog = (int)P.size();
  for (auto& cmds : P) {
    th.push_back([sh, cmds] {
      dsched::name_range(&sh->evt.state_, sizeof(sh->evt.state_), "evt.state");
      dsched::name_value((std::uint64_t)(std::uintptr_t)static_cast<void*>(&sh->evt), "SIG");
      if constexpr (Ctx) dsched::block_until([&] { return sh->ctx_ready; });
      for (auto [c, w] : cmds) {
        switch (c) {
          case 'S': sh->evt.set(); break;
          case 'R': sh->evt.reset(); break;
          case 'Y': { bool b = sh->evt.ready(); dsched::action("ready=%d", (int)b); break; }
          case 'W': {
            Inner in = [&] { if constexpr (Ctx) return sh->ctx.get().get_scheduler(); else return Inner{}; }();
            int wi = w;
            auto destroy = +[](void* p, int k) {
              auto* s = static_cast<Shared*>(p);
              s->ops[k].destruct();
              s->live[k] = false;
              std::memset(static_cast<void*>(&s->ops[k]), 0xAB, sizeof(s->ops[k]));
            };
            sh->ops[wi].construct_with([&] {
              return unifex::connect(sh->evt.async_wait(), R{&sh->rs, wi, in, sh.get(), destroy, sh->stopped.get_token()});
            });
            sh->live[wi] = true;
            auto* base = (_amre::_op_base*)(&sh->ops[wi].get());   // private base: C-style cast
            dsched::name_value((std::uint64_t)(std::uintptr_t)static_cast<void*>(base), wn[wi]);
            unifex::start(sh->ops[wi].get());
            break;
          }
        }
      }
      sh->finished++;
    });
  }
  if constexpr (Ctx) {
    th.push_back([sh, nprog] {
      sh->ctx.construct();
      sh->rs.ctx_thread = sh->ctx.get().get_thread_id();
      sh->rs.have_ctx = true;
      sh->ctx_ready = true;
      dsched::block_until([&] {
        if (sh->finished < nprog) return false;
        for (int i = 0; i < MAXW; ++i) if (sh->rs.done[i] < sh->rs.handoff[i]) return false;
        return true;
      });
      sh->ctx.destruct();
      dsched::action("ctx_destroyed");
    });
  }
  return th;
}

// ---------------------------------------------------------------------------------------------
// direct monitor: the property evaluated on the implementation's own trace against a sequential
// reference of the event (a flag and the stack of waiting operations).
std::string monitor(bool sig0, bool ctx, const std::vector<Cmds>& P, const dsched::Result& r) {
  const int n = (int)P.size();
  bool sig = sig0;
  std::vector<int> stack;                       // waiters pushed, top last
  std::vector<std::size_t> cur(n, 0);
  std::vector<std::deque<int>> owed(n);         // waiters thread t must hand off next, in order
  std::vector<int> expect_ready(n, -1);
  int handoff[MAXW] = {}, done[MAXW] = {}, hthread[MAXW] = {};
  bool ctx_gone = false;
  auto top_name = [&]() -> std::string {
    if (sig) return "SIG";
    if (stack.empty()) return "0";
    return "w" + std::to_string(stack.back());
  };
  for (auto& e : r.trace) {
    int t = 0; std::size_t i = 1;
    while (i < e.size() && std::isdigit((unsigned char)e[i])) t = t * 10 + (e[i++] - '0');
    std::string rest = e.substr(i + 1);
    if (rest[0] == '!') {
      int w = -1, k = 0;
      if (std::sscanf(rest.c_str(), "!w%d handoff", &w) == 1 && rest.find("handoff") != std::string::npos) {
        if (t >= n || owed[t].empty() || owed[t].front() != w) return "unexpected resumption of w" + std::to_string(w) + " by t" + std::to_string(t);
        owed[t].pop_front();
        if (++handoff[w] > 1) return "w" + std::to_string(w) + " resumed twice";
        hthread[w] = t;
      } else if (std::sscanf(rest.c_str(), "!w%d done onctx=%d", &w, &k) == 2) {
        if (++done[w] > handoff[w]) return "w" + std::to_string(w) + " completed without/more than its resumption";
        if (ctx && k != 1) return "w" + std::to_string(w) + " completed off its scheduler's thread";
        if (ctx && ctx_gone) return "completion after the context was destroyed";
        if (!ctx && t != hthread[w]) return "inline completion on another thread";
      } else if (std::sscanf(rest.c_str(), "!ready=%d", &k) == 1) {
        if (t >= n || expect_ready[t] != k) return "ready() returned " + std::to_string(k) + " against the flag";
        expect_ready[t] = -1;
      } else if (rest == "!ctx_destroyed") {
        ctx_gone = true;
      } else if (rest.find("error") != std::string::npos || rest.find("cancelled") != std::string::npos) {
        return "wait completed with " + rest;
      }
      continue;
    }
    if (rest.compare(0, 10, "evt.state ") != 0) continue;
    if (t >= n) return "event touched by a foreign thread";
    if (!owed[t].empty()) return "t" + std::to_string(t) + " touched the event before resuming w" + std::to_string(owed[t].front());
    if (cur[t] >= P[t].size()) return "access beyond the program of t" + std::to_string(t);
    auto [c, w] = P[t][cur[t]];
    char opk = rest[10];
    std::string vals = rest.substr(rest.find(' ', 10) + 1);   // after "K.order "
    std::string seen = vals.substr(0, vals.find_first_of("- "));
    if (opk != 'L' && opk != 'X' && opk != 'C') return "unexpected access " + rest;
    if (seen != top_name()) return "t" + std::to_string(t) + " read " + seen + " but the reference holds " + top_name();
    bool ok = vals.find(" ok") != std::string::npos;
    switch (c) {
      case 'S':
        if (opk != 'X') return "set: expected exchange";
        if (!sig) { for (auto it = stack.rbegin(); it != stack.rend(); ++it) owed[t].push_back(*it); stack.clear(); }
        sig = true; cur[t]++; break;
      case 'R':
        if (opk != 'C') return "reset: expected CAS";
        if (ok != sig) return "reset CAS result against the flag";
        if (ok) sig = false;
        cur[t]++; break;
      case 'Y':
        if (opk != 'L') return "ready: expected load";
        expect_ready[t] = sig; cur[t]++; break;
      case 'W':
        if (opk == 'L' || (opk == 'C' && !ok)) {
          if (sig) { owed[t].push_back(w); cur[t]++; }
        } else if (opk == 'C' && ok) {
          if (sig) return "waiter pushed onto a signalled event";
          stack.push_back(w); cur[t]++;
        } else return "wait: unexpected access";
        break;
    }
  }
  for (int t = 0; t < n; ++t) {
    if (!owed[t].empty()) return "w" + std::to_string(owed[t].front()) + " popped by set (or saw signalled) but never resumed";
    if (cur[t] != P[t].size()) return "t" + std::to_string(t) + " did not finish its program";
  }
  for (int w = 0; w < MAXW; ++w) if (done[w] != handoff[w]) return "w" + std::to_string(w) + " resumed but never completed";
  if (sig && !stack.empty()) return "stranded waiter on a signalled event";
  return "";
}

}  // namespace

int main(int argc, char** argv) {
  auto cli = vh::parse_cli(argc, argv);
  bool sig0 = cli.prog.at(0) == "1";
  bool ctx = cli.prog.at(1) == "ctx";
  auto P = parse(std::vector<std::string>(cli.prog.begin() + 2, cli.prog.end()));
  auto make = [&]() -> std::vector<std::function<void()>> {
    if (ctx) return make_threads<decltype(std::declval<single_thread_context&>().get_scheduler()), true>(sig0, P);
    return make_threads<inline_scheduler, false>(sig0, P);
  };
  return vh::drive(cli, make, [&](const dsched::Result& r) { return monitor(sig0, ctx, P, r); });
}
