// K3 driver for C07 (cfg plain17): runs the REAL monotonic_clock::time_point operations and the REAL
// sorted insertions on cases read from stdin, one per line, and prints the result in the format of
// the extracted model (ocaml/handlers/h_c07arith.ml).
//
//   norm S N              from_seconds_and_nanoseconds(S, N)                  -> "s n"
//   add  S N D            raw time_point (S, N) += duration(D ticks of 100ns) -> "s n"
//   sub  S N D            raw time_point (S, N) -= duration(D)                -> "s n"
//   addv S N D / subv     the by-value operator+(tp, d) / operator-(tp, d)    -> "s n"
//   diff S1 N1 S2 N2      (S1,N1) - (S2,N2) in ticks                          -> "d"
//   cmp  S1 N1 S2 N2      <  ==  <=  >  >=  !=                                -> "b b b b b b"
//   heap  OP...           intrusive_heap: iK insert key K (ids 0,1,2.. in insertion order), p pop,
//                         t top, rI remove id I                               -> "log | ids in list order | links"
//   tsq   OP...           timed_single_thread_context::enqueue: iK            -> same
//   ulq   OP...           thread_unsafe_event_loop::enqueue: iK, xI = the real cancel_callback on id I
//                         (unlink, dueTime_ = now, enqueue again)             -> same
// Raw (S, N) pairs are written straight into seconds_/nanoseconds_ (-fno-access-control), so
// non-canonical operands are exercised as well (the model's *_any theorems).
#include <unifex/linux/monotonic_clock.hpp>
#include <unifex/detail/intrusive_heap.hpp>
#include <unifex/timed_single_thread_context.hpp>
#include <unifex/thread_unsafe_event_loop.hpp>

#include <chrono>
#include <cstdio>
#include <deque>
#include <iostream>
#include <memory>
#include <sstream>
#include <string>
#include <vector>

using namespace unifex;
using mclock = unifex::linuxos::monotonic_clock;
using tp_t = mclock::time_point;

static tp_t raw(long long s, long long n) {
  tp_t t;
  t.seconds_ = s;
  t.nanoseconds_ = n;
  return t;
}
static std::string show(const tp_t& t) {
  return std::to_string((long long)t.seconds_part()) + " " + std::to_string((long long)t.nanoseconds_part());
}

// ---- intrusive_heap --------------------------------------------------------------------------
struct hnode {
  hnode* next;
  hnode* prev;
  long long key;
  int id;
};
using heap_t = intrusive_heap<hnode, &hnode::next, &hnode::prev, long long, &hnode::key>;

static std::string run_heap(std::istringstream& in) {
  std::deque<hnode> nodes;
  std::string log, tok;
  auto add = [&](const std::string& s) { if (!log.empty()) log += ","; log += s; };
  std::string order, links = "ok";
  {
    heap_t h;
    while (in >> tok) {
      if (tok[0] == 'i') {
        nodes.push_back(hnode{(hnode*)0xABABABABABABABABull, (hnode*)0xABABABABABABABABull, std::stoll(tok.substr(1)), (int)nodes.size()});
        h.insert(&nodes.back());
      } else if (tok[0] == 'p') {
        if (h.empty()) add("pE"); else add("p" + std::to_string(h.pop()->id));
      } else if (tok[0] == 't') {
        if (h.empty()) add("tE"); else add("t" + std::to_string(h.top()->id));
      } else if (tok[0] == 'r') {
        h.remove(&nodes.at(std::stoi(tok.substr(1))));
      }
    }
    // list order and structural check of the back links
    hnode* prev = nullptr;
    for (hnode* p = h.head_; p != nullptr; p = p->next) {
      if (!order.empty()) order += ",";
      order += std::to_string(p->id);
      if (p->prev != prev) links = "bad-prev-at-" + std::to_string(p->id);
      prev = p;
    }
    while (!h.empty()) h.pop();   // the destructor asserts empty()
  }
  return log + " | " + order + " | " + links;
}

// ---- timed_single_thread_context::enqueue ----------------------------------------------------------
static std::string run_tsq(std::istringstream& in) {
  using task_base = _timed_single_thread_context::task_base;
  std::string tok, order, links = "ok";
  timed_single_thread_context ctx;
  std::deque<task_base> nodes;
  auto base = timed_single_thread_context::clock_t::now() + std::chrono::hours(10);
  std::vector<int> ids;
  while (in >> tok) {
    if (tok[0] == 'i') {
      nodes.emplace_back(ctx, +[](task_base*) noexcept {});
      nodes.back().dueTime_ = base + std::chrono::milliseconds(std::stoll(tok.substr(1)));
      ctx.enqueue(&nodes.back());
    }
  }
  {
    std::lock_guard<std::mutex> lk(ctx.mutex_);
    task_base** pp = &ctx.head_;
    for (task_base* p = ctx.head_; p != nullptr; p = p->next_) {
      int id = -1;
      for (std::size_t k = 0; k < nodes.size(); ++k) if (&nodes[k] == p) id = (int)k;
      if (!order.empty()) order += ",";
      order += std::to_string(id);
      if (p->prevNextPtr_ != pp) links = "bad-prev-at-" + std::to_string(id);
      pp = &p->next_;
    }
    ctx.head_ = nullptr;   // nothing may fire: unlink everything before the context goes away
  }
  return " | " + order + " | " + links;
}

// ---- thread_unsafe_event_loop::enqueue + the real cancel callback -------------------------------------
static std::string run_ulq(std::istringstream& in) {
  using op_base = _thread_unsafe_event_loop::operation_base;
  std::string tok, order, links = "ok";
  thread_unsafe_event_loop loop;
  std::deque<op_base> nodes;
  auto base = thread_unsafe_event_loop::clock_t::now() + std::chrono::hours(10);
  while (in >> tok) {
    if (tok[0] == 'i') {
      nodes.emplace_back(loop, +[](op_base*) noexcept {});
      nodes.back().dueTime_ = base + std::chrono::milliseconds(std::stoll(tok.substr(1)));
      loop.enqueue(&nodes.back());
    } else if (tok[0] == 'x') {
      _thread_unsafe_event_loop::cancel_callback cb{nodes.at(std::stoi(tok.substr(1)))};
      cb();
    }
  }
  op_base** pp = &loop.head_;
  for (op_base* p = loop.head_; p != nullptr; p = p->next_) {
    int id = -1;
    for (std::size_t k = 0; k < nodes.size(); ++k) if (&nodes[k] == p) id = (int)k;
    if (!order.empty()) order += ",";
    order += std::to_string(id);
    if (p->prevPtr_ != pp) links = "bad-prev-at-" + std::to_string(id);
    pp = &p->next_;
  }
  loop.head_ = nullptr;
  return " | " + order + " | " + links;
}

int main() {
  std::string line;
  while (std::getline(std::cin, line)) {
    std::istringstream in(line);
    std::string cmd;
    in >> cmd;
    std::string out;
    if (cmd == "norm") {
      long long s, n; in >> s >> n;
      out = show(tp_t::from_seconds_and_nanoseconds(s, n));
    } else if (cmd == "add" || cmd == "sub" || cmd == "addv" || cmd == "subv") {
      long long s, n, d; in >> s >> n >> d;
      tp_t t = raw(s, n);
      mclock::duration dur(d);
      if (cmd == "add") { t += dur; out = show(t); }
      else if (cmd == "sub") { t -= dur; out = show(t); }
      else if (cmd == "addv") { out = show(t + dur); }
      else { out = show(t - dur); }
    } else if (cmd == "diff") {
      long long s1, n1, s2, n2; in >> s1 >> n1 >> s2 >> n2;
      mclock::duration d = raw(s1, n1) - raw(s2, n2);
      out = std::to_string((long long)d.count());
    } else if (cmd == "cmp") {
      long long s1, n1, s2, n2; in >> s1 >> n1 >> s2 >> n2;
      tp_t a = raw(s1, n1), b = raw(s2, n2);
      char buf[64];
      std::snprintf(buf, sizeof buf, "%d %d %d %d %d %d", (int)(a < b), (int)(a == b), (int)(a <= b), (int)(a > b), (int)(a >= b), (int)(a != b));
      out = buf;
    } else if (cmd == "heap") {
      out = run_heap(in);
    } else if (cmd == "tsq") {
      out = run_tsq(in);
    } else if (cmd == "ulq") {
      out = run_ulq(in);
    } else {
      out = "ERR unknown " + cmd;
    }
    std::puts(out.c_str());
  }
  return 0;
}
