// k3_c02_probe.cpp - deterministic fault probes for property C02 on the re-connecting algorithms (retry_when,
// repeat_effect_until): "every k-th connect() may throw; the failure is reported through set_error with nothing leaked,
// nothing destroyed twice and nothing that was never constructed destroyed".  cfg plain17, -fno-access-control.
// A scripted source: its connect() counts and the k-th one throws; its operation state registers itself in a live set
// (construction) and unregisters in its destructor; a destructor that runs on an address that is not live is a
// destruction of a dead / never constructed object.  The outer operation lives in 0xAB-poisoned heap storage.
// One line per probe:  <name> k=<k> completion=<v|e|d|-> connects=<n> ctor=<n> dtor=<n> dead_dtor=<n> live_end=<n>
// tools/props/c02.py: violation when dead_dtor != 0, live_end != 0, ctor != dtor, or the completion is not the documented
// one (set_error when a connect threw after start; the exception leaves connect() when the first connect throws).
#include <unifex/just.hpp>
#include <unifex/receiver_concepts.hpp>
#include <unifex/repeat_effect_until.hpp>
#include <unifex/retry_when.hpp>
#include <unifex/sender_concepts.hpp>

#include <cstdio>
#include <cstring>
#include <exception>
#include <new>
#include <set>
#include <stdexcept>
#include <string>

using namespace unifex;

namespace {

struct Env {
  int connects = 0, throw_at = 0;   // the throw_at-th connect throws (0: never)
  int starts = 0;
  int ctor = 0, dtor = 0, dead_dtor = 0;
  std::set<const void*> live;
  std::string script;               // outcome of the i-th start: 'v' value, 'e' error, 'd' done (last repeats)
} E;

template <typename R>
struct sop {
  R r;
  explicit sop(R&& rr) : r((R&&)rr) { ++E.ctor; E.live.insert(this); }
  sop(sop&&) = delete;
  ~sop() {
    ++E.dtor;
    if (!E.live.erase(this)) ++E.dead_dtor;
  }
  void start() noexcept {
    char k = E.script.empty() ? 'v' : E.script[std::min<std::size_t>(E.starts, E.script.size() - 1)];
    ++E.starts;
    if (k == 'e') unifex::set_error(std::move(r), std::make_exception_ptr(std::runtime_error("src")));
    else if (k == 'd') unifex::set_done(std::move(r));
    else unifex::set_value(std::move(r));
  }
};
struct ssrc {
  template <template <typename...> class Variant, template <typename...> class Tuple>
  using value_types = Variant<Tuple<>>;
  template <template <typename...> class Variant>
  using error_types = Variant<std::exception_ptr>;
  static constexpr bool sends_done = true;
  template <typename R>
  friend sop<remove_cvref_t<R>> tag_invoke(tag_t<unifex::connect>, const ssrc&, R&& r) {
    if (++E.connects == E.throw_at) throw std::runtime_error("connect");
    return sop<remove_cvref_t<R>>{(R&&)r};
  }
};

struct Rec { char completion = '-'; };
struct receiver {
  Rec* rec;
  void set_value() && noexcept { rec->completion = 'v'; }
  template <typename Er> void set_error(Er&&) && noexcept { rec->completion = 'e'; }
  void set_done() && noexcept { rec->completion = 'd'; }
};

template <typename Make>
void probe(const char* name, const char* script, int k, Make make) {
  E = Env{};
  E.script = script;
  E.throw_at = k;
  Rec rec;
  using op_t = decltype(unifex::connect(make(), receiver{&rec}));
  void* mem = ::operator new(sizeof(op_t), std::align_val_t(alignof(op_t)));
  std::memset(mem, 0xAB, sizeof(op_t));
  bool threw_out = false;
  op_t* op = nullptr;
  try {
    op = ::new (mem) op_t(unifex::connect(make(), receiver{&rec}));
  } catch (const std::runtime_error&) { threw_out = true; }
  if (op) {
    unifex::start(*op);
    op->~op_t();
  }
  std::memset(mem, 0xAB, sizeof(op_t));
  ::operator delete(mem, std::align_val_t(alignof(op_t)));
  std::printf("%s k=%d completion=%c connects=%d ctor=%d dtor=%d dead_dtor=%d live_end=%d threw_out=%d\n", name, k,
              rec.completion, E.connects, E.ctor, E.dtor, E.dead_dtor, (int)E.live.size(), (int)threw_out);
  std::fflush(stdout);
}

}  // namespace

int main() {
  // retry_when: the source fails `fails` times, the trigger (just()) fires at once, the source is re-connected
  for (int k = 0; k <= 4; ++k) {
    probe("retry_eev", "eev", k, [] { return retry_when(ssrc{}, [](std::exception_ptr) { return just(); }); });
    probe("retry_ed", "ed", k, [] { return retry_when(ssrc{}, [](std::exception_ptr) { return just(); }); });
  }
  // repeat_effect_until: the source completes with a value, the predicate asks for `n` more rounds
  for (int k = 0; k <= 4; ++k) {
    probe("repeat_3", "v", k, [] {
      return repeat_effect_until(ssrc{}, [n = 0]() mutable noexcept { return ++n >= 3; });
    });
    probe("repeat_vve", "vve", k, [] {
      return repeat_effect_until(ssrc{}, [n = 0]() mutable noexcept { return ++n >= 4; });
    });
  }
  std::printf("END\n");
  return 0;
}
