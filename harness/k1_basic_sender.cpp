// K1 driver (C19, unit 5): the real unifex::create_basic_sender (C++20): recursive mutex + phase +
// recursion counter, events start / callback / stop, safe (weak_ptr) and unsafe callbacks.
// program: <first: sync|inl|safe|unsafe|none> <second: safe|nosecond> <stop|nostop|prestop>
//          [<breq: nobs|valstop|stopval> [<restop|norestop>]]
//   first  = how the value completion arrives: `sync` op.set_value() directly in the start event;
//            `inl` the start event invokes its own callback synchronously (recursion);
//            `safe`/`unsafe` thread 1 invokes a safe/unsafe callback made in the start event;
//            `none` no natural completion (only stop completes)
//   second = thread 2 invokes another SAFE callback at any time after start (it may arrive before,
//            while or after the operation completes: a late safe callback must be a no-op)
//   breq   = the body event that calls op.set_value() (the start event for `sync`, otherwise every
//            callback event) also calls request_stop() on the operation's OWN stop source from inside
//            the event: `valstop` right after the set_value, `stopval` right before it (the stop
//            callback then runs re-entrantly on the same thread, recursive mutex held, and for
//            `stopval` completes the operation with done: the later set_value must be ignored)
//   restop = the stop event calls request_stop() again (a no-op)
// virtual threads: 0 connect + start; 1 first callback; 2 second (safe) callback; 3 stop request;
// 4 the receiver's owner: destroys the operation once the receiver completed.  After destruction
// the storage is zeroed with phase_ = completed_normally so that a late access through the (dead)
// mutex is logged instead of hanging; under ASan the storage is really freed.
#include <unifex/create_basic_sender.hpp>
#include "vh.hpp"
using namespace unifex;

namespace {

struct bctl {
  std::atomic<int> slot{0};   // unsafe callback only: 1 armed, 2 taken by the caller, 3 removed by the stop event
  char first = 's';
  bool second = false;
  char breq = 'n';            // 'v' set_value then request_stop, 's' request_stop then set_value
  bool restop = false;
  bool armed = false;
  inplace_stop_source* ext = nullptr;   // the source the operation's receiver listens to
  std::function<void()> cb1, cb2;
  // the body completes with a value, possibly requesting stop on its own source around it
  template <typename Op>
  void value(Op& op) {
    if (breq == 's') { dsched::action("body.reqstop"); ext->request_stop(); }
    dsched::action("body.set_value");
    op.set_value(7);
    if (breq == 'v') { dsched::action("body.reqstop"); ext->request_stop(); }
  }
};

auto make_sender(bctl* c) {
  return create_basic_sender<int>([c](auto event, auto& op) noexcept {
    if constexpr (event.is_start) {
      dsched::action("body.start");
      if (c->second) c->cb2 = safe_callback<>(op);
      if (c->first == 's') {
        c->value(op);
      } else if (c->first == 'i') {
        auto cb = safe_callback<>(op);
        cb();
      } else if (c->first == 'f') {       // saFe
        c->cb1 = safe_callback<>(op);
      } else if (c->first == 'u') {
        // an unsafe callback must never be invoked after the operation completed: the stop event
        // and the caller arbitrate on a slot outside the operation (the documented contract)
        c->cb1 = unsafe_callback<>(op);
        c->slot.store(1, std::memory_order_release);
      }
      c->armed = true;
    } else if constexpr (event.is_callback) {
      dsched::action("body.callback");
      c->value(op);
    } else if constexpr (event.is_stop) {
      dsched::action("body.stop");
      if (c->restop) { dsched::action("body.reqstop"); c->ext->request_stop(); }
      if (c->first == 'u') {
        int e = 1;
        if (c->slot.compare_exchange_strong(e, 3, std::memory_order_acq_rel)) { dsched::action("body.set_done"); op.set_done(); }
      } else {
        dsched::action("body.set_done");
        op.set_done();
      }
    }
  });
}

std::vector<std::function<void()>> make_threads(char first, bool second, const std::string& stopmode, char breq, bool restop) {
  using sender_t = decltype(make_sender(nullptr));
  using op_t = decltype(unifex::connect(std::declval<sender_t>(), std::declval<vh::root_receiver<>>()));
  struct Shared {
    bctl ctl;
    inplace_stop_source ext;
    vh::root_state root;
    void* mem = nullptr;
    op_t* op = nullptr;
    bool constructed = false, destroyed = false;
    ~Shared() { if (mem) ::operator delete(mem, std::align_val_t(alignof(op_t))); }
  };
  auto sh = std::make_shared<Shared>();
  sh->ctl.first = first; sh->ctl.second = second; sh->ctl.breq = breq; sh->ctl.restop = restop;
  sh->ctl.ext = &sh->ext;
  std::vector<std::function<void()>> th;
  th.push_back([sh, stopmode] {
    dsched::name_range(&sh->ext.state_, 1, "ext.state");
    dsched::name_range(&sh->ctl.slot, sizeof(sh->ctl.slot), "n.slot");
    if (stopmode == "prestop") sh->ext.request_stop();
    sh->mem = ::operator new(sizeof(op_t), std::align_val_t(alignof(op_t)));
    std::memset(sh->mem, 0, sizeof(op_t));
    sh->op = ::new (sh->mem) op_t(unifex::connect(make_sender(&sh->ctl), vh::root_receiver<>{&sh->root, sh->ext.get_token()}));
    dsched::name_range(&sh->op->state_.mutex_, sizeof(sh->op->state_.mutex_), "b.mutex");
    dsched::name_range(&sh->op->stop_, sizeof(sh->op->stop_), "b.cb");
    sh->constructed = true;
    unifex::start(*sh->op);
    dsched::action("start.returned");
  });
  th.push_back([sh, first] {
    if (first != 'f' && first != 'u') return;
    dsched::block_until([&] { return sh->ctl.armed || sh->root.completions > 0; });
    if (!sh->ctl.cb1) return;
    if (first == 'u') {
      int e = 1;
      if (!sh->ctl.slot.compare_exchange_strong(e, 2, std::memory_order_acq_rel)) return;
    } else {
      dsched::action("cb1.call");
    }
    sh->ctl.cb1();
    dsched::action("cb1.ret");
  });
  th.push_back([sh, second] {
    if (!second) return;
    dsched::block_until([&] { return sh->ctl.armed || sh->root.completions > 0; });
    if (!sh->ctl.cb2) return;
    dsched::action("cb2.call");
    sh->ctl.cb2();
    dsched::action("cb2.ret");
  });
  th.push_back([sh, stopmode] {
    if (stopmode != "stop") return;
    dsched::block_until([&] { return sh->constructed; });
    sh->ext.request_stop();
  });
  th.push_back([sh] {
    dsched::block_until([&] { return sh->root.completions > 0; });
    sh->op->~op_t();
#if defined(__SANITIZE_ADDRESS__)
    ::operator delete(sh->mem, std::align_val_t(alignof(op_t)));
    sh->mem = nullptr;
#else
    std::memset(sh->mem, 0, sizeof(op_t));
    reinterpret_cast<op_t*>(sh->mem)->state_.phase_ = _create_basic_sndr::_state::completed_normally;
#endif
    sh->destroyed = true;
    dsched::action("op_destroyed");
  });
  return th;
}
}  // namespace

int main(int argc, char** argv) {
  auto cli = vh::parse_cli(argc, argv);
  std::string f = cli.prog.at(0);
  char first = f == "sync" ? 's' : f == "inl" ? 'i' : f == "safe" ? 'f' : f == "unsafe" ? 'u' : 'n';
  bool second = cli.prog.size() > 1 && cli.prog[1] == "safe";
  std::string stopmode = cli.prog.size() > 2 ? cli.prog[2] : "nostop";
  std::string bq = cli.prog.size() > 3 ? cli.prog[3] : "nobs";
  char breq = bq == "valstop" ? 'v' : bq == "stopval" ? 's' : 'n';
  bool restop = cli.prog.size() > 4 && cli.prog[4] == "restop";
  auto make = [&]() { return make_threads(first, second, stopmode, breq, restop); };
  auto monitor = [&](const dsched::Result& r) -> std::string {
    int roots = 0, bodies = 0, stops = 0, starts = 0;
    bool destroyed = false, completed = false;
    // phase finished: the body has called set_value / set_done (the first such call is the decision)
    std::string decided, root;
    std::string bad;
    auto has = [](const std::string& e, const char* s) { return e.find(s) != std::string::npos; };
    for (auto& e : r.trace) {
      bool own = e.rfind("t4 ", 0) == 0;
      bool touches = !own && (has(e, " b.mutex ") || has(e, " b.cb") || has(e, "!body."));
      if (has(e, "!root ")) { ++roots; completed = true; if (root.empty()) root = has(e, "!root value") ? "value" : has(e, "!root done") ? "done" : "other"; continue; }
      if (has(e, "!op_destroyed")) { destroyed = true; continue; }
      const char* what = has(e, " b.mutex ") ? "MUTEX" : has(e, " b.cb") ? "CALLBACK" : "BODY";
      if (touches && destroyed && bad.empty()) bad = std::string("USE-AFTER-DESTROY-") + what + ": " + e;
      if (touches && completed && !destroyed && bad.empty()) bad = std::string("LATE-ACCESS-") + what + ": " + e;
      if (has(e, "!body.start")) ++starts;
      if (has(e, "!body.callback")) { ++bodies; if (!decided.empty() && bad.empty()) bad = "CALLBACK-EVENT-AFTER-FINISH: (" + decided + " chosen) " + e; }
      if (has(e, "!body.stop")) {
        ++stops;
        if (starts == 0 && bad.empty()) bad = "STOP-EVENT-BEFORE-START: " + e;
        if (!decided.empty() && bad.empty()) bad = "STOP-EVENT-AFTER-FINISH: (" + decided + " chosen) " + e;
      }
      if (has(e, "!body.set_value") && decided.empty()) decided = "value";
      if (has(e, "!body.set_done") && decided.empty()) decided = "done";
    }
    if (!bad.empty()) return bad;
    if (roots == 1 && !decided.empty() && root != decided)
      return "FIRST-DECISION-OVERRIDDEN: body chose " + decided + " first, receiver got " + root;
    if (roots != 1) return "COMPLETIONS: root completions=" + std::to_string(roots);
    if (stops > 1) return "STOP-EVENT-TWICE: " + std::to_string(stops);
    if (starts > 1) return "START-EVENT-TWICE: " + std::to_string(starts);
    return "";
  };
  return vh::drive(cli, make, monitor);
}
