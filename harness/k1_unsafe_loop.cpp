// K1 driver: the real thread_unsafe_event_loop on ONE dsched virtual thread with the virtual clock.
//
// program:  <ops> <script> [<hooks>]
//   ops     comma separated: a<ms> = schedule_after(ms), t<ms> = schedule_at(epoch + ms)
//   script  comma separated commands run in order by the single thread:
//             s<i> connect+start operation i     x<i> request_stop on operation i's stop source
//             c<ms> advance the virtual clock     r    loop.run_until_empty()
//   hooks   '-' or  i:cmd/cmd;j:cmd...  commands run inside operation i's rcvr when it completes
// Operation states are placement-constructed in 0xAB-filled storage.  operation_base::next_/prevPtr_
// have no initialiser in the repository as it is; the driver looks at the freshly constructed object
// (-fno-access-control) and logs "!links uninit" or "!links null".  When an operation is about to be
// started in a situation in which the cancel callback would read the poisoned prevPtr_ (stop already
// requested and now < due time) the driver logs "!uninit i" and ends the run INSTEAD of executing the
// wild write; `crashchild <ops> <script>` runs the same script for real in a forked child (outside
// dsched, real clock) and reports how the child died.
#include <unifex/thread_unsafe_event_loop.hpp>
#include <unifex/scheduler_concepts.hpp>
#include <unifex/sender_concepts.hpp>
#include <unifex/inplace_stop_token.hpp>
#include "vh.hpp"
#include <sys/wait.h>
using namespace unifex;
using namespace std::chrono;

namespace {
struct OpSpec { bool after; long ms; };
std::vector<std::string> split(const std::string& s, char c) {
  std::vector<std::string> v;
  std::size_t i = 0;
  while (i <= s.size()) {
    std::size_t e = s.find(c, i);
    if (e == std::string::npos) e = s.size();
    if (e > i) v.push_back(s.substr(i, e - i));
    i = e + 1;
  }
  return v;
}
std::vector<OpSpec> parse_ops(const std::string& s) {
  std::vector<OpSpec> v;
  for (auto& t : split(s, ',')) v.push_back(OpSpec{t[0] == 'a', std::atol(t.c_str() + 1)});
  return v;
}

constexpr int MAXOPS = 8;
constexpr std::uintptr_t POISON = (std::uintptr_t)0xABABABABABABABABull;
struct Shared;
struct rcvr {
  Shared* sh;
  int i;
  void set_value() && noexcept;
  void set_done() && noexcept;
  template <typename E> void set_error(E&&) && noexcept {}
  friend inplace_stop_token tag_invoke(tag_t<get_stop_token>, const rcvr& r) noexcept;
};
using sched_t = decltype(std::declval<thread_unsafe_event_loop&>().get_scheduler());
using after_op_t = connect_result_t<decltype(unifex::schedule_after(std::declval<sched_t>(), milliseconds(0))), rcvr>;
using at_op_t = connect_result_t<decltype(unifex::schedule_at(std::declval<sched_t>(), thread_unsafe_event_loop::clock_t::time_point{})), rcvr>;
using op_base = _thread_unsafe_event_loop::operation_base;

struct Shared {
  std::vector<OpSpec> ops;
  std::map<int, std::vector<std::string>> hooks;
  inplace_stop_source src[MAXOPS];
  thread_unsafe_event_loop loop;
  alignas(64) unsigned char storage[MAXOPS + 1][512];
  op_base* base[MAXOPS] = {};
  bool real = false;       // crashchild: no dsched, no guard
  bool crashed = false;
  long epoch_ms = 0;
  Shared() { std::memset(storage, 0xAB, sizeof storage); }
  long now_ms() const {
    if (real) return (long)duration_cast<milliseconds>(steady_clock::now().time_since_epoch()).count();
    return (long)(dsched::now_ns() / 1000000);
  }
  void log(const char* what, int i, long t) {
    if (real) { std::printf("%s %d %ld\n", what, i, t); std::fflush(stdout); }
    else if (t >= 0) dsched::action("%s %d %ld", what, i, t);
    else dsched::action("%s %d", what, i);
  }
  void run_cmd(const std::string& c);
};

// once the run has "crashed" (the guarded wild write) nothing more is logged: the model stops there too
void rcvr::set_value() && noexcept {
  if (sh->crashed) return;
  sh->log("fire", i, sh->now_ms());
  auto it = sh->hooks.find(i);
  if (it != sh->hooks.end()) for (auto& c : it->second) if (!sh->crashed) sh->run_cmd(c);
}
void rcvr::set_done() && noexcept {
  if (sh->crashed) return;
  sh->log("done", i, sh->now_ms());
  auto it = sh->hooks.find(i);
  if (it != sh->hooks.end()) for (auto& c : it->second) if (!sh->crashed) sh->run_cmd(c);
}
inplace_stop_token tag_invoke(tag_t<get_stop_token>, const rcvr& r) noexcept { return r.sh->src[r.i].get_token(); }

bool poisoned(op_base* b) {
  return (std::uintptr_t)b->prevPtr_ == POISON || (std::uintptr_t)b->next_ == POISON;
}

void Shared::run_cmd(const std::string& c) {
  int i = std::atoi(c.c_str() + 1);
  if (c[0] == 's') {
    auto sched = loop.get_scheduler();
    auto& spec = ops.at(i);
    static_assert(sizeof(after_op_t) <= 512 && sizeof(at_op_t) <= 512, "storage too small");
    long due;
    if (spec.after) {
      auto* op = new (storage[i]) after_op_t(unifex::connect(unifex::schedule_after(sched, milliseconds(spec.ms)), rcvr{this, i}));
      base[i] = op;
      due = now_ms() + spec.ms;
      log("start", i, -1);
      if (!real && poisoned(base[i]) && src[i].stop_requested() && now_ms() < due) { log("uninit", i, -1); crashed = true; return; }
      unifex::start(*op);
    } else {
      auto tp = thread_unsafe_event_loop::clock_t::time_point(milliseconds(epoch_ms + spec.ms));
      auto* op = new (storage[i]) at_op_t(unifex::connect(unifex::schedule_at(sched, tp), rcvr{this, i}));
      base[i] = op;
      due = epoch_ms + spec.ms;
      log("start", i, -1);
      if (!real && poisoned(base[i]) && src[i].stop_requested() && now_ms() < due) { log("uninit", i, -1); crashed = true; return; }
      unifex::start(*op);
    }
  } else if (c[0] == 'x') {
    log("stop", i, -1);
    src[i].request_stop();
  } else if (c[0] == 'c') {
    long ms = std::atol(c.c_str() + 1);
    if (!real) { dsched::advance_clock(ms * 1000000L); dsched::action("clock %ld", now_ms()); }
  } else if (c[0] == 'r') {
    if (!real) dsched::action("enter");
    loop.run_until_empty();
    if (!real && !crashed) dsched::action("exit");
  }
}

void setup(Shared& sh, const std::string& ops, const std::string& hooks) {
  sh.ops = parse_ops(ops);
  if (hooks != "-")
    for (auto& h : split(hooks, ';')) {
      auto p = h.find(':');
      sh.hooks[std::atoi(h.substr(0, p).c_str())] = split(h.substr(p + 1), '/');
    }
}
}  // namespace

int main(int argc, char** argv) {
  if (argc >= 4 && std::string(argv[1]) == "crashchild") {
    std::fflush(stdout);
    pid_t pid = fork();
    if (pid == 0) {
      auto sh = std::make_unique<Shared>();
      sh->real = true;
      setup(*sh, argv[2], argc > 4 ? argv[4] : "-");
      sh->epoch_ms = sh->now_ms();
      for (auto& c : split(argv[3], ',')) sh->run_cmd(c);
      std::printf("child finished\n");
      std::fflush(stdout);
      _exit(0);
    }
    int st = 0;
    waitpid(pid, &st, 0);
    if (WIFSIGNALED(st)) std::printf("CHILD signal=%d\n", WTERMSIG(st));
    else std::printf("CHILD exit=%d\n", WEXITSTATUS(st));
    return 0;
  }
  auto cli = vh::parse_cli(argc, argv);
  std::string ops = cli.prog.at(0), script = cli.prog.at(1), hooks = cli.prog.size() > 2 ? cli.prog[2] : "-";
  auto make = [&]() -> std::vector<std::function<void()>> {
    auto sh = std::make_shared<Shared>();
    setup(*sh, ops, hooks);
    return {[sh, script] {
      sh->epoch_ms = sh->now_ms();
      // probe: what does a freshly constructed operation state hold in its link fields?
      {
        auto sched = sh->loop.get_scheduler();
        inplace_stop_source dummy;
        auto* op = new (sh->storage[MAXOPS]) after_op_t(unifex::connect(unifex::schedule_after(sched, milliseconds(1)), rcvr{sh.get(), 0}));
        dsched::action("links %s", poisoned(op) ? "uninit" : "null");
      }
      dsched::action("ready %ld", sh->epoch_ms);
      for (auto& c : split(script, ',')) { if (sh->crashed) break; sh->run_cmd(c); }
    }};
  };
  auto specs = parse_ops(ops);
  // Direct monitor: C07 on the implementation's own run (virtual time).  The uninitialised-link read is
  // reported by tools/props/c07.py from the "!uninit i" action (specific violation key); here: once,
  // never early, done only after a stop request, a stop request that precedes the completion yields
  // done, order by (due, start order) among operations queued together and never stopped, and a
  // cancelled queued operation completes before the loop sleeps again.
  auto monitor = [&](const dsched::Result& r) -> std::string {
    std::size_t n = specs.size();
    std::vector<long> start_at(n, -1), due(n, -1), fin_at(n, -1), start_idx(n, -1), fin_idx(n, -1), stop_idx(n, -1);
    std::vector<int> comp(n, 0);
    std::vector<char> kind(n, '?');
    std::vector<long> jumps;
    long epoch = 0, clock = 0, idx = 0;
    bool crashed = false, ended_with_run = false;
    for (auto& e : r.trace) {
      ++idx;
      auto p = e.find('!');
      if (p == std::string::npos) continue;
      char name[32]; long a = 0, b = 0;
      int k = std::sscanf(e.c_str() + p + 1, "%31s %ld %ld", name, &a, &b);
      std::string nm = name;
      ended_with_run = (nm == "exit");
      if (nm == "ready") { epoch = a; clock = a; }
      else if (nm == "clock") clock = a;
      else if (nm == "uninit") crashed = true;
      else if (nm == "start" || nm == "stop" || nm == "fire" || nm == "done") {
        if (k < 2 || a < 0 || a >= (long)n) return "bad event " + e;
        if (nm == "start") { start_idx[a] = idx; start_at[a] = clock; }
        else if (nm == "stop") stop_idx[a] = idx;
        else {
          comp[a]++; kind[a] = nm[0]; fin_at[a] = b; fin_idx[a] = idx;
          if (b > clock) { jumps.push_back(idx); clock = b; }
          if (b < clock) return "clock went backwards at " + e;
        }
      }
    }
    for (std::size_t i = 0; i < n; ++i) {
      std::string I = std::to_string(i);
      if (comp[i] > 1) return "operation " + I + " completed " + std::to_string(comp[i]) + " times";
      if (comp[i] == 1 && (start_idx[i] < 0 || fin_idx[i] < start_idx[i])) return "operation " + I + " completed before it was started";
      if (!crashed && ended_with_run && start_idx[i] >= 0 && comp[i] != 1) return "operation " + I + " started but never completed";
      if (comp[i] == 0) continue;
      due[i] = specs[i].after ? start_at[i] + specs[i].ms : epoch + specs[i].ms;
      if (kind[i] == 'f' && fin_at[i] < due[i])
        return "operation " + I + " fired early: at " + std::to_string(fin_at[i]) + " due " + std::to_string(due[i]);
      if (kind[i] == 'd' && !(stop_idx[i] >= 0 && stop_idx[i] < fin_idx[i])) return "operation " + I + " done without a stop request";
      if (kind[i] == 'f' && stop_idx[i] >= 0 && stop_idx[i] < fin_idx[i]) return "operation " + I + " stopped before completion but completed with value";
      if (stop_idx[i] >= 0) {
        long S = std::max(stop_idx[i], start_idx[i]);
        for (long j : jumps)
          if (j > S && j <= fin_idx[i]) return "cancelled operation " + I + " was not prompt: the loop slept until a later deadline";
      }
    }
    for (std::size_t i = 0; i < n; ++i)
      for (std::size_t j = 0; j < n; ++j) {
        if (i == j || comp[i] != 1 || comp[j] != 1 || stop_idx[i] >= 0 || stop_idx[j] >= 0) continue;
        long first = std::min(fin_idx[i], fin_idx[j]);
        if (!(start_idx[i] < first && start_idx[j] < first)) continue;
        bool i_first = due[i] < due[j] || (due[i] == due[j] && start_idx[i] < start_idx[j]);
        if (i_first && fin_idx[j] < fin_idx[i])
          return "order: operation " + std::to_string(j) + " (due " + std::to_string(due[j]) + ") completed before " +
                 std::to_string(i) + " (due " + std::to_string(due[i]) + ")";
      }
    return "";
  };
  return vh::drive(cli, make, monitor);
}
