// K1 driver: the real async_auto_reset_event.
// program: <ready0: 0|1> <prog of thread 0> <prog of thread 1> ...
//   S = set(), D = set_done(), N<d> = connect(evt.stream().next(), receiver d) + start, then run
//   this thread's mailbox until that next completed (d = one decimal digit, each at most once).
// A thread with N commands is a consumer: its receivers answer get_scheduler with
// hop_scheduler{mailbox of that thread}: schedule() logs "w<d> handoff" and posts the
// continuation to the mailbox, which only that virtual thread drains -- so every completion runs
// on the waiter's own thread (checked).  (An inline scheduler is excluded by the header's own
// comment: the continuation would re-lock mutex_ inside event_.set().)
// A consumer whose next can no longer complete (all non-consumer threads finished, mailbox empty)
// logs "next <d> abandoned" and stops.
#include <unifex/async_auto_reset_event.hpp>
#include <unifex/scheduler_concepts.hpp>
#include "vh.hpp"
using namespace unifex;

namespace {

constexpr int MAXW = 10;

struct mailbox {
  std::deque<std::function<void()>> q;
  int owner = -1;   // virtual thread id that drains it
};

struct hop_scheduler {
  mailbox* mb;
  int w;
  struct sender {
    mailbox* mb;
    int w;
    template <template <class...> class V, template <class...> class T>
    using value_types = V<T<>>;
    template <template <class...> class V>
    using error_types = V<std::exception_ptr>;
    static constexpr bool sends_done = true;
    static constexpr blocking_kind blocking = blocking_kind::never;
    static constexpr bool is_always_scheduler_affine = false;
    template <class R>
    struct op {
      mailbox* mb;
      int w;
      R r;
      void start() & noexcept {
        dsched::action("w%d handoff", w);
        mb->q.push_back([this] { unifex::set_value(std::move(r)); });
      }
    };
    template <class R>
    friend op<remove_cvref_t<R>> tag_invoke(tag_t<unifex::connect>, const sender& s, R&& r) {
      return op<remove_cvref_t<R>>{s.mb, s.w, (R&&)r};
    }
  };
  sender schedule() const noexcept { return sender{mb, w}; }
  friend bool operator==(const hop_scheduler& a, const hop_scheduler& b) noexcept { return a.mb == b.mb; }
  friend bool operator!=(const hop_scheduler& a, const hop_scheduler& b) noexcept { return !(a == b); }
};

struct RunState {
  int completed[MAXW] = {};
  char kind[MAXW] = {};
};

struct recv {
  RunState* rs;
  int w;
  mailbox* mb;
  inplace_stop_token tok;
  void fin(char k) noexcept {
    rs->completed[w]++; rs->kind[w] = k;
    dsched::action("next %d %s here=%d", w, k == 'v' ? "value" : k == 'd' ? "done" : "error", (int)(dsched::self() == mb->owner));
  }
  void set_value() && noexcept { fin('v'); }
  template <class E>
  void set_error(E&&) && noexcept { fin('e'); }
  void set_done() && noexcept { fin('d'); }
  friend inplace_stop_token tag_invoke(tag_t<get_stop_token>, const recv& r) noexcept { return r.tok; }
  friend hop_scheduler tag_invoke(tag_t<get_scheduler>, const recv& r) noexcept { return hop_scheduler{r.mb, r.w}; }
};

using Cmds = std::vector<std::pair<char, int>>;
std::vector<Cmds> parse(const std::vector<std::string>& progs) {
  std::vector<Cmds> p;
  for (auto& s : progs) {
    Cmds cmds;
    for (std::size_t i = 0; i < s.size(); ++i) {
      if (s[i] == 'N') { cmds.push_back({'N', s.at(i + 1) - '0'}); ++i; }
      else if (s[i] == '-') continue;
      else cmds.push_back({s[i], 0});
    }
    p.push_back(cmds);
  }
  return p;
}
bool is_consumer(const Cmds& c) { for (auto& x : c) if (x.first == 'N') return true; return false; }

std::vector<std::function<void()>> make_threads(bool ready0, const std::vector<Cmds>& P) {
  using op_t = connect_result_t<decltype(std::declval<async_auto_reset_event&>().stream().next()), recv>;
  struct Shared {
    explicit Shared(bool r) : evt(r) {}
    async_auto_reset_event evt;
    inplace_stop_source never;
    RunState rs;
    manual_lifetime<op_t> ops[MAXW];
    bool live[MAXW] = {};
    mailbox mb[16];
    int producers_done = 0;
    ~Shared() { for (int i = 0; i < MAXW; ++i) if (live[i]) ops[i].destruct(); }
  };
  auto sh = std::make_shared<Shared>(ready0);
  int nproducers = 0;
  for (auto& c : P) if (!is_consumer(c)) ++nproducers;
  std::vector<std::function<void()>> th;
  for (std::size_t t = 0; t < P.size(); ++t) {
    th.push_back([sh, cmds = P[t], t, nproducers] {
      dsched::name_range(&sh->evt.mutex_, sizeof(sh->evt.mutex_), "aare.mutex");
      dsched::name_range(&sh->evt.event_.state_, sizeof(sh->evt.event_.state_), "aare.evt");
      dsched::name_value((std::uint64_t)(std::uintptr_t)static_cast<void*>(&sh->evt.event_), "SIG");
      mailbox& mb = sh->mb[t];
      mb.owner = dsched::self();
      const bool consumer = is_consumer(cmds);
      for (auto [c, w] : cmds) {
        if (c == 'S') sh->evt.set();
        else if (c == 'D') sh->evt.set_done();
        else if (c == 'N') {
          int wi = w;
          sh->ops[wi].construct_with([&] {
            return unifex::connect(sh->evt.stream().next(), recv{&sh->rs, wi, &mb, sh->never.get_token()});
          });
          sh->live[wi] = true;
          unifex::start(sh->ops[wi].get());
          bool abandoned = false;
          while (!sh->rs.completed[wi]) {
            dsched::block_until([&] { return !mb.q.empty() || sh->producers_done == nproducers; });
            if (mb.q.empty()) { abandoned = true; break; }
            auto f = std::move(mb.q.front());
            mb.q.pop_front();
            f();
          }
          if (abandoned) { dsched::action("next %d abandoned", wi); break; }
          sh->ops[wi].destruct();
          sh->live[wi] = false;
        }
      }
      if (!consumer) sh->producers_done++;
    });
  }
  return th;
}

// ---------------------------------------------------------------------------------------------
// direct monitor on the implementation's run:
//  * every next completes at most once, on its own thread, never with error;
//  * values <= ready0 + number of set() calls  (each set consumed by at most one next);
//  * after a set_done() call returned, every later completion is done; a next completes done only
//    if some set_done() call has at least begun -- EXCEPT that with two or more consumers the loser
//    of a try_reset race completes done although nobody called set_done (reported separately as
//    "spurious done", see the model theorem AutoReset spurious_done_refuted);
//  * a next is abandoned only if no set_done() was called.
std::string monitor(bool ready0, const std::vector<Cmds>& P, const dsched::Result& r) {
  const int n = (int)P.size();
  std::vector<std::size_t> cur(n, 0);    // command cursor of producer threads, by their lock events
  std::vector<int> lockdepth(n, 0);
  int sets_begun = 0, dones_begun = 0, dones_returned = 0, values = 0;
  int completed[MAXW] = {};
  int nconsumers = 0;
  for (auto& c : P) if (is_consumer(c)) ++nconsumers;
  std::string spurious;
  for (auto& e : r.trace) {
    int t = 0; std::size_t i = 1;
    while (i < e.size() && std::isdigit((unsigned char)e[i])) t = t * 10 + (e[i++] - '0');
    std::string rest = e.substr(i + 1);
    if (t < n && !is_consumer(P[t]) && rest.compare(0, 11, "aare.mutex ") == 0) {
      bool lock = rest.find(" ML") != std::string::npos, unlock = rest.find(" MU") != std::string::npos;
      if (cur[t] >= P[t].size()) return "mutex touched beyond the program";
      char c = P[t][cur[t]].first;
      if (lock) { if (c == 'S') ++sets_begun; else ++dones_begun; }
      if (unlock) { if (c == 'D') ++dones_returned; cur[t]++; }
    }
    int w = -1, here = 0; char kind[16] = {};
    if (std::sscanf(rest.c_str(), "!next %d %15s here=%d", &w, kind, &here) == 3) {
      if (++completed[w] > 1) return "next " + std::to_string(w) + " completed twice";
      if (!here) return "next " + std::to_string(w) + " completed off its scheduler's thread";
      std::string k = kind;
      if (k == "error") return "next completed with error";
      if (k == "value") {
        ++values;
        if (dones_returned > 0) return "next " + std::to_string(w) + " completed with value after set_done() returned";
        if (values > (ready0 ? 1 : 0) + sets_begun) return "more values than set() calls";
      } else if (dones_begun == 0) {
        if (nconsumers >= 2) spurious = "spurious done: next " + std::to_string(w) + " completed done, set_done() never called";
        else return "next " + std::to_string(w) + " completed done although set_done() was never called";
      }
    }
    if (std::sscanf(rest.c_str(), "!next %d abandoned", &w) == 1 && rest.find("abandoned") != std::string::npos) {
      if (dones_begun > 0) return "next " + std::to_string(w) + " left waiting although set_done() was called";
    }
  }
  return spurious;
}

}  // namespace

int main(int argc, char** argv) {
  auto cli = vh::parse_cli(argc, argv);
  bool ready0 = cli.prog.at(0) == "1";
  bool report_spurious = true;
  std::vector<std::string> progs(cli.prog.begin() + 1, cli.prog.end());
  if (!progs.empty() && progs.back() == "allow-spurious") { report_spurious = false; progs.pop_back(); }
  auto P = parse(progs);
  auto make = [&]() { return make_threads(ready0, P); };
  return vh::drive(cli, make, [&](const dsched::Result& r) {
    std::string v = monitor(ready0, P, r);
    if (!report_spurious && v.compare(0, 13, "spurious done") == 0) return std::string();
    return v;
  });
}
