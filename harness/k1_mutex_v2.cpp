// K1 driver: the real v2::async_mutex (include/unifex/v2/async_mutex.hpp, source/async_mutex_v2.cpp,
// source/atomic_intrusive_list.cpp, cancellable.hpp, detail/completion_forwarder.hpp) under
// contention and cancellation.
// program: <nlock> <ntry> <stopmask>     stopmask: one char per locker, '1' = a stop requester exists
//   virtual threads 0..nlock-1            : connect(async_lock(), receiver_i), start; the receiver
//        (inplace_stop_token of src[i], inline_scheduler) logs "!acquire i" or "!done i" and sets a
//        flag; the locker's thread then logs "!release i" and calls unlock() if it acquired
//   virtual threads nlock..nlock+ntry-1   : try_lock(); "!acquire t", "!release t", unlock() / "!tryfail t"
//   then one thread per '1' in stopmask   : src[i].request_stop()
// The last thread to finish logs "!final locked=<0|1> empty=<0|1>" (raw reads of the mutex).
// Named locations: locked (locked_), cs<i> (cancellable state_ of locker i: 1 stopped, 2 started,
// 4 completed), src<i> (inplace_stop_source state_: 1 stop requested, 2 locked), cbdone<i>
// (callbackCompleted_ of i's stop callback), stk<i>+off (the stack-local sync_complete flag of
// stop_type::start on thread i), q.head / q.sent.self / n<i>.self / n<i>.rest (the waiter list).
// The first event is "!cfg hop_stoppable=<0|1>": whether completion_forwarder's receiver exposes a
// stoppable token to the scheduler hop (finding 12) - a compile-time fact of the tree under test.
#include <unifex/v2/async_mutex.hpp>
#include <unifex/inline_scheduler.hpp>
#include <unifex/inplace_stop_token.hpp>
#include "vh.hpp"
using namespace unifex;

namespace {
constexpr int MAXT = 8;
struct Shared;

struct lock_receiver {
  Shared* sh;
  int i;
  void set_value() && noexcept;
  void set_done() && noexcept;
  template <typename E> void set_error(E&&) && noexcept { dsched::action("error %d", i); }
  friend inplace_stop_token tag_invoke(tag_t<get_stop_token>, const lock_receiver& r) noexcept;
  friend inline_scheduler tag_invoke(tag_t<get_scheduler>, const lock_receiver&) noexcept { return {}; }
};

using sender_t = decltype(std::declval<v2::async_mutex&>().async_lock());
using op_t = connect_result_t<sender_t, lock_receiver>;
using fwd_t = completion_forwarder<std::remove_reference_t<decltype(std::declval<op_t&>().nested_op())>, lock_receiver>;
using fwd_receiver_t = typename fwd_t::receiver;
constexpr bool hop_stoppable = !is_stop_never_possible_v<stop_token_type_t<fwd_receiver_t>>;

struct Shared {
  v2::async_mutex mtx;
  inplace_stop_source src[MAXT];
  manual_lifetime<op_t> op[MAXT];
  int got[MAXT] = {};          // 1 value, 2 done
  int nlock = 0, ntry = 0, total = 0, finished = 0;
  void names() {
    static const char* csn[MAXT] = {"cs0", "cs1", "cs2", "cs3", "cs4", "cs5", "cs6", "cs7"};
    static const char* srcn[MAXT] = {"src0", "src1", "src2", "src3", "src4", "src5", "src6", "src7"};
    static const char* cbn[MAXT] = {"cbdone0", "cbdone1", "cbdone2", "cbdone3", "cbdone4", "cbdone5", "cbdone6", "cbdone7"};
    static const char* nn[MAXT] = {"n0", "n1", "n2", "n3", "n4", "n5", "n6", "n7"};
    static const char* nself[MAXT] = {"n0.self", "n1.self", "n2.self", "n3.self", "n4.self", "n5.self", "n6.self", "n7.self"};
    static const char* nrest[MAXT] = {"n0.rest", "n1.rest", "n2.rest", "n3.rest", "n4.rest", "n5.rest", "n6.rest", "n7.rest"};
    static const char* pnrest[MAXT] = {"&n0.rest", "&n1.rest", "&n2.rest", "&n3.rest", "&n4.rest", "&n5.rest", "&n6.rest", "&n7.rest"};
    dsched::name_range(&mtx.locked_, sizeof(mtx.locked_), "locked");
    dsched::name_range(&mtx.queue_.head_, sizeof(mtx.queue_.head_), "q.head");
    dsched::name_range(&mtx.queue_.sentinel_.self, sizeof(mtx.queue_.sentinel_.self), "q.sent.self");
    dsched::name_range(&mtx.queue_.sentinel_.rest, sizeof(mtx.queue_.sentinel_.rest), "q.sent.rest");
    dsched::name_value((std::uint64_t)(std::uintptr_t)&mtx.queue_.sentinel_, "SENT");
    dsched::name_value((std::uint64_t)(std::uintptr_t)&mtx.queue_.head_, "&q.head");
    dsched::name_value((std::uint64_t)(std::uintptr_t)&mtx.queue_.sentinel_.rest, "&q.sent.rest");
    for (int i = 0; i < nlock; ++i) {
      op_t& o = op[i].get();                       // storage address; may not be constructed yet
      auto* node = (atomic_intrusive_list_node*)(&o.nested_op());   // C cast: private bases
      auto* cb = (inplace_stop_callback_base*)(&o.stop_);
      dsched::name_range(&o.state_, sizeof(o.state_), csn[i]);
      dsched::name_range(&src[i].state_, sizeof(src[i].state_), srcn[i]);
      dsched::name_range(&cb->callbackCompleted_, sizeof(cb->callbackCompleted_), cbn[i]);
      dsched::name_range(&node->self, sizeof(node->self), nself[i]);
      dsched::name_range(&node->rest, sizeof(node->rest), nrest[i]);
      dsched::name_value((std::uint64_t)(std::uintptr_t)node, nn[i]);
      dsched::name_value((std::uint64_t)(std::uintptr_t)&node->rest, pnrest[i]);
    }
  }
  void thread_end() {
    if (++finished == total) {
      bool lk = mtx.locked_.a_.load();
      std::uintptr_t h = mtx.queue_.head_.a_.load();
      dsched::action("final locked=%d empty=%d", (int)lk,
                     (int)((h & ~std::uintptr_t(1)) == (std::uintptr_t)&mtx.queue_.sentinel_));
    }
  }
};

void lock_receiver::set_value() && noexcept { Shared* s = sh; int k = i; dsched::action("acquire %d", k); s->got[k] = 1; }
void lock_receiver::set_done() && noexcept {
  Shared* s = sh; int k = i;
  // set_done although the mutex operation did not cancel itself: the forwarder's scheduler hop
  // turned an already decided completion into done (finding 12)
  if (!s->op[k].get().nested_op().cancelled_) dsched::action("hop-cancelled %d", k);
  dsched::action("done %d", k);
  s->got[k] = 2;
}
inplace_stop_token tag_invoke(tag_t<get_stop_token>, const lock_receiver& r) noexcept { return r.sh->src[r.i].get_token(); }
}  // namespace

int main(int argc, char** argv) {
  auto cli = vh::parse_cli(argc, argv);
  int nlock = std::atoi(cli.prog.at(0).c_str());
  int ntry = cli.prog.size() > 1 ? std::atoi(cli.prog[1].c_str()) : 0;
  std::string mask = cli.prog.size() > 2 ? cli.prog[2] : std::string();
  mask.resize(nlock, '0');
  int nstop = 0;
  for (char c : mask) nstop += c == '1';
  if (nlock + ntry + nstop > 2 * MAXT || nlock > MAXT) { std::printf("FATAL too many threads\n"); return 2; }

  auto make = [&]() -> std::vector<std::function<void()>> {
    auto sh = std::make_shared<Shared>();
    sh->nlock = nlock; sh->ntry = ntry; sh->total = nlock + ntry + nstop;
    std::vector<std::function<void()>> th;
    for (int i = 0; i < nlock; ++i)
      th.push_back([sh, i] {
        static const char* stk[MAXT] = {"stk0", "stk1", "stk2", "stk3", "stk4", "stk5", "stk6", "stk7"};
        sh->names();
        if (i == 0) dsched::action("cfg hop_stoppable=%d", (int)hop_stoppable);
        char here;
        // stop_type::start's stack-local std::atomic<bool> sync_complete lives near this frame
        // (below it, or inside it when start() is inlined)
        dsched::name_range(&here - 2048, 4096, stk[i]);
        sh->op[i].construct_with([&] { return unifex::connect(sh->mtx.async_lock(), lock_receiver{sh.get(), i}); });
        unifex::start(sh->op[i].get());
        // a virtual-time deadline instead of a hard deadlock: when every thread is blocked the clock
        // jumps to the deadline and the starved locker reports itself (the monitor then fails)
        if (!dsched::block_until([&] { return sh->got[i] != 0; }, dsched::now_ns() + 1000000000))
          dsched::action("starved %d", i);
        if (sh->got[i] == 1) {
          dsched::action("release %d", i);
          sh->mtx.unlock();
        }
        sh->thread_end();
      });
    for (int j = 0; j < ntry; ++j)
      th.push_back([sh, t = nlock + j] {
        sh->names();
        if (sh->mtx.try_lock()) {
          dsched::action("acquire %d", t);
          dsched::action("release %d", t);
          sh->mtx.unlock();
        } else {
          dsched::action("tryfail %d", t);
        }
        sh->thread_end();
      });
    for (int i = 0; i < nlock; ++i)
      if (mask[i] == '1')
        th.push_back([sh, i] {
          sh->names();
          sh->src[i].request_stop();
          sh->thread_end();
        });
    return th;
  };

  // direct monitor: acquire/release alternate; every locker completes exactly once (with the mutex
  // or with done; done only if somebody can request stop and only if the operation cancelled
  // itself); try_lock answered once; nobody starves; at the end the mutex is unlocked and its
  // queue empty
  auto monitor = [&](const dsched::Result& r) -> std::string {
    int holder = -1, n = nlock + ntry;
    std::vector<int> acq(n, 0), rel(n, 0), tfail(n, 0), done(n, 0);
    bool final_seen = false;
    std::string hop, verdict;
    auto bad = [&](const std::string& m) { if (verdict.empty()) verdict = m; };
    for (auto& e : r.trace) {
      auto p = e.find('!');
      if (p == std::string::npos) continue;
      const char* a = e.c_str() + p + 1;
      if (!std::strncmp(a, "cfg ", 4)) continue;
      if (!std::strncmp(a, "hop-cancelled ", 14)) { if (hop.empty()) hop = a + 14; continue; }
      if (!std::strncmp(a, "starved ", 8)) { bad(std::string("locker ") + (a + 8) + " starved (deadlock: nobody will ever resume it)"); continue; }
      if (!std::strncmp(a, "final ", 6)) {
        final_seen = true;
        if (std::strcmp(a, "final locked=0 empty=1")) bad(std::string("at the end: ") + (a + 6));
        continue;
      }
      int k = -1; char what[32] = {0};
      if (std::sscanf(a, "%31s %d", what, &k) != 2 || k < 0 || k >= n) { bad("unparsable action " + e); continue; }
      std::string w = what;
      if (w == "acquire") {
        if (holder != -1) bad("two holders: " + std::to_string(holder) + " and " + std::to_string(k));
        holder = k; acq[k]++;
      } else if (w == "release") {
        if (holder != k) bad("release by non-holder " + std::to_string(k));
        holder = -1; rel[k]++;
      } else if (w == "tryfail") tfail[k]++;
      else if (w == "done") { done[k]++; if (k >= nlock || mask[k] != '1') bad("done without a stop request: " + std::to_string(k)); }
      else bad("unexpected completion: " + e);
    }
    for (int i = 0; i < nlock; ++i)
      if (acq[i] + done[i] != 1 || rel[i] != acq[i]) bad("locker " + std::to_string(i) + " completed " + std::to_string(acq[i]) + "+" + std::to_string(done[i]) + " times");
    for (int t = nlock; t < n; ++t) if (acq[t] + tfail[t] != 1 || rel[t] != acq[t]) bad("try_lock thread " + std::to_string(t) + " inconsistent");
    if (!final_seen) bad("no final state");
    if (!hop.empty())
      return "hop-cancelled: locker " + hop + " got set_done from the forwarder's scheduler hop although its lock operation was not cancelled" +
             (verdict.empty() ? std::string("") : "; " + verdict);
    return verdict;
  };
  return vh::drive(cli, make, monitor);
}
