// K1 driver (C14, direct monitors only): data integrity over a real pipe through the REAL
// io_epoll_context under dsched: a writer loop (async_write_some) and a reader loop
// (async_read_some) on the two ends of one pipe of capacity 4096 bytes, on one I/O thread.
//
// program:  <total> <wchunk> <rchunk>
//   total   number of bytes to transfer (byte i has the value (7 i + 3) mod 251)
//   wchunk  size of each write request (larger than the pipe capacity: short writes)
//   rchunk  size of each read buffer
// Threads: 0 = I/O thread, 1 = main (starts the first write and the first read remotely; every
// following operation is started from the completion of the previous one, on the I/O thread).
// Monitor: every operation completes exactly once with value; the byte counts add up; the bytes
// received are the bytes sent, in order; nothing is left in the pipe; descriptors are released.
#include "c14_sys.hpp"
#include <unifex/linux/io_epoll_context.hpp>
#include <unifex/../../source/linux/io_epoll_context.cpp>
#include <unifex/scheduler_concepts.hpp>
#include <unifex/sender_concepts.hpp>
#include <unifex/io_concepts.hpp>
#include <unifex/inplace_stop_token.hpp>
#include <sys/ioctl.h>
#include "vh.hpp"
using namespace unifex;
using unifex::linuxos::io_epoll_context;

namespace {
struct Shared;
struct xfer_rcv {
  Shared* sh; bool is_read;
  void set_value(ssize_t n) && noexcept;
  void set_error(std::error_code ec) && noexcept;
  void set_error(std::exception_ptr) && noexcept;
  void set_done() && noexcept;
};
using read_op_t = connect_result_t<io_epoll_context::read_sender, xfer_rcv>;
using write_op_t = connect_result_t<io_epoll_context::write_sender, xfer_rcv>;
constexpr int PIPE_SZ = 4096;

struct Shared {
  long total = 0, wchunk = 0, rchunk = 0;
  manual_lifetime<io_epoll_context> ctx;
  inplace_stop_source runStop;
  manual_lifetime<io_epoll_context::async_reader> reader;
  manual_lifetime<io_epoll_context::async_writer> writer;
  manual_lifetime<read_op_t> rop;
  manual_lifetime<write_op_t> wop;
  bool rop_live = false, wop_live = false;
  std::vector<unsigned char> src, dst, rbuf;
  long sent = 0, received = 0;
  int nw = 0, nr = 0, bad = 0;
  bool ready = false, returned = false, teardown = false;
  int fds0 = 0;
};
unsigned char pat(long i) { return (unsigned char)((7 * i + 3) % 251); }

void start_write(Shared* sh) {
  long n = std::min(sh->wchunk, sh->total - sh->sent);
  if (n <= 0) return;
  sh->wop.construct_with([&] {
    return unifex::connect(async_write_some(sh->writer.get(), span<const std::byte>((const std::byte*)sh->src.data() + sh->sent, (std::size_t)n)),
                           xfer_rcv{sh, false});
  });
  sh->wop_live = true;
  dsched::action("wstart %ld", n);
  unifex::start(sh->wop.get());
}
void start_read(Shared* sh) {
  if (sh->received >= sh->total) return;
  sh->rop.construct_with([&] {
    return unifex::connect(async_read_some(sh->reader.get(), span<std::byte>((std::byte*)sh->rbuf.data(), (std::size_t)sh->rchunk)),
                           xfer_rcv{sh, true});
  });
  sh->rop_live = true;
  dsched::action("rstart %ld", sh->rchunk);
  unifex::start(sh->rop.get());
}
void xfer_rcv::set_value(ssize_t n) && noexcept {
  Shared* s = sh;
  if (is_read) {
    dsched::action("rdone %zd", n);
    if (!s->rop_live) s->bad++;
    s->rop_live = false; s->rop.destruct(); s->nr++;
    for (ssize_t i = 0; i < n; ++i) s->dst.push_back(s->rbuf[(std::size_t)i]);
    s->received += n;
    start_read(s);
  } else {
    dsched::action("wdone %zd", n);
    if (!s->wop_live) s->bad++;
    s->wop_live = false; s->wop.destruct(); s->nw++;
    s->sent += n;
    start_write(s);
  }
}
void xfer_rcv::set_error(std::error_code ec) && noexcept { dsched::action("%s error %s", is_read ? "r" : "w", c14::ename(ec.value())); sh->bad++; }
void xfer_rcv::set_error(std::exception_ptr) && noexcept { dsched::action("%s error exception", is_read ? "r" : "w"); sh->bad++; }
void xfer_rcv::set_done() && noexcept { dsched::action("%s done", is_read ? "r" : "w"); sh->bad++; }
}  // namespace

static std::vector<std::function<void()>> make_threads(long total, long wchunk, long rchunk) {
  c14::reset();
  auto sh = std::make_shared<Shared>();
  sh->total = total; sh->wchunk = wchunk; sh->rchunk = rchunk;
  sh->src.resize((std::size_t)total); sh->rbuf.resize((std::size_t)rchunk);
  for (long i = 0; i < total; ++i) sh->src[(std::size_t)i] = pat(i);
  std::vector<std::function<void()>> th;
  th.push_back([sh] {
    sh->fds0 = c14::fd_count();
    sh->ctx.construct();
    auto& ctx = sh->ctx.get();
    c14::name_fd(ctx.remoteQueueEventFd_.get(), "evfd");
    c14::name_fd(ctx.timerFd_.get(), "timerfd");
    c14::name_ptr(nullptr, "evfd");
    sh->ready = true;
    ctx.run(sh->runStop.get_token());
    sh->returned = true;
    dsched::block_until([&] { return sh->teardown; });
    sh->ctx.destruct();
    dsched::action("fds %d %d", sh->fds0, c14::fd_count());
  });
  th.push_back([sh] {
    Shared* s = sh.get();
    dsched::block_until([&] { return s->ready; });
    int fd[2];
    if (::pipe2(fd, O_NONBLOCK | O_CLOEXEC) != 0) std::abort();
    ::fcntl(fd[1], F_SETPIPE_SZ, PIPE_SZ);
    c14::name_fd(fd[0], "pipe.r"); c14::name_fd(fd[1], "pipe.w");
    s->reader.construct(s->ctx.get(), fd[0]);
    s->writer.construct(s->ctx.get(), fd[1]);
    start_write(s);
    start_read(s);
    std::int64_t dl = dsched::now_ns() + 1000000000LL;
    if (!dsched::block_until([&] { return s->received >= s->total && s->sent >= s->total && !s->rop_live && !s->wop_live; }, dl))
      dsched::action("STUCK sent=%ld received=%ld", s->sent, s->received);
    int left = 0; ::ioctl(fd[0], FIONREAD, &left);
    bool same = s->dst.size() == s->src.size() && std::equal(s->dst.begin(), s->dst.end(), s->src.begin());
    long firstdiff = -1;
    for (std::size_t i = 0; i < std::min(s->dst.size(), s->src.size()); ++i) if (s->dst[i] != s->src[i]) { firstdiff = (long)i; break; }
    dsched::action("result sent=%ld received=%ld nw=%d nr=%d left=%d same=%d firstdiff=%ld bad=%d", s->sent, s->received, s->nw, s->nr,
                   left, (int)same, firstdiff, s->bad);
    s->runStop.request_stop();
    dsched::block_until([&] { return s->returned; });
    s->reader.destruct(); s->writer.destruct();
    s->teardown = true;
  });
  return th;
}

int main(int argc, char** argv) {
  auto cli = vh::parse_cli(argc, argv);
  long total = std::atol(cli.prog.at(0).c_str()), wchunk = std::atol(cli.prog.at(1).c_str()), rchunk = std::atol(cli.prog.at(2).c_str());
  auto make = [&] { return make_threads(total, wchunk, rchunk); };
  auto monitor = [&](const dsched::Result& r) -> std::string {
    int f0 = -1, f1 = -1; bool got = false;
    long wst = 0, wdn = 0, rst = 0, rdn = 0;
    for (auto& e : r.trace) {
      auto p = e.find('!');
      if (p == std::string::npos) continue;
      std::string a = e.substr(p + 1);
      if (a.compare(0, 7, "wstart ") == 0) { if (wst != wdn) return "OVERLAP: write started while one is outstanding"; ++wst; }
      if (a.compare(0, 6, "wdone ") == 0) { ++wdn; if (wdn > wst) return "TWICE: write completed twice"; }
      if (a.compare(0, 7, "rstart ") == 0) { if (rst != rdn) return "OVERLAP: read started while one is outstanding"; ++rst; }
      if (a.compare(0, 6, "rdone ") == 0) { ++rdn; if (rdn > rst) return "TWICE: read completed twice"; }
      if (a.compare(0, 6, "STUCK ") == 0) return "LOST: " + a;
      if (a.find(" error ") != std::string::npos || a == "r done" || a == "w done") return "WRONG-RESULT: " + a;
      if (a.compare(0, 6, "STALE ") == 0) return "STALE-REG: " + a;
      long sent, received, fd; int nw, nr, left, same, bad;
      if (std::sscanf(a.c_str(), "result sent=%ld received=%ld nw=%d nr=%d left=%d same=%d firstdiff=%ld bad=%d", &sent, &received, &nw, &nr, &left, &same, &fd, &bad) == 8) {
        got = true;
        if (sent != total || received != total) return "DATA: byte counts: " + a;
        if (!same) return "DATA: bytes differ: " + a;
        if (left != 0) return "DATA: bytes left in the pipe: " + a;
        if (bad) return "WRONG-RESULT: " + a;
      }
      if (std::sscanf(a.c_str(), "fds %d %d", &f0, &f1) == 2) {}
    }
    if (!got) return "LOST: no result";
    if (wst != wdn || rst != rdn) return "LOST: an operation never completed";
    if (f0 != f1) return "FDLEAK: " + std::to_string(f0) + " descriptors before, " + std::to_string(f1) + " after";
    return "";
  };
  return vh::drive(cli, make, monitor);
}
