// k1_scope_common.hpp — pieces shared by the three async_scope K1 drivers (k1_scope.cpp = v2,
// k1_scope_v1.cpp, k1_scope_v0.cpp): a scheduler that resumes a continuation on the virtual thread
// that owns it (so that the event's `set()` only flags the waiter and the waiter's own thread runs
// the rest of the join), the join receiver, and the direct monitor of property C08 evaluated on
// the implementation's own trace.
#pragma once
#include <unifex/scheduler_concepts.hpp>
#include <unifex/receiver_concepts.hpp>
#include <unifex/sender_concepts.hpp>
#include <unifex/blocking.hpp>
#include "vh.hpp"

namespace sc {

// ---------------------------------------------------------------------------------------------
// "resume me on my own virtual thread": schedule()'s operation, when started (by whoever calls
// evt.set(), or inline by the waiter when the event is already signalled), parks the continuation
// in the slot and marks it ready; the owning thread sits in dsched::block_until(slot.ready) and
// then runs it.  No shared atomic is touched by this hand-over.
// threads (other than the owner) that can still make progress: not finished and not parked on a
// join.  A parked joiner gives up when this reaches 0 - nobody is left who could set the event -
// and logs `joinN.stuck` instead of running the whole process into dsched's deadlock abort, so
// that the monitor can say what went wrong.
struct run_ctl { int active = 0; };
struct active_guard {
  run_ctl* c;
  explicit active_guard(run_ctl* c_) : c(c_) {}
  ~active_guard() { c->active--; }
};

struct resume_slot {
  int id = -1;
  bool ready = false;
  std::function<void()> k;
  // returns false if the join can never complete
  bool run_when_ready(run_ctl* rc = nullptr) {
    if (rc) rc->active--;
    dsched::block_until([this, rc] { return ready || (rc && rc->active == 0); });
    if (!ready) { dsched::action("join%d.stuck", id); return false; }
    if (rc) rc->active++;
    auto f = std::move(k);
    ready = false;
    f();
    return true;
  }
};

// a well-formed sender of int whose connect() throws (allocation failure inside connect, a
// throwing receiver copy, ...)
struct connect_failure : std::runtime_error { connect_failure() : std::runtime_error("connect failed") {} };
struct throwing_leaf {
  template <template <typename...> class Variant, template <typename...> class Tuple>
  using value_types = Variant<Tuple<int>>;
  template <template <typename...> class Variant>
  using error_types = Variant<std::exception_ptr>;
  static constexpr bool sends_done = true;
  static constexpr unifex::blocking_kind blocking = unifex::blocking_kind::never;
  static constexpr bool is_always_scheduler_affine = false;
  int id;
  template <typename R>
  friend vh::leaf_op<unifex::remove_cvref_t<R>> tag_invoke(unifex::tag_t<unifex::connect>, const throwing_leaf& s, R&& r) noexcept(false) {
    dsched::action("fault%d.connect throws", s.id);
    throw connect_failure{};
  }
};

// an allocator whose allocate() throws
template <typename T>
struct throwing_alloc {
  using value_type = T;
  int id = 0;
  throwing_alloc() = default;
  explicit throwing_alloc(int i) : id(i) {}
  template <typename U>
  throwing_alloc(const throwing_alloc<U>& o) noexcept : id(o.id) {}
  T* allocate(std::size_t) { dsched::action("fault%d.allocate throws", id); throw std::bad_alloc(); }
  void deallocate(T*, std::size_t) noexcept {}
  template <typename U>
  friend bool operator==(const throwing_alloc&, const throwing_alloc<U>&) noexcept { return true; }
  template <typename U>
  friend bool operator!=(const throwing_alloc&, const throwing_alloc<U>&) noexcept { return false; }
};

struct thread_sched {
  resume_slot* slot;
  template <typename R>
  struct op {
    resume_slot* slot;
    R r;
    void start() noexcept {
      slot->k = [this] { unifex::set_value(std::move(r)); };
      dsched::action("join%d.resume", slot->id);
      slot->ready = true;
    }
  };
  struct sender {
    template <template <typename...> class Variant, template <typename...> class Tuple>
    using value_types = Variant<Tuple<>>;
    template <template <typename...> class Variant>
    using error_types = Variant<>;
    static constexpr bool sends_done = false;
    static constexpr unifex::blocking_kind blocking = unifex::blocking_kind::never;
    static constexpr bool is_always_scheduler_affine = true;
    resume_slot* slot;
    template <typename R>
    op<unifex::remove_cvref_t<R>> connect(R&& r) const { return op<unifex::remove_cvref_t<R>>{slot, (R&&)r}; }
  };
  sender schedule() const noexcept { return sender{slot}; }
  friend bool operator==(thread_sched a, thread_sched b) noexcept { return a.slot == b.slot; }
  friend bool operator!=(thread_sched a, thread_sched b) noexcept { return a.slot != b.slot; }
};

// receiver of a join()/complete()/cleanup() sender
struct join_state { int completions = 0; };
struct join_receiver {
  join_state* st;
  resume_slot* slot;
  int id;
  void set_value() && noexcept { st->completions++; dsched::action("join%d.complete", id); }
  template <typename E>
  void set_error(E&&) && noexcept { st->completions++; dsched::action("join%d.error", id); }
  void set_done() && noexcept { st->completions++; dsched::action("join%d.done", id); }
  friend thread_sched tag_invoke(unifex::tag_t<unifex::get_scheduler>, const join_receiver& r) noexcept {
    return thread_sched{r.slot};
  }
};

// ---------------------------------------------------------------------------------------------
// Direct monitor (C08 on the implementation's own run).  Conventions of the three drivers:
//   scope.opState   the packed word;  evt.state  the event's state_ (value SIG = signalled)
//   !leaf<i>.start / !leaf<i>.complete   (vh::leaf)       !nest<i> done|value  (receiver of nest op)
//   !join<j>.start / !join<j>.complete                    !scope.destroy
//   !stop.returned  (request_stop()/cleanup()'s stop request has returned)
inline bool has(const std::string& e, const char* s) { return e.find(s) != std::string::npos; }

struct MonitorCfg {
  int joins_started = 0;    // number of join senders the program starts
  bool expect_stop = false; // the program requests stop: every outstanding leaf must observe it
  std::string fault_op;     // the operation the program makes throw (for the verdict text)
  // leaves whose stop request may legitimately be in flight on another thread when the scope's
  // request_stop() returns (spawn_future: dropping the future also requests stop; the attach
  // operation lets only the first of its two stop callbacks forward the request)
  std::set<std::string> stop_exempt;
};

inline std::string scope_monitor(const dsched::Result& r, const MonitorCfg& cfg) {
  long admitted = 0, released = 0;
  bool closed = false, destroyed = false;
  std::map<std::string, int> leaf_started, leaf_completed, leaf_stop, join_done;
  std::map<std::string, bool> nest_done;
  int joins = 0;
  for (auto& e : r.trace) {
    auto sp = e.find(' ');
    std::string body = e.substr(sp + 1);
    if (destroyed && (body.rfind("scope.opState ", 0) == 0 || body.rfind("evt.state ", 0) == 0))
      return "scope touched after every join completed and the scope was destroyed: " + e;
    if (body.rfind("scope.opState C.", 0) == 0 && has(body, " ok")) {
      ++admitted;
      if (closed) return "work admitted after the scope was closed: " + e;
    }
    if (body.rfind("scope.opState U.", 0) == 0) ++released;
    if (body.rfind("scope.opState N.", 0) == 0) closed = true;
    if (body[0] != '!') continue;
    std::string a = body.substr(1);
    if (a == "scope.destroy") { destroyed = true; continue; }
    auto dot = a.find('.');
    std::string who = a.substr(0, dot == std::string::npos ? a.find(' ') : dot);
    if (a.rfind("leaf", 0) == 0 && has(a, ".start")) {
      leaf_started[who]++;
      if (has(a, "stop=1")) leaf_stop[who]++;
      if (nest_done.count("nest" + who.substr(4))) return "leaf started although its nest sender completed done: " + e;
    }
    if (a.rfind("leaf", 0) == 0 && has(a, ".complete")) leaf_completed[who]++;
    if (a.rfind("leaf", 0) == 0 && has(a, ".stop_seen")) leaf_stop[who]++;
    if (a.rfind("nest", 0) == 0 && has(a, " done") && !leaf_started.count("leaf" + who.substr(4))) nest_done[who] = true;
    if (a.rfind("join", 0) == 0 && has(a, ".stuck")) {
      bool outstanding = false;
      for (auto& kv : leaf_started) if (!leaf_completed.count(kv.first)) outstanding = true;
      if (!outstanding)
        return "join did not complete although no work is outstanding [" + (cfg.fault_op.empty() ? std::string("-") : cfg.fault_op) +
               "] (count leaked: admitted=" + std::to_string(admitted) + " released=" + std::to_string(released) + "): " + e;
      return "join did not complete: " + e;
    }
    if (a.rfind("join", 0) == 0 && (has(a, ".complete") || has(a, ".error") || has(a, ".done"))) {
      if (!has(a, ".complete")) return "join completed with error/done: " + e;
      if (++join_done[who] > 1) return "join completed twice: " + e;
      ++joins;
      if (!closed) return "join completed before the scope was closed: " + e;
      if (admitted != released) return "join completed with " + std::to_string(admitted - released) + " admitted reference(s) outstanding: " + e;
      for (auto& kv : leaf_started)
        if (!leaf_completed.count(kv.first)) return "join completed before " + kv.first + " completed: " + e;
    }
  }
  if (joins != cfg.joins_started) return "joins completed=" + std::to_string(joins) + " of " + std::to_string(cfg.joins_started) + " started";
  for (auto& kv : leaf_started) {
    if (kv.second != 1) return kv.first + " started " + std::to_string(kv.second) + " times";
    if (!leaf_completed.count(kv.first)) return kv.first + " never completed";
  }
  if (cfg.expect_stop) {
    // The thread whose request_stop() set the stop bit runs the callbacks itself (and, inside them,
    // possibly whole completions: v1 attach's stop callback can win the refcount_ election and
    // complete the operation inline).  Its next step of its own program - the next close, the
    // wait on the event, or the explicit `stopN.returned` marker - marks the return of
    // request_stop() (checkpoint).  Every started leaf must observe the stop request (its callback
    // runs, or its token is already stopped when it starts; a leaf caught in the middle of its
    // start registers its callback late and runs it inline) unless it completed before the
    // checkpoint; a leaf started after the checkpoint must find its token stopped.
    std::map<std::string, int> started, completed_before_cp, seen;
    int stopper = -1; bool checked = false, stop_set = false;
    for (auto& e : r.trace) {
      int tid = std::atoi(e.c_str() + 1);
      std::string body = e.substr(e.find(' ') + 1);
      bool is_stop_word = body.rfind("stop.state ", 0) == 0;
      if (is_stop_word && !stop_set) {
        unsigned a = 0, b = 0; char ord[16];
        if (std::sscanf(body.c_str(), "stop.state C.%15s %u->%u ok", ord, &a, &b) == 3 && has(body, " ok") && !(a & 1) && (b & 1)) {
          stop_set = true; stopper = tid; continue;
        }
      }
      bool own_step = body.rfind("scope.opState N.", 0) == 0 || body.rfind("evt.state L.", 0) == 0 ||
                      body.rfind("evt.state C.", 0) == 0 || (body.rfind("!stop", 0) == 0 && has(body, ".returned"));
      if (stop_set && !checked && tid == stopper && own_step) checked = true;
      if (body.rfind("!leaf", 0) == 0) {
        std::string who = body.substr(1, body.find('.') - 1);
        if (has(body, ".start")) { started[who]++; if (has(body, "stop=1")) seen[who]++; else if (checked) return who + " started after request_stop() returned with a token that is not stopped"; }
        if (has(body, ".complete") && !checked) completed_before_cp[who]++;
        if (has(body, ".stop_seen")) seen[who]++;
      }
    }
    for (auto& kv : started)
      if (!completed_before_cp.count(kv.first) && !seen.count(kv.first) && !cfg.stop_exempt.count(kv.first))
        return kv.first + " was outstanding when request_stop() returned and never observed the stop request";
    if (!stop_set) return "the program requests stop but the stop bit was never set";
  }
  return "";
}

}  // namespace sc
