// K1 driver (C06, unit 1): the real manual_event_loop / single_thread_context.
//   program: <mode: ctx|loop> <counts: n1,n2,...> <cancels: p.j,p.j,... | ->
//   ctxw: like ctx, but thread 0 waits until every item has COMPLETED before destroying the context
//         (the sync_wait usage: a lost wake-up is then a deadlock, not merely a delay until stop()).
//   ctx : virtual thread 0 constructs a single_thread_context (its worker thread is created through
//         the shim and becomes virtual thread k+2), waits until every producer returned from its
//         last start(), then destroys the context (stop + join).
//   loop: a bare manual_event_loop; thread 0 creates the worker thread running loop.run(), calls
//         loop.stop() at once (it races with the producers) and joins the worker.
//   threads 1..k: producer p connects and starts schedule(scheduler) operations p.0, p.1, ...
//   thread k+1  : requests stop on the stop sources of the listed items, in that order.
// Every receiver carries its own inplace_stop_token and logs `!run p.j value|done ctx=<0|1>`
// (ctx=1: std::this_thread::get_id() is the context's thread).
#include <unifex/manual_event_loop.hpp>
#include <unifex/single_thread_context.hpp>
#include <unifex/scheduler_concepts.hpp>
#include <unifex/sender_concepts.hpp>
#include <unifex/inplace_stop_token.hpp>
#include "vh.hpp"
using namespace unifex;

namespace {
constexpr int MAXP = 6, MAXI = 6;

const char* intern(const std::string& s) {
  static std::set<std::string> pool;
  return pool.insert(s).first->c_str();
}

struct Shared;
struct item_receiver {
  Shared* sh; int p, j;
  void log(const char* kind) const noexcept;
  void set_value() && noexcept { log("value"); }
  void set_done() && noexcept { log("done"); }
  template <class E> void set_error(E&&) && noexcept { log("error"); }
  friend inplace_stop_token tag_invoke(tag_t<get_stop_token>, const item_receiver& r) noexcept;
};

using sched_t = decltype(std::declval<manual_event_loop&>().get_scheduler());
using op_t = connect_result_t<decltype(schedule(std::declval<sched_t&>())), item_receiver>;

struct Shared {
  bool ctxmode = true;
  bool wait_completed = false;
  int completed = 0, total = 0;
  manual_lifetime<single_thread_context> ctx;
  manual_event_loop loop;            // loop mode
  manual_lifetime<std::thread> th;   // loop mode: the worker
  bool ready = false;
  int producers_done = 0;
  inplace_stop_source src[MAXP][MAXI];
  manual_lifetime<op_t> ops[MAXP][MAXI];
  bool made[MAXP][MAXI] = {};
  std::thread::id worker_id() { return ctxmode ? ctx.get().get_thread_id() : th.get().get_id(); }
  manual_event_loop& the_loop() { return ctxmode ? ctx.get().loop_ : loop; }
  ~Shared() { for (int p = 0; p < MAXP; ++p) for (int j = 0; j < MAXI; ++j) if (made[p][j]) ops[p][j].destruct(); }
};

void item_receiver::log(const char* kind) const noexcept {
  bool on = std::this_thread::get_id() == sh->worker_id();
  dsched::action("run %d.%d %s ctx=%d", p, j, kind, (int)on);
  sh->completed++;
}
inplace_stop_token tag_invoke(tag_t<get_stop_token>, const item_receiver& r) noexcept {
  return r.sh->src[r.p][r.j].get_token();
}

std::vector<int> parse_counts(const std::string& s) {
  std::vector<int> v; std::stringstream ss(s); std::string t;
  while (std::getline(ss, t, ',')) if (!t.empty()) v.push_back(std::atoi(t.c_str()));
  return v;
}
std::vector<std::pair<int, int>> parse_items(const std::string& s) {
  std::vector<std::pair<int, int>> v; if (s == "-" || s.empty()) return v;
  std::stringstream ss(s); std::string t;
  while (std::getline(ss, t, ',')) { auto d = t.find('.'); v.emplace_back(std::atoi(t.substr(0, d).c_str()), std::atoi(t.substr(d + 1).c_str())); }
  return v;
}
}  // namespace

int main(int argc, char** argv) {
  auto cli = vh::parse_cli(argc, argv);
  const bool ctxmode = cli.prog.at(0) == "ctx" || cli.prog.at(0) == "ctxw";
  const bool waitc = cli.prog.at(0) == "ctxw";
  const std::vector<int> counts = parse_counts(cli.prog.at(1));
  const auto cancels = parse_items(cli.prog.size() > 2 ? cli.prog[2] : "-");
  const int k = (int)counts.size();
  if (k >= MAXP) { std::printf("FATAL too many producers\n"); return 2; }
  for (int c : counts) if (c > MAXI) { std::printf("FATAL too many items\n"); return 2; }
  const int worker_tid = k + 2;

  auto make = [&]() -> std::vector<std::function<void()>> {
    auto sh = std::make_shared<Shared>();
    sh->ctxmode = ctxmode;
    sh->wait_completed = waitc;
    for (int c : counts) sh->total += c;
    std::vector<std::function<void()>> th;
    // thread 0: owner of the context
    th.push_back([sh, k, counts] {
      for (int p = 1; p <= k; ++p) for (int j = 0; j < counts[p - 1]; ++j)
        dsched::name_range(&sh->src[p][j].state_, 1, intern("st" + std::to_string(p) + "." + std::to_string(j)));
      if (sh->ctxmode) {
        auto* c = &sh->ctx.get();   // address only; named before construction so that the spawn is named
        dsched::name_range(&c->loop_.mutex_, sizeof(c->loop_.mutex_), "loop.mutex");
        dsched::name_range(&c->loop_.cv_, sizeof(c->loop_.cv_), "loop.cv");
        dsched::name_range(&c->thread_, sizeof(c->thread_), "ctx.thread");
        sh->ctx.construct();
        sh->ready = true;
        dsched::block_until([&] { return sh->producers_done == k && (!sh->wait_completed || sh->completed == sh->total); });
        sh->ctx.destruct();
        dsched::action("ctx destroyed");
      } else {
        dsched::name_range(&sh->loop.mutex_, sizeof(sh->loop.mutex_), "loop.mutex");
        dsched::name_range(&sh->loop.cv_, sizeof(sh->loop.cv_), "loop.cv");
        dsched::name_range(&sh->th.get(), sizeof(std::thread), "ctx.thread");
        sh->th.construct([sh] { sh->loop.run(); dsched::action("worker returned"); });
        sh->ready = true;
        sh->loop.stop();
        sh->th.get().join();
        sh->th.destruct();
        dsched::action("ctx destroyed");
      }
    });
    for (int p = 1; p <= k; ++p)
      th.push_back([sh, p, n = counts[p - 1]] {
        // loop mode: the loop object exists from the beginning, enqueueing may precede run()
        if (sh->ctxmode) dsched::block_until([&] { return sh->ready; });
        auto sched = sh->the_loop().get_scheduler();
        for (int j = 0; j < n; ++j) {
          sh->ops[p][j].construct_with([&] { return unifex::connect(schedule(sched), item_receiver{sh.get(), p, j}); });
          sh->made[p][j] = true;
          unifex::start(sh->ops[p][j].get());
        }
        sh->producers_done++;
      });
    th.push_back([sh, cancels] {
      for (auto& c : cancels) sh->src[c.first][c.second].request_stop();
    });
    return th;
  };

  // direct monitor: C06 evaluated on the implementation's own run
  auto monitor = [&](const dsched::Result& r) -> std::string {
    std::vector<std::string> enq, ran;           // item names in linearisation / execution order
    std::map<std::string, bool> stopped, obs;   // stop bit now / as read by the worker's last load
    std::vector<int> nextj(k + 1, 0);
    std::map<std::string, bool> enq_after_stop;
    bool stop_locked = false, destroyed = false, joined = false;
    std::string err;
    int main_ml = 0;
    for (auto& e : r.trace) {
      int t = std::atoi(e.c_str() + 1);
      auto sp = e.find(' ');
      std::string rest = e.substr(sp + 1);
      if (rest.rfind("loop.mutex ML", 0) == 0) {
        if (t >= 1 && t <= k) {
          std::string it = std::to_string(t) + "." + std::to_string(nextj[t]++);
          enq.push_back(it); enq_after_stop[it] = stop_locked;
        } else if (t == 0) { stop_locked = true; ++main_ml; }
      } else if (rest.rfind("st", 0) == 0) {
        auto sp2 = rest.find(' ');
        std::string it = rest.substr(2, sp2 - 2), op = rest.substr(sp2 + 1);
        if (op[0] == 'C' && op.find(" ok") != std::string::npos) {
          auto a = op.find("->"); int nv = std::atoi(op.c_str() + a + 2);
          if (nv & 1) stopped[it] = true;
        } else if (op[0] == 'L') {
          auto b = op.find(' '); obs[it] = std::atoi(op.c_str() + b + 1) & 1;
          if (obs[it] != stopped[it]) err += "stop bit read inconsistent for " + it + "; ";
        }
      } else if (rest.rfind("!run ", 0) == 0) {
        char it[32], kind[16]; int c = 0;
        std::sscanf(rest.c_str(), "!run %31s %15s ctx=%d", it, kind, &c);
        if (destroyed) err += std::string("item ") + it + " ran after the context was destroyed; ";
        if (c != 1 || t != worker_tid) err += std::string("item ") + it + " completed off the context thread (t" + std::to_string(t) + "); ";
        if (std::find(ran.begin(), ran.end(), it) != ran.end()) err += std::string("item ") + it + " completed twice; ";
        ran.push_back(it);
        bool want_done = obs.count(it) ? obs[it] : false;
        if (!obs.count(it)) err += std::string("item ") + it + " completed without reading its stop token; ";
        if (want_done != (std::string(kind) == "done")) err += std::string("item ") + it + " completed with " + kind + " but stop_requested=" + (want_done ? "1" : "0") + "; ";
      } else if (rest.rfind("ctx.thread J", 0) == 0) {
        joined = true;
      } else if (rest == "!ctx destroyed") {
        destroyed = true;
      }
    }
    // FIFO: execution order is a prefix of the enqueue order
    for (size_t i = 0; i < ran.size(); ++i)
      if (i >= enq.size() || enq[i] != ran[i]) { err += "execution order is not the enqueue order at position " + std::to_string(i) + "; "; break; }
    if (!joined) err += "destructor returned without joining the thread; ";
    // nothing accepted before stop() is left behind
    for (size_t i = ran.size(); i < enq.size(); ++i)
      if (!enq_after_stop[enq[i]]) err += "item " + enq[i] + " was enqueued before stop() and never ran; ";
    if (ctxmode) {
      int total = 0; for (int c : counts) total += c;
      if ((int)ran.size() != total) err += "ran " + std::to_string(ran.size()) + " of " + std::to_string(total) + " items; ";
    }
    return err;
  };
  return vh::drive(cli, make, monitor);
}
