// k2s.hpp — harness for the K2-stream program differential (C13): generated translation units build
// stream pipelines with the real unifex API over the scripted source stream / callables defined here,
// run an event script against them and print the observable trace in the format of the SCalc model
// (ocaml handler "scalc", coq/Calc/StreamDefs.v).
#pragma once
#include <unifex/receiver_concepts.hpp>
#include <unifex/sender_concepts.hpp>
#include <unifex/stream_concepts.hpp>
#include <unifex/get_stop_token.hpp>
#include <unifex/inplace_stop_token.hpp>
#include <unifex/manual_lifetime.hpp>
#include <unifex/blocking.hpp>
#include <unifex/just.hpp>
#include <unifex/range_stream.hpp>
#include <unifex/single.hpp>
#include <unifex/never.hpp>
#include <unifex/transform_stream.hpp>
#include <unifex/filter_stream.hpp>
#include <unifex/reduce_stream.hpp>
#include <unifex/for_each.hpp>
#include <unifex/take_until.hpp>
#include <unifex/stop_immediately.hpp>
#include <unifex/type_erased_stream.hpp>
#include <unifex/inline_scheduler.hpp>
#include <unifex/scheduler_concepts.hpp>
#include <unifex/adapt_stream.hpp>
#include <unifex/next_adapt_stream.hpp>
#include <unifex/cleanup_adapt_stream.hpp>
#include <unifex/via_stream.hpp>
#include <unifex/typed_via_stream.hpp>
#include <unifex/on_stream.hpp>
#include <unifex/delay.hpp>
#include <unifex/then.hpp>
#include <unifex/via.hpp>
#include <unifex/typed_via.hpp>
#include <unifex/on.hpp>
#include <unifex/finally.hpp>
#include <chrono>

#include <malloc.h>
#include <cstdio>
#include <cstring>
#include <exception>
#include <iostream>
#include <sstream>
#include <string>
#include <vector>

namespace k2s {

inline std::vector<std::string> LOG;
inline bool QUIET = false;   // set while the root operation is torn down after the run
inline void log(const std::string& s) { if (!QUIET) LOG.push_back(s); }

struct err { int code; };
inline int code_of(std::exception_ptr ep) {
  try { std::rethrow_exception(ep); } catch (const err& e) { return e.code; } catch (...) { return -777; }
}

// ---- root stop token: wraps inplace_stop_token; when ARMED the next callback registration requests
// stop first, so that the callback runs inside its own registration although stop_requested() was
// false a moment ago (the sequential image of "stop arrives between the check and the registration")
inline unifex::inplace_stop_source* EXT = nullptr;
inline bool ARMED = false;
inline void fire_if_armed() {
  if (ARMED && EXT && !EXT->stop_requested()) { ARMED = false; log("fire"); EXT->request_stop(); }
}
struct token {
  unifex::inplace_stop_token tok;
  template <typename F>
  struct callback_type {
    unifex::inplace_stop_callback<F> inner;
    template <typename F2>
    explicit callback_type(token t, F2&& f) : inner((fire_if_armed(), t.tok), (F2&&)f) {}
  };
  bool stop_requested() const noexcept { return tok.stop_requested(); }
  bool stop_possible() const noexcept { return true; }
};

// ---- element type -------------------------------------------------------------------------------------
// K2S_ELEM_MV: the streams carry a class whose move leaves the source recognisably empty, and every user callable
// takes its arguments by value: an adaptor that hands an element on after moving from it (or twice) is seen at once
inline void viol(const std::string& s);
#ifdef K2S_ELEM_MV
struct mv {
  int v; bool moved = false;
  mv(int x) noexcept : v(x) {}
  mv(const mv& o) noexcept : v(o.get()) {}
  mv(mv&& o) noexcept : v(o.get()) { o.v = -7777; o.moved = true; }
  mv& operator=(const mv& o) noexcept { v = o.get(); moved = false; return *this; }
  mv& operator=(mv&& o) noexcept { v = o.get(); moved = false; o.v = -7777; o.moved = true; return *this; }
  int get() const noexcept { if (moved) viol("a moved-from element was read"); return v; }
};
using elem_t = mv;
inline int val(const mv& x) noexcept { return x.get(); }
#else
using elem_t = int;
inline int val(int x) noexcept { return x; }
#endif
struct to_elem { elem_t operator()(int x) const noexcept { return elem_t(x); } };   // range_stream yields int

// ---- user callables -----------------------------------------------------------------------------------
struct fnobj {     // transform function: 'a' add a, 'm' mul a, 'i' throw b if arg == a
  char kind; int a; int b;
  std::string name() const {
    char buf[64];
    switch (kind) {
      case 'a': std::snprintf(buf, sizeof buf, "add(%d)", a); break;
      case 'm': std::snprintf(buf, sizeof buf, "mul(%d)", a); break;
      default: std::snprintf(buf, sizeof buf, "throwif(%d,%d)", a, b); break;
    }
    return buf;
  }
  int apply(int x) const {
    switch (kind) {
      case 'a': return x + a;
      case 'm': return x * a;
      default: if (x == a) throw err{b}; return x;
    }
  }
  elem_t operator()(elem_t e) const { int x = val(e); log("call " + name() + " " + std::to_string(x)); return elem_t(apply(x)); }
};
struct predobj {   // filter predicate: 'l' x < a, 'n' x != a, 'e' even, 'i' throw b if x == a else true
  char kind; int a; int b;
  bool operator()(elem_t e) const {
    const int x = val(e);
    char buf[96];
    switch (kind) {
      case 'l': std::snprintf(buf, sizeof buf, "pred lt(%d) %d", a, x); break;
      case 'n': std::snprintf(buf, sizeof buf, "pred ne(%d) %d", a, x); break;
      case 'e': std::snprintf(buf, sizeof buf, "pred even() %d", x); break;
      default: std::snprintf(buf, sizeof buf, "pred pthrowif(%d,%d) %d", a, b, x); break;
    }
    log(buf);
    switch (kind) {
      case 'l': return x < a;
      case 'n': return x != a;
      case 'e': return x % 2 == 0;
      default: if (x == a) throw err{b}; return true;
    }
  }
};
struct redobj {    // reducer: 's' acc + x, 'h' (acc*31 + x) mod 1000003, 'i' throw b if x == a else acc + x
  char kind; int a; int b;
  int operator()(int acc, elem_t e) const {
    const int x = val(e);
    log("feed " + std::to_string(acc) + " " + std::to_string(x));
    switch (kind) {
      case 's': return acc + x;
      case 'h': return (int)(((long long)acc * 31 + x) % 1000003);
      default: if (x == a) throw err{b}; return acc + x;
    }
  }
};
struct eachobj {   // for_each function
  fnobj f;
  void operator()(elem_t e) const { int x = val(e); log("feed 0 " + std::to_string(x)); (void)f.apply(x); }
};

// ---- tracked operation states -----------------------------------------------------------------------
// counts per (kind, id): constructions, destructions; anything irregular is logged as "VIOL ..."
inline int OPS_CTOR[2][16], OPS_DTOR[2][16];
inline int VIOLS = 0;
inline void viol(const std::string& s) { ++VIOLS; LOG.push_back("VIOL " + s); }
struct tracked {
  static constexpr unsigned LIVE = 0x600DC0DEu, DEAD = 0xDEADDEADu;
  volatile unsigned magic; int kind; int id; int* volatile heap;
  tracked(int kind_, int id_) : magic(LIVE), kind(kind_), id(id_), heap(new int(id_)) { ++OPS_CTOR[kind][id]; }
  tracked(tracked&&) = delete;
  ~tracked() {
    ++OPS_DTOR[kind][id];
    if (magic != LIVE) viol(std::string("destroying an op-state that is not alive ") + (kind ? "C" : "N") + std::to_string(id));
    else { delete heap; heap = nullptr; magic = DEAD; }
  }
  bool alive(const char* what) const {
    if (magic == LIVE) return true;
    viol(std::string(what) + " on a destroyed op-state " + (kind ? "C" : "N") + std::to_string(id));
    return false;
  }
};

// ---- scripted source stream -----------------------------------------------------------------------------
struct ctl { void* op = nullptr; void (*complete_fn)(void*, char, int) = nullptr; bool outstanding = false; };
inline ctl NCTL[16], CCTL[16];

struct src;
template <typename Receiver>
struct src_next_op : tracked {
  struct cb { src_next_op* self; void operator()() noexcept { self->on_stop(); } };
  using token_t = unifex::stop_token_type_t<Receiver&>;
  using cb_t = typename token_t::template callback_type<cb>;
  src* strm; bool reactive; int k = -1;
  Receiver r;
  unifex::manual_lifetime<cb_t> stopcb;
  bool cb_live = false, constructing = false, pending_inline = false, outstanding = false;

  template <typename R2>
  src_next_op(src* s, int id_, bool reactive_, R2&& r2) : tracked(0, id_), strm(s), reactive(reactive_), r((R2&&)r2) {}
  ~src_next_op() {
    if (outstanding) viol("next op-state destroyed while outstanding N" + std::to_string(id));
    log("opdel N " + std::to_string(id));
  }
  void start() noexcept;
  void on_stop() noexcept {
    log("nstop " + std::to_string(id) + " " + std::to_string(k));
    if (constructing) { pending_inline = true; return; }
    if (reactive) do_complete(this, 'd', 0);
  }
  static void do_complete(void* p, char kind, int v) {
    auto* self = static_cast<src_next_op*>(p);
    self->alive("completing next");
    NCTL[self->id].outstanding = false; self->outstanding = false;
    if (self->cb_live) { self->cb_live = false; self->stopcb.destruct(); }
    std::string pre = "ndone " + std::to_string(self->id) + " " + std::to_string(self->k) + " ";
    if (kind == 'v') { log(pre + "value " + std::to_string(v)); unifex::set_value(std::move(self->r), elem_t((int)v)); }
    else if (kind == 'e') { log(pre + "error " + std::to_string(v)); unifex::set_error(std::move(self->r), std::make_exception_ptr(err{v})); }
    else { log(pre + "done"); unifex::set_done(std::move(self->r)); }
  }
};

template <typename Receiver>
struct src_cleanup_op : tracked {
  Receiver r;
  template <typename R2>
  src_cleanup_op(int id_, R2&& r2) : tracked(1, id_), r((R2&&)r2) {}
  ~src_cleanup_op() { log("opdel C " + std::to_string(id)); }
  void start() noexcept {
    alive("starting cleanup");
    // C13: cleanup must run to the end whatever the consumer's stop state: a cleanup that can see the stop request
    // (on_stream's schedule(), any stop-reactive cleanup sender) would complete with done without having cleaned up
    if (unifex::get_stop_token(r).stop_requested())
      viol("cleanup of source " + std::to_string(id) + " started with the consumer's stop request visible to it");
    auto& c = CCTL[id];
    c.op = this; c.complete_fn = &do_complete; c.outstanding = true;
    log("cstart " + std::to_string(id));
  }
  static void do_complete(void* p, char kind, int v) {
    auto* self = static_cast<src_cleanup_op*>(p);
    self->alive("completing cleanup");
    CCTL[self->id].outstanding = false;
    if (kind == 'e') { log("cdone " + std::to_string(self->id) + " error " + std::to_string(v)); unifex::set_error(std::move(self->r), std::make_exception_ptr(err{v})); }
    else { log("cdone " + std::to_string(self->id) + " done"); unifex::set_done(std::move(self->r)); }
  }
};

struct src_next_sender {
  template <template <typename...> class Variant, template <typename...> class Tuple>
  using value_types = Variant<Tuple<elem_t>>;
  template <template <typename...> class Variant>
  using error_types = Variant<std::exception_ptr>;
  static constexpr bool sends_done = true;
  static constexpr unifex::blocking_kind blocking = unifex::blocking_kind::maybe;
  static constexpr bool is_always_scheduler_affine = false;
  src* strm; int id; bool reactive;
  template <typename R>
  friend src_next_op<unifex::remove_cvref_t<R>> tag_invoke(unifex::tag_t<unifex::connect>, const src_next_sender& s, R&& r) {
    return src_next_op<unifex::remove_cvref_t<R>>{s.strm, s.id, s.reactive, (R&&)r};
  }
};
struct src_cleanup_sender {
  template <template <typename...> class Variant, template <typename...> class Tuple>
  using value_types = Variant<>;
  template <template <typename...> class Variant>
  using error_types = Variant<std::exception_ptr>;
  static constexpr bool sends_done = true;
  static constexpr unifex::blocking_kind blocking = unifex::blocking_kind::maybe;
  static constexpr bool is_always_scheduler_affine = false;
  int id;
  template <typename R>
  friend src_cleanup_op<unifex::remove_cvref_t<R>> tag_invoke(unifex::tag_t<unifex::connect>, const src_cleanup_sender& s, R&& r) {
    return src_cleanup_op<unifex::remove_cvref_t<R>>{s.id, (R&&)r};
  }
};
struct src {
  int id; bool reactive; int count = 0;
  src(int id_, bool reactive_) : id(id_), reactive(reactive_) {}
  friend src_next_sender tag_invoke(unifex::tag_t<unifex::next>, src& s) noexcept { return {&s, s.id, s.reactive}; }
  friend src_cleanup_sender tag_invoke(unifex::tag_t<unifex::cleanup>, src& s) noexcept { return {s.id}; }
};

template <typename Receiver>
void src_next_op<Receiver>::start() noexcept {
  alive("starting next");
  k = strm->count++;
  auto& c = NCTL[id];
  c.op = this; c.complete_fn = &do_complete; c.outstanding = true; outstanding = true;
  auto tok = unifex::get_stop_token(r);
  log("nstart " + std::to_string(id) + " " + std::to_string(k) + " stopped=" + std::to_string((int)tok.stop_requested()));
  constructing = true; cb_live = true;
  stopcb.construct(tok, cb{this});   // may run the callback inside the registration
  constructing = false;
  if (pending_inline) { pending_inline = false; if (reactive) do_complete(this, 'd', 0); }
}

// ---- harness scheduler (SCalc: the scheduler ids of the sender adaptors AVia / ATypedVia / AOn / ADelay) -------------
// An inline, stop-insensitive execution context: schedule() / schedule_after(d) log `hop <sid> <d>` and complete
// with a value from inside start(), whatever the receiver's stop token says.  HOP_CTX is the context the code
// currently runs on (0 = none); a hop's continuation runs with HOP_CTX == sid.
inline int HOP_CTX = 0;
struct hsched {
  int sid;
  template <typename Receiver>
  struct op {
    int sid; int d; Receiver r;
    void start() noexcept {
      log("hop " + std::to_string(sid) + " " + std::to_string(d));
      const int saved = HOP_CTX; HOP_CTX = sid;
      unifex::set_value(std::move(r));
      HOP_CTX = saved;
    }
  };
  struct sender {
    template <template <typename...> class Variant, template <typename...> class Tuple>
    using value_types = Variant<Tuple<>>;
    template <template <typename...> class Variant>
    using error_types = Variant<>;
    static constexpr bool sends_done = false;
    static constexpr unifex::blocking_kind blocking = unifex::blocking_kind::always_inline;
    static constexpr bool is_always_scheduler_affine = false;
    int sid; int d;
    template <typename R>
    friend op<unifex::remove_cvref_t<R>> tag_invoke(unifex::tag_t<unifex::connect>, const sender& s, R&& r) {
      return op<unifex::remove_cvref_t<R>>{s.sid, s.d, (R&&)r};
    }
  };
  using time_point = std::chrono::steady_clock::time_point;
  friend sender tag_invoke(unifex::tag_t<unifex::schedule>, const hsched& s) noexcept { return {s.sid, 0}; }
  template <typename Rep, typename Period>
  friend sender tag_invoke(unifex::tag_t<unifex::schedule_after>, const hsched& s, std::chrono::duration<Rep, Period> d) noexcept {
    return {s.sid, (int)std::chrono::duration_cast<std::chrono::milliseconds>(d).count()};
  }
  friend time_point tag_invoke(unifex::tag_t<unifex::now>, const hsched&) noexcept { return time_point{}; }
  friend bool operator==(const hsched& a, const hsched& b) noexcept { return a.sid == b.sid; }
  friend bool operator!=(const hsched& a, const hsched& b) noexcept { return a.sid != b.sid; }
};

// ---- the sender adaptors handed to adapt_stream / next_adapt_stream / cleanup_adapt_stream (SCalc.sadapt) ----
struct ad_id { template <typename S> unifex::remove_cvref_t<S> operator()(S&& s) const { return (S&&)s; } };
struct ad_then { fnobj f; template <typename S> auto operator()(S&& s) const { return unifex::then((S&&)s, f); } };
struct ad_via { hsched sch; template <typename S> auto operator()(S&& s) const { return unifex::via((S&&)s, sch); } };
#pragma GCC diagnostic push
#pragma GCC diagnostic ignored "-Wdeprecated-declarations"
struct ad_tvia { hsched sch; template <typename S> auto operator()(S&& s) const { return unifex::typed_via((S&&)s, sch); } };
template <typename Stream>
auto tvia_stream(hsched sch, Stream&& s) { return unifex::typed_via_stream(sch, (Stream&&)s); }
#pragma GCC diagnostic pop
struct ad_on { hsched sch; template <typename S> auto operator()(S&& s) const { return unifex::on(sch, (S&&)s); } };
struct ad_delay {
  hsched sch; int d;
  template <typename S> auto operator()(S&& s) const {
    return unifex::finally((S&&)s, unifex::schedule_after(sch, std::chrono::milliseconds(d)));
  }
};

// ---- root receiver --------------------------------------------------------------------------------------
inline int roots = 0;
struct root_receiver {
  token tok;
  void set_value(int v) && noexcept { ++roots; log("root value " + std::to_string(v)); }
  void set_value() && noexcept { ++roots; log("root value 0"); }
  void set_error(std::exception_ptr e) && noexcept { ++roots; log("root error " + std::to_string(code_of(e))); }
  template <typename E> void set_error(E&&) && noexcept { ++roots; log("root error -778"); }
  void set_done() && noexcept { ++roots; log("root done"); }
  friend token tag_invoke(unifex::tag_t<unifex::get_stop_token>, const root_receiver& r) noexcept { return r.tok; }
  friend unifex::inline_scheduler tag_invoke(unifex::tag_t<unifex::get_scheduler>, const root_receiver&) noexcept { return {}; }
};

// ---- running one case ----------------------------------------------------------------------------------
struct script_ev { char what; int id; char kind; int val; };   // what: 'N' next completion, 'C' cleanup completion, 'S' stop, 'A' arm
inline std::vector<script_ev> parse_script(std::istream& is) {
  std::vector<script_ev> s; std::string tok;
  while (is >> tok) {
    if (tok == "S") { s.push_back({'S', 0, 0, 0}); continue; }
    if (tok == "A") { s.push_back({'A', 0, 0, 0}); continue; }
    auto colon = tok.find(':');
    int id = std::stoi(tok.substr(1, colon - 1));
    char k = tok[colon + 1];
    int v = tok.size() > colon + 2 ? std::stoi(tok.substr(colon + 2)) : 0;
    s.push_back({tok[0], id, k, v});
  }
  return s;
}

template <typename MakeSender>
std::string run_case(MakeSender mk, int prestop, const std::vector<script_ev>& script) {
  LOG.clear(); roots = 0; QUIET = false; VIOLS = 0; HOP_CTX = 0;
  std::memset(OPS_CTOR, 0, sizeof OPS_CTOR); std::memset(OPS_DTOR, 0, sizeof OPS_DTOR);
  for (auto& c : NCTL) c = ctl{};
  for (auto& c : CCTL) c = ctl{};
  mallopt(M_PERTURB, 0x54);   // fresh heap blocks are filled with 0xAB (type_erase's stream object)
  unifex::inplace_stop_source ext;
  EXT = &ext; ARMED = (prestop == 2);
  if (prestop == 1) ext.request_stop();
  using op_t = unifex::connect_result_t<decltype(mk()), root_receiver>;
  // operation state in poisoned storage: uninitialised reads do not see zeroes
  alignas(alignof(op_t) > 64 ? alignof(op_t) : 64) static unsigned char storage[sizeof(op_t) + 64];
  std::memset(storage, 0xAB, sizeof storage);
  op_t* op = ::new (static_cast<void*>(storage)) op_t(unifex::connect(mk(), root_receiver{token{ext.get_token()}}));
  unifex::start(*op);
  for (auto& ev : script) {
    if (ev.what == 'S') {
      if (ext.stop_requested()) log("skip"); else { ARMED = false; ext.request_stop(); }
    } else if (ev.what == 'A') {
      if (ext.stop_requested() || ARMED) log("skip"); else ARMED = true;
    } else {
      auto& c = (ev.what == 'C' ? CCTL : NCTL)[ev.id];
      if (c.outstanding) c.complete_fn(c.op, ev.kind, ev.val);
      else log("skip");
    }
  }
  QUIET = true;
  if (roots > 0) op->~op_t();
  EXT = nullptr; ARMED = false;
  std::string out;
  for (auto& l : LOG) { if (!out.empty()) out += ";"; out += l; }
  out += " # roots=" + std::to_string(roots) + " ops=";
  bool first = true;
  for (int kind = 0; kind < 2; ++kind)
    for (int id = 0; id < 16; ++id)
      if (OPS_CTOR[kind][id] || OPS_DTOR[kind][id]) {
        if (!first) out += ","; first = false;
        out += std::string(kind ? "C" : "N") + std::to_string(id) + ":" + std::to_string(OPS_CTOR[kind][id]) + "/" + std::to_string(OPS_DTOR[kind][id]);
      }
  out += " viol=" + std::to_string(VIOLS);
  return out;
}

using case_fn = std::string (*)(int, const std::vector<script_ev>&);

inline int main_loop(case_fn* cases, int ncases) {
  std::string line;
  while (std::getline(std::cin, line)) {
    std::istringstream is(line);
    int idx, prestop; std::string bar;
    is >> idx >> prestop >> bar;
    auto script = parse_script(is);
    if (idx < 0 || idx >= ncases) { std::cout << "ERR index\n"; continue; }
    std::cout << cases[idx](prestop, script) << "\n";
    std::cout.flush();
  }
  return 0;
}

}  // namespace k2s
