// K1 driver: the real v1::async_mutex (include/unifex/v1/async_mutex.hpp, source/async_mutex_v1.cpp,
// detail/atomic_intrusive_queue.hpp) under contention.
// program: <nlock> <ntry> <handoff|inline>
//   virtual threads 0..nlock-1     : connect(async_lock(), receiver_i), start; the receiver logs
//                                    "!acquire i"; then "!release i" and unlock()
//        handoff: the receiver only sets a flag, the locker's own thread runs the critical
//                 section and unlock()  (continuation scheduled elsewhere)
//        inline : the receiver itself runs the critical section and unlock() on whatever thread
//                 resumed it (what a coroutine does: unlock() re-entered from inside unlock())
//   virtual threads nlock..nlock+ntry-1 : try_lock(); on success "!acquire t", "!release t", unlock();
//                                    on failure "!tryfail t"
// Named locations: aq = atomicQueue_.head_ (values: 0 = locked/no new waiters, INACT = unlocked,
// w<i> = address of locker i's waiter_base).
#include <unifex/v1/async_mutex.hpp>
#include "vh.hpp"
using namespace unifex;

namespace {
constexpr int MAXT = 8;

struct Shared;
struct lock_receiver {
  Shared* sh;
  int i;
  void set_value() && noexcept;
  template <typename E> void set_error(E&&) && noexcept { dsched::action("error %d", i); }
  void set_done() && noexcept { dsched::action("done %d", i); }
};

struct Shared {
  v1::async_mutex mtx;
  using op_t = connect_result_t<decltype(std::declval<v1::async_mutex&>().async_lock()), lock_receiver>;
  manual_lifetime<op_t> op[MAXT];
  bool got[MAXT] = {};
  bool inline_mode = false;
  int nlock = 0, ntry = 0;
  void names() {
    static const char* wn[MAXT] = {"w0", "w1", "w2", "w3", "w4", "w5", "w6", "w7"};
    dsched::name_range(&mtx.atomicQueue_.head_, sizeof(mtx.atomicQueue_.head_), "aq");
    dsched::name_value((std::uint64_t)(std::uintptr_t)&mtx.atomicQueue_.head_, "INACT");
    for (int i = 0; i < nlock; ++i) {
      auto* wb = (v1::async_mutex::waiter_base*)(&op[i].get());  // C cast: private base
      dsched::name_value((std::uint64_t)(std::uintptr_t)wb, wn[i]);
    }
  }
  void critical_section_and_unlock(int i) {
    dsched::action("release %d", i);
    mtx.unlock();
  }
};

void lock_receiver::set_value() && noexcept {
  Shared* s = sh; int k = i;
  dsched::action("acquire %d", k);
  if (s->inline_mode) s->critical_section_and_unlock(k);
  else s->got[k] = true;
}
}  // namespace

int main(int argc, char** argv) {
  auto cli = vh::parse_cli(argc, argv);
  int nlock = std::atoi(cli.prog.at(0).c_str());
  int ntry = cli.prog.size() > 1 ? std::atoi(cli.prog[1].c_str()) : 0;
  bool inl = cli.prog.size() > 2 && cli.prog[2] == "inline";
  if (nlock + ntry > MAXT) { std::printf("FATAL too many threads\n"); return 2; }

  auto make = [&]() -> std::vector<std::function<void()>> {
    auto sh = std::make_shared<Shared>();
    sh->nlock = nlock; sh->ntry = ntry; sh->inline_mode = inl;
    std::vector<std::function<void()>> th;
    for (int i = 0; i < nlock; ++i)
      th.push_back([sh, i] {
        sh->names();
        sh->op[i].construct_with([&] { return unifex::connect(sh->mtx.async_lock(), lock_receiver{sh.get(), i}); });
        unifex::start(sh->op[i].get());
        if (!sh->inline_mode) {
          dsched::block_until([&] { return sh->got[i]; });
          sh->critical_section_and_unlock(i);
        }
      });
    for (int j = 0; j < ntry; ++j)
      th.push_back([sh, t = nlock + j] {
        sh->names();
        if (sh->mtx.try_lock()) {
          dsched::action("acquire %d", t);
          sh->critical_section_and_unlock(t);
        } else {
          dsched::action("tryfail %d", t);
        }
      });
    return th;
  };

  // direct monitor: acquire/release alternate (never two holders), every locker served exactly
  // once, every try_lock answered exactly once, the mutex is unlocked and empty at the end
  auto monitor = [&](const dsched::Result& r) -> std::string {
    int holder = -1;
    std::vector<int> acq(nlock + ntry, 0), rel(nlock + ntry, 0), fail(nlock + ntry, 0);
    for (auto& e : r.trace) {
      auto p = e.find('!');
      if (p == std::string::npos) continue;
      int k = -1; char what[32] = {0};
      if (std::sscanf(e.c_str() + p + 1, "%31s %d", what, &k) != 2 || k < 0 || k >= nlock + ntry) return "unparsable action " + e;
      std::string w = what;
      if (w == "acquire") {
        if (holder != -1) return "two holders: " + std::to_string(holder) + " and " + std::to_string(k);
        holder = k; acq[k]++;
      } else if (w == "release") {
        if (holder != k) return "release by non-holder " + std::to_string(k);
        holder = -1; rel[k]++;
      } else if (w == "tryfail") fail[k]++;
      else return "unexpected completion: " + e;
    }
    for (int i = 0; i < nlock; ++i) if (acq[i] != 1 || rel[i] != 1) return "locker " + std::to_string(i) + " served " + std::to_string(acq[i]) + " times";
    for (int t = nlock; t < nlock + ntry; ++t) if (acq[t] + fail[t] != 1 || rel[t] != acq[t]) return "try_lock thread " + std::to_string(t) + " inconsistent";
    return "";
  };
  return vh::drive(cli, make, monitor);
}
