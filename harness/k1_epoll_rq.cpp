// K1 driver (C14, model RemoteQueue): the REAL io_epoll_context remote-scheduling / wake-up protocol
// under dsched: remote producers schedule() onto the context while the I/O thread runs
// run(stop_token): remoteQueue_ (atomic_intrusive_queue) + remoteQueueEventFd_ + epoll_wait.
//
// program:  <nprod> <items> <stop>
//   nprod  number of producer threads, each of which starts <items> schedule() operations
//   stop   when the stopper calls request_stop() on run()'s stop source:
//            any  at any time after the context exists        end  after every producer finished
//            pre  before run() is entered (by the I/O thread itself: the stop callback runs inline)
// Threads: 0 = I/O thread (constructs the context, run(), destroys it), 1..nprod = producers,
// nprod+1 = stopper (absent for 'pre').
//
// The context's .cpp is compiled into THIS translation unit with the syscall wrappers of
// c14_sys.hpp (epoll_wait = yield-and-poll, every syscall logged); the archive's copy of
// io_epoll_context.o is therefore never linked.
#include "c14_sys.hpp"
#include <unifex/linux/io_epoll_context.hpp>
#include <unifex/../../source/linux/io_epoll_context.cpp>
#include <unifex/scheduler_concepts.hpp>
#include <unifex/sender_concepts.hpp>
#include <unifex/inplace_stop_token.hpp>
#include "vh.hpp"
using namespace unifex;
using unifex::linuxos::io_epoll_context;

namespace {
constexpr int MAXP = 4, MAXI = 4;
struct Shared;
struct rq_rcv {
  Shared* sh; int p, j;
  void set_value() && noexcept;
  void set_done() && noexcept {}
  template <typename E> void set_error(E&&) && noexcept {}
};
using sched_t = decltype(std::declval<io_epoll_context&>().get_scheduler());
using op_t = connect_result_t<decltype(unifex::schedule(std::declval<sched_t>())), rq_rcv>;

const char* item_names[MAXP][MAXI] = {{"p1.0", "p1.1", "p1.2", "p1.3"}, {"p2.0", "p2.1", "p2.2", "p2.3"},
                                      {"p3.0", "p3.1", "p3.2", "p3.3"}, {"p4.0", "p4.1", "p4.2", "p4.3"}};

struct Shared {
  int nprod = 0, items = 0;
  std::string stop;
  manual_lifetime<io_epoll_context> ctx;
  inplace_stop_source runStop;
  manual_lifetime<op_t> ops[MAXP][MAXI];
  int execd[MAXP][MAXI] = {};
  bool ready = false;
  int finished = 0;        // producers that returned from their last start()
  bool stopper_done = false;
};
void rq_rcv::set_value() && noexcept {
  sh->execd[p][j]++;
  dsched::action("exec %s%s", item_names[p][j], dsched::self() == 0 ? "" : " OFF-IO-THREAD");
}
}  // namespace

static std::vector<std::function<void()>> make_threads(int nprod, int items, const std::string& stop) {
  c14::reset();
  auto sh = std::make_shared<Shared>();
  sh->nprod = nprod; sh->items = items; sh->stop = stop;
  std::vector<std::function<void()>> th;
  th.push_back([sh] {
    int fds0 = c14::fd_count();
    dsched::name_range(&sh->runStop.state_, sizeof(sh->runStop.state_), "src");
    sh->ctx.construct();
    auto& ctx = sh->ctx.get();
    dsched::name_range(&ctx.remoteQueue_.head_, sizeof(ctx.remoteQueue_.head_), "rq.head");
    dsched::name_value((std::uint64_t)(std::uintptr_t)&ctx.remoteQueue_.head_, "INACTIVE");
    c14::name_fd(ctx.remoteQueueEventFd_.get(), "evfd");
    c14::name_fd(ctx.timerFd_.get(), "timerfd");
    c14::name_ptr(nullptr, "evfd");
    c14::name_ptr(ctx.timer_user_data(), "timer");
    sh->ready = true;
    if (sh->stop == "pre") { dsched::action("stop"); sh->runStop.request_stop(); dsched::action("stopped"); }
    dsched::action("run begin");
    ctx.run(sh->runStop.get_token());
    dsched::action("run returned");
    dsched::block_until([&] { return sh->finished == sh->nprod && (sh->stopper_done || sh->stop == "pre"); });
    sh->ctx.destruct();
    dsched::action("fds %d %d", fds0, c14::fd_count());
  });
  for (int p = 0; p < nprod; ++p)
    th.push_back([sh, p] {
      dsched::block_until([&] { return sh->ready; });
      auto sched = sh->ctx.get().get_scheduler();
      for (int j = 0; j < sh->items; ++j) {
        sh->ops[p][j].construct_with([&] { return unifex::connect(unifex::schedule(sched), rq_rcv{sh.get(), p, j}); });
        auto& op = sh->ops[p][j].get();
        dsched::name_value((std::uint64_t)(std::uintptr_t)(io_epoll_context::operation_base*)(&op), item_names[p][j]);
        dsched::action("start %s", item_names[p][j]);
        unifex::start(op);
        dsched::action("started %s", item_names[p][j]);
      }
      sh->finished++;
    });
  if (stop != "pre")
    th.push_back([sh] {
      dsched::block_until([&] { return sh->ready; });
      if (sh->stop == "end") dsched::block_until([&] { return sh->finished == sh->nprod; });
      dsched::action("stop");
      sh->runStop.request_stop();
      dsched::action("stopped");
      sh->stopper_done = true;
    });
  return th;
}

int main(int argc, char** argv) {
  auto cli = vh::parse_cli(argc, argv);
  int nprod = std::atoi(cli.prog.at(0).c_str());
  int items = std::atoi(cli.prog.at(1).c_str());
  std::string stop = cli.prog.size() > 2 ? cli.prog[2] : "end";
  if (nprod > MAXP || items > MAXI) { std::fprintf(stderr, "too many producers/items\n"); return 2; }
  auto make = [&] { return make_threads(nprod, items, stop); };

  // Direct monitor (C14, first sentence, evaluated on the implementation's own run):
  //  * every item runs at most once, on the I/O thread (thread 0), and only after its start();
  //  * an item whose start() returned before request_stop() was called runs before run() returns
  //    (never lost, whatever the loop was doing when it was submitted);
  //  * run() returns, and only after request_stop() was called;
  //  * the I/O thread never blocks in epoll_wait forever with work queued (that run would end as a
  //    deadlock: FATAL line);
  //  * the context releases every descriptor it opened.
  auto monitor = [&](const dsched::Result& r) -> std::string {
    std::map<std::string, long> started, startret, execd;
    std::map<std::string, int> nexec;
    long stop_at = -1, returned_at = -1, idx = 0;
    int f0 = -1, f1 = -1;
    for (auto& e : r.trace) {
      ++idx;
      auto p = e.find('!');
      if (p == std::string::npos) continue;
      std::string a = e.substr(p + 1);
      int tid = std::atoi(e.c_str() + 1);
      char nm[64];
      if (std::sscanf(a.c_str(), "start %63s", nm) == 1 && a.compare(0, 6, "start ") == 0) started[nm] = idx;
      else if (std::sscanf(a.c_str(), "started %63s", nm) == 1 && a.compare(0, 8, "started ") == 0) startret[nm] = idx;
      else if (a.compare(0, 5, "exec ") == 0) {
        std::sscanf(a.c_str(), "exec %63s", nm);
        if (a.find("OFF-IO-THREAD") != std::string::npos || tid != 0) return std::string("OFFTHREAD: item ") + nm + " ran on thread " + std::to_string(tid);
        if (++nexec[nm] > 1) return std::string("TWICE: item ") + nm + " executed twice";
        if (!started.count(nm)) return std::string("EARLY: item ") + nm + " executed before start()";
        if (returned_at >= 0) return std::string("AFTER-RETURN: item ") + nm + " executed after run() returned";
        execd[nm] = idx;
      } else if (a == "stop") stop_at = idx;
      else if (a == "run returned") returned_at = idx;
      else if (std::sscanf(a.c_str(), "fds %d %d", &f0, &f1) == 2) {}
    }
    if (returned_at < 0) return "NORETURN: run() did not return";
    if (stop_at < 0 || stop_at > returned_at) return "RETURN-WITHOUT-STOP: run() returned before request_stop() was called";
    for (auto& kv : startret)
      if (kv.second < stop_at && !execd.count(kv.first)) return "LOST: item " + kv.first + " was submitted before the stop request and never ran";
    if (stop == "end")
      for (int p = 0; p < nprod; ++p) for (int j = 0; j < items; ++j)
        if (!execd.count(item_names[p][j])) return std::string("LOST: item ") + item_names[p][j] + " never ran";
    if (f0 != f1) return "FDLEAK: " + std::to_string(f0) + " descriptors before, " + std::to_string(f1) + " after";
    return "";
  };
  return vh::drive(cli, make, monitor);
}
