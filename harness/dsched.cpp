// dsched implementation.  Compiled WITHOUT verif_shim.hpp (uses the real std primitives).
#include "dsched.hpp"

#include <algorithm>
#include <cassert>
#include <condition_variable>
#include <cstdio>
#include <cstdlib>
#include <cstring>
#include <map>
#include <memory>
#include <mutex>
#include <thread>
#include <unordered_map>
#include <unistd.h>

namespace dsched {

namespace {

struct Ev {
  int tid;
  const void* addr;
  Kind k;
  int order;
  std::uint64_t oldv, newv;
  bool ok;
  std::string act;  // non-empty: observable action
};

enum TState { T_RUNNABLE, T_BLOCKED, T_DONE };

struct VThread {
  int id;
  TState st = T_RUNNABLE;
  bool spinning = false;
  std::function<void()> fn;
  std::function<bool()> wake;      // valid while BLOCKED
  std::int64_t deadline = -1;      // virtual ns; -1 none
  bool timed_out = false;
  std::condition_variable cv;
  // spin detection: (addr,value) pairs read since the last write by anybody -> count
  std::map<std::pair<const void*, std::uint64_t>, int> reads;
  std::uint64_t reads_epoch = 0;
};

struct Named { const char* name; std::size_t bytes; std::size_t elem; };

struct RunState {
  std::mutex m;
  std::vector<std::unique_ptr<VThread>> th;
  int current = -1;
  bool running = false;
  Options opts;
  std::size_t next_decision = 0;
  std::uint64_t rng = 0;
  long steps = 0;
  std::uint64_t write_epoch = 1;
  int fruitless = 0;
  std::int64_t now = 1000000000;  // virtual clock starts at 1 s
  std::vector<Ev> evs;
  std::vector<Choice> choices;
  std::map<const void*, Named> names;                 // by start address
  std::unordered_map<std::uint64_t, std::string> value_names;
  std::condition_variable done_cv;
  bool all_done = false;
};

RunState* g = nullptr;
std::atomic<bool> g_active{false};
thread_local VThread* t_self = nullptr;

const char* kind_str(Kind k) {
  switch (k) {
    case K_LOAD: return "L"; case K_STORE: return "S"; case K_XCHG: return "X"; case K_CAS: return "C";
    case K_ADD: return "A"; case K_SUB: return "U"; case K_OR: return "O"; case K_AND: return "N";
    case K_XOR: return "R"; case K_FENCE: return "F"; case K_MLOCK: return "ML"; case K_MUNLOCK: return "MU";
    case K_CVWAIT: return "CW"; case K_CVNOTIFY: return "CN"; case K_YIELD: return "Y"; case K_JOIN: return "J";
    case K_SPAWN: return "SP"; case K_CLOCK: return "CK"; case K_SYSCALL: return "SYS";
  }
  return "?";
}
const char* order_str(int o) {
  switch (o) {
    case (int)std::memory_order_relaxed: return "rlx"; case (int)std::memory_order_consume: return "con";
    case (int)std::memory_order_acquire: return "acq"; case (int)std::memory_order_release: return "rel";
    case (int)std::memory_order_acq_rel: return "acq_rel"; case (int)std::memory_order_seq_cst: return "sc";
  }
  return "-";
}

bool lookup_name(const void* addr, std::string& out) {
  if (g->names.empty()) return false;
  auto it = g->names.upper_bound(addr);
  if (it == g->names.begin()) return false;
  --it;
  const char* base = (const char*)it->first;
  const char* a = (const char*)addr;
  if (a >= base + it->second.bytes) return false;
  out = it->second.name;
  if (it->second.elem) out += "[" + std::to_string((a - base) / it->second.elem) + "]";
  else if (a != base) out += "+" + std::to_string(a - base);
  return true;
}

bool is_write(Kind k, bool ok) {
  switch (k) {
    case K_STORE: case K_XCHG: case K_ADD: case K_SUB: case K_OR: case K_AND: case K_XOR:
    case K_MUNLOCK: case K_CVNOTIFY: case K_CLOCK: case K_SPAWN: return true;
    case K_CAS: case K_MLOCK: return ok;
    default: return false;
  }
}

[[noreturn]] void fatal(const char* why);

// persistent pool of real threads: creating pthreads per run dominated the cost of exploration
struct Worker {
  std::mutex m;
  std::condition_variable cv;
  std::function<void()> job;
  bool has_job = false;
  std::thread th;
};
std::mutex pool_m;
std::vector<Worker*> pool_idle;
std::condition_variable pool_cv;
long pool_busy = 0;

void worker_loop(Worker* w) {
  for (;;) {
    std::function<void()> job;
    {
      std::unique_lock<std::mutex> lk(w->m);
      w->cv.wait(lk, [&] { return w->has_job; });
      job = std::move(w->job);
      w->has_job = false;
    }
    job();
    {
      std::lock_guard<std::mutex> lk(pool_m);
      pool_idle.push_back(w);
      --pool_busy;
    }
    pool_cv.notify_all();
  }
}

void pool_submit(std::function<void()> job) {
  Worker* w = nullptr;
  {
    std::lock_guard<std::mutex> lk(pool_m);
    if (!pool_idle.empty()) { w = pool_idle.back(); pool_idle.pop_back(); }
    ++pool_busy;
  }
  if (!w) {
    w = new Worker;
    w->th = std::thread(worker_loop, w);
    w->th.detach();
  }
  {
    std::lock_guard<std::mutex> lk(w->m);
    w->job = std::move(job);
    w->has_job = true;
  }
  w->cv.notify_one();
}

void pool_wait_idle() {
  std::unique_lock<std::mutex> lk(pool_m);
  pool_cv.wait(lk, [] { return pool_busy == 0; });
}

// Must hold g->m.  Picks the next thread and hands over the baton; returns when `me` owns it again
// (me == nullptr: caller is finishing / the launcher).
void reschedule(std::unique_lock<std::mutex>& lk, VThread* me) {
  for (;;) {
    // wake blocked threads whose predicate holds
    for (auto& t : g->th)
      if (t->st == T_BLOCKED && t->wake && t->wake()) { t->st = T_RUNNABLE; t->wake = nullptr; t->deadline = -1; }
    std::vector<int> runnable;
    for (auto& t : g->th) if (t->st == T_RUNNABLE && !t->spinning) runnable.push_back(t->id);
    if (runnable.empty()) {
      bool any_spin = false, any_live = false;
      for (auto& t : g->th) { if (t->st != T_DONE) any_live = true; if (t->st == T_RUNNABLE && t->spinning) any_spin = true; }
      if (!any_live) { g->all_done = true; g->current = -1; g->done_cv.notify_all(); return; }
      if (any_spin) {
        if (++g->fruitless > 6) fatal("livelock: every live thread is spinning and no write happens");
        for (auto& t : g->th) { t->spinning = false; t->reads.clear(); }
        continue;
      }
      // everybody blocked: advance the virtual clock to the earliest deadline
      VThread* best = nullptr;
      for (auto& t : g->th) if (t->st == T_BLOCKED && t->deadline >= 0 && (!best || t->deadline < best->deadline)) best = t.get();
      if (best) {
        if (best->deadline > g->now) g->now = best->deadline;
        best->timed_out = true; best->st = T_RUNNABLE; best->wake = nullptr; best->deadline = -1;
        g->write_epoch++;
        continue;
      }
      fatal("deadlock: live threads exist and none can run");
    }
    int cur = me ? me->id : -1;
    bool cur_runnable = std::find(runnable.begin(), runnable.end(), cur) != runnable.end();
    int chosen = cur_runnable ? cur : runnable.front();
    int ci = (int)g->choices.size();
    if (g->next_decision < g->opts.decisions.size() && g->opts.decisions[g->next_decision].first == ci) {
      int want = g->opts.decisions[g->next_decision].second;
      g->next_decision++;
      if (std::find(runnable.begin(), runnable.end(), want) != runnable.end()) chosen = want;
    } else if (g->opts.random_seed && runnable.size() > 1) {
      g->rng = g->rng * 6364136223846793005ULL + 1442695040888963407ULL;
      if ((int)((g->rng >> 33) % 1000) < g->opts.switch_permille) {
        g->rng = g->rng * 6364136223846793005ULL + 1442695040888963407ULL;
        chosen = runnable[(g->rng >> 33) % runnable.size()];
      }
    }
    g->choices.push_back(Choice{(int)g->steps, runnable, chosen, cur, cur_runnable});
    g->current = chosen;
    if (me && chosen == me->id) return;
    g->th[chosen]->cv.notify_one();
    if (!me) return;
    if (me->st == T_DONE) return;
    me->cv.wait(lk, [&] { return g->current == me->id; });
    return;
  }
}

Result build_result() {
  Result r;
  r.steps = g->steps;
  r.choices = g->choices;
  std::unordered_map<std::uint64_t, int> anon;
  auto val = [&](std::uint64_t v) -> std::string {
    auto it = g->value_names.find(v);
    if (it != g->value_names.end()) return it->second;
    if (v < 65536 || (std::int64_t)v > -65536 && (std::int64_t)v < 0) return std::to_string((std::int64_t)v);
    // tagged pointers: try with the low 2 bits cleared
    auto it2 = g->value_names.find(v & ~std::uint64_t(3));
    if (it2 != g->value_names.end()) return it2->second + "|" + std::to_string(v & 3);
    auto a = anon.find(v);
    if (a == anon.end()) a = anon.emplace(v, (int)anon.size()).first;
    return "#" + std::to_string(a->second);
  };
  for (auto& e : g->evs) {
    std::string s = "t" + std::to_string(e.tid) + " ";
    if (!e.act.empty()) { r.trace.push_back(s + "!" + e.act); continue; }
    std::string nm;
    if (!lookup_name(e.addr, nm)) { if (!g->opts.trace_unnamed) continue; nm = "?"; }
    s += nm + " " + kind_str(e.k) + "." + order_str(e.order) + " ";
    switch (e.k) {
      case K_LOAD: s += val(e.newv); break;
      case K_STORE: s += val(e.newv); break;
      case K_CAS: s += val(e.oldv) + "->" + val(e.newv) + (e.ok ? " ok" : " fail"); break;
      case K_FENCE: case K_YIELD: break;
      default: s += val(e.oldv) + "->" + val(e.newv); break;
    }
    r.trace.push_back(s);
  }
  return r;
}

[[noreturn]] void fatal(const char* why) {
  Result r = build_result();
  r.fatal = why;
  r.deadlock = std::strstr(why, "deadlock") || std::strstr(why, "livelock");
  r.step_cap_hit = std::strstr(why, "step cap");
  if (on_fatal) on_fatal(r);
  else { std::fprintf(stdout, "FATAL %s schedule=%s\n", why, r.schedule().c_str()); }
  std::fflush(stdout);
  _exit(3);
}

void thread_main(VThread* t) {
  t_self = t;
  {
    std::unique_lock<std::mutex> lk(g->m);
    t->cv.wait(lk, [&] { return g->current == t->id; });
  }
  t->fn();
  std::unique_lock<std::mutex> lk(g->m);
  t->st = T_DONE;
  g->write_epoch++;
  for (auto& o : g->th) { o->spinning = false; }
  reschedule(lk, t);
  t_self = nullptr;
}

}  // namespace

std::function<void(const Result&)> on_fatal;

bool active() noexcept { return t_self != nullptr; }
int self() noexcept { return t_self ? t_self->id : -1; }

void pre(const void*, Kind, int) noexcept {
  VThread* me = t_self;
  if (!me) return;
  std::unique_lock<std::mutex> lk(g->m);
  if (++g->steps > g->opts.step_cap) fatal("step cap exceeded");
  reschedule(lk, me);
}

void post(const void* addr, Kind k, int order, std::uint64_t oldv, std::uint64_t newv, bool ok) noexcept {
  VThread* me = t_self;
  if (!me) return;
  std::lock_guard<std::mutex> lk(g->m);
  g->evs.push_back(Ev{me->id, addr, k, order, oldv, newv, ok, {}});
  if (is_write(k, ok)) {
    g->write_epoch++;
    g->fruitless = 0;
    for (auto& t : g->th) t->spinning = false;
  } else if (k == K_LOAD || k == K_CAS) {
    if (me->reads_epoch != g->write_epoch) { me->reads.clear(); me->reads_epoch = g->write_epoch; }
    std::uint64_t seen = (k == K_LOAD) ? newv : oldv;
    if (++me->reads[{addr, seen}] >= 5) me->spinning = true;  // 5: try_lock_checking legitimately re-reads a word 3x
  }
}

void yield_now() noexcept {
  VThread* me = t_self;
  if (!me) { std::this_thread::yield(); return; }
  std::unique_lock<std::mutex> lk(g->m);
  if (++g->steps > g->opts.step_cap) fatal("step cap exceeded");
  me->spinning = true;
  reschedule(lk, me);
}

bool block_until(std::function<bool()> pred, std::int64_t deadline_ns) noexcept {
  VThread* me = t_self;
  assert(me);
  std::unique_lock<std::mutex> lk(g->m);
  if (pred()) return true;
  me->st = T_BLOCKED;
  me->wake = std::move(pred);
  me->deadline = deadline_ns;
  me->timed_out = false;
  reschedule(lk, me);
  bool to = me->timed_out;
  me->timed_out = false;
  return !to;
}

int spawn(std::function<void()> fn) {
  assert(t_self);
  std::unique_lock<std::mutex> lk(g->m);
  auto t = std::make_unique<VThread>();
  t->id = (int)g->th.size();
  t->fn = std::move(fn);
  VThread* p = t.get();
  g->th.push_back(std::move(t));
  pool_submit([p] { thread_main(p); });
  g->write_epoch++;
  return p->id;
}

bool thread_done(int tid) noexcept { return g->th[tid]->st == T_DONE; }

std::int64_t now_ns() noexcept {
  if (!g) return 1000000000;
  return g->now;
}
void advance_clock(std::int64_t ns) noexcept {
  if (!t_self) { if (g) g->now += ns; return; }
  std::lock_guard<std::mutex> lk(g->m);
  g->now += ns;
  g->write_epoch++;
  for (auto& t : g->th) t->spinning = false;
}

void name_range(const void* p, std::size_t bytes, const char* name, std::size_t elem) {
  if (!g) return;
  std::lock_guard<std::mutex> lk(g->m);
  g->names[p] = Named{name, bytes, elem};
}
void name_value(std::uint64_t v, const char* name) {
  if (!g) return;
  std::lock_guard<std::mutex> lk(g->m);
  g->value_names[v] = name;
}

void action(const char* fmt, ...) noexcept {
  char buf[512];
  va_list ap;
  va_start(ap, fmt);
  std::vsnprintf(buf, sizeof buf, fmt, ap);
  va_end(ap);
  VThread* me = t_self;
  if (!me) return;
  std::lock_guard<std::mutex> lk(g->m);
  g->evs.push_back(Ev{me->id, nullptr, K_YIELD, 0, 0, 0, true, buf});
}

std::string Result::schedule() const {
  std::string s;
  int last = -2, n = 0;
  auto flush = [&] { if (n) { if (!s.empty()) s += " "; s += std::to_string(last) + "x" + std::to_string(n); } };
  for (auto& c : choices) {
    if (c.chosen == last) { ++n; continue; }
    flush(); last = c.chosen; n = 1;
  }
  flush();
  return s;
}

// The RunState must be reachable from name_range()/name_value() calls made inside thread bodies.
Result run(const std::vector<std::function<void()>>& threads, const Options& opts) {
  RunState st;
  st.opts = opts;
  st.rng = opts.random_seed * 0x9E3779B97F4A7C15ULL + 12345;
  g = &st;
  g_active = true;
  {
    std::unique_lock<std::mutex> lk(st.m);
    for (std::size_t i = 0; i < threads.size(); ++i) {
      auto t = std::make_unique<VThread>();
      t->id = (int)i;
      t->fn = threads[i];
      st.th.push_back(std::move(t));
    }
    for (auto& t : st.th) { VThread* p = t.get(); pool_submit([p] { thread_main(p); }); }
    reschedule(lk, nullptr);
    st.done_cv.wait(lk, [&] { return st.all_done; });
  }
  pool_wait_idle();
  Result r = build_result();
  g_active = false;
  g = nullptr;
  return r;
}

static int preemptions(const Result& r, const std::vector<std::pair<int, int>>& d) {
  int n = 0;
  for (auto& p : d) {
    if (p.first < (int)r.choices.size()) {
      auto& c = r.choices[p.first];
      if (c.current_runnable && c.current != p.second) ++n;
    }
  }
  return n;
}

ExploreStats explore(const std::function<std::vector<std::function<void()>>()>& make,
                     const std::function<bool(const Result&, const Options&)>& check,
                     int bound, long max_runs, std::uint64_t random_seed, long random_runs) {
  ExploreStats stats;
  struct Item { std::vector<std::pair<int, int>> d; int cost; };
  std::vector<Item> stack;
  stack.push_back(Item{{}, 0});
  while (!stack.empty()) {
    if (stats.runs >= max_runs) { stats.truncated = true; break; }
    Item it = std::move(stack.back());
    stack.pop_back();
    Options o;
    o.decisions = it.d;
    Result r = run(make(), o);
    stats.runs++;
    stats.max_steps = std::max(stats.max_steps, r.steps);
    if (!check(r, o)) return stats;
    int from = it.d.empty() ? 0 : it.d.back().first + 1;
    for (int i = (int)r.choices.size() - 1; i >= from; --i) {
      auto& c = r.choices[i];
      if (c.runnable.size() < 2) continue;
      for (int alt : c.runnable) {
        if (alt == c.chosen) continue;
        int cost = it.cost + ((c.current_runnable && alt != c.current) ? 1 : 0);
        if (cost > bound) continue;
        Item n{it.d, cost};
        n.d.emplace_back(i, alt);
        stack.push_back(std::move(n));
      }
    }
  }
  for (long k = 0; k < random_runs; ++k) {
    Options o;
    o.random_seed = random_seed * 1000003ULL + k + 1;
    Result r = run(make(), o);
    stats.runs++;
    // turn the random run into explicit decisions so that it replays without the PRNG
    Options rep;
    for (std::size_t i = 0; i < r.choices.size(); ++i) rep.decisions.emplace_back((int)i, r.choices[i].chosen);
    if (!check(r, rep)) return stats;
  }
  return stats;
}

std::string decisions_to_string(const std::vector<std::pair<int, int>>& d) {
  std::string s;
  for (auto& p : d) { if (!s.empty()) s += ","; s += std::to_string(p.first) + ":" + std::to_string(p.second); }
  return s.empty() ? "-" : s;
}
std::vector<std::pair<int, int>> decisions_from_string(const std::string& s) {
  std::vector<std::pair<int, int>> d;
  if (s == "-" || s.empty()) return d;
  std::size_t i = 0;
  while (i < s.size()) {
    std::size_t c = s.find(':', i), e = s.find(',', i);
    if (e == std::string::npos) e = s.size();
    d.emplace_back(std::stoi(s.substr(i, c - i)), std::stoi(s.substr(c + 1, e - c - 1)));
    i = e + 1;
  }
  return d;
}

}  // namespace dsched
