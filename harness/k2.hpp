// k2.hpp — harness for the K2 program differential: generated translation units build sender
// expressions with the real unifex API over the leaves / callables defined here, run an event script
// against them and print the observable trace in the format of the Calc model (ocaml handler "calc").
#pragma once
#include <unifex/receiver_concepts.hpp>
#include <unifex/sender_concepts.hpp>
#include <unifex/get_stop_token.hpp>
#include <unifex/inplace_stop_token.hpp>
#include <unifex/manual_lifetime.hpp>
#include <unifex/blocking.hpp>
#include <unifex/just.hpp>
#include <unifex/just_error.hpp>
#include <unifex/just_done.hpp>
#include <unifex/then.hpp>
#include <unifex/upon_error.hpp>
#include <unifex/upon_done.hpp>
#include <unifex/let_value.hpp>
#include <unifex/let_error.hpp>
#include <unifex/let_done.hpp>
#include <unifex/sequence.hpp>
#include <unifex/finally.hpp>
#include <unifex/when_all.hpp>
#include <unifex/stop_when.hpp>
#include <unifex/with_query_value.hpp>
#include <unifex/unstoppable.hpp>
#include <unifex/materialize.hpp>
#include <unifex/done_as_optional.hpp>
#include <optional>

#include <cstdio>
#include <cstring>
#include <exception>
#include <iostream>
#include <sstream>
#include <string>
#include <vector>

namespace k2 {

inline std::vector<std::string> LOG;
inline void log(const std::string& s) { LOG.push_back(s); }

struct err { int code; };
inline int code_of(std::exception_ptr ep) {
  try { std::rethrow_exception(ep); } catch (const err& e) { return e.code; } catch (...) { return -777; }
}

// ---- two user-defined receiver queries -----------------------------------------------------------
inline constexpr struct get_q0_fn {
  // noexcept exactly when the receiver's customisation is (or when falling back to the default answer)
  template <typename R>
  int operator()(const R& r) const noexcept(
      !unifex::is_tag_invocable_v<get_q0_fn, const R&> || unifex::is_nothrow_tag_invocable_v<get_q0_fn, const R&>) {
    if constexpr (unifex::is_tag_invocable_v<get_q0_fn, const R&>) return unifex::tag_invoke(*this, r);
    else return 0;
  }
} get_q0{};
inline constexpr struct get_q1_fn {
  // noexcept exactly when the receiver's customisation is (or when falling back to the default answer)
  template <typename R>
  int operator()(const R& r) const noexcept(
      !unifex::is_tag_invocable_v<get_q1_fn, const R&> || unifex::is_nothrow_tag_invocable_v<get_q1_fn, const R&>) {
    if constexpr (unifex::is_tag_invocable_v<get_q1_fn, const R&>) return unifex::tag_invoke(*this, r);
    else return 0;
  }
} get_q1{};
}  // namespace k2
namespace unifex {
template <> inline constexpr bool is_receiver_query_cpo_v<k2::get_q0_fn> = true;
template <> inline constexpr bool is_receiver_query_cpo_v<k2::get_q1_fn> = true;
}
namespace k2 {

// ---- counting stop token (wraps inplace_stop_token; counts live callback objects) --------------
inline int live_regs = 0;
struct counting_token {
  unifex::inplace_stop_token tok;
  template <typename F>
  struct callback_type {
    unifex::inplace_stop_callback<F> inner;
    template <typename F2>
    explicit callback_type(counting_token t, F2&& f) : inner(t.tok, (F2&&)f) { ++live_regs; }
    ~callback_type() { --live_regs; }
  };
  bool stop_requested() const noexcept { return tok.stop_requested(); }
  bool stop_possible() const noexcept { return tok.stop_possible(); }
};

// ---- user callables ---------------------------------------------------------------------------------
struct fnobj {
  char kind; int a; int b;   // 'a' add a, 'm' mul a, 't' throw a, 'i' throw b if arg == a
  int operator()(int x) const {
    char buf[96];
    switch (kind) {
      case 'a': std::snprintf(buf, sizeof buf, "call add(%d) %d", a, x); break;
      case 'm': std::snprintf(buf, sizeof buf, "call mul(%d) %d", a, x); break;
      case 't': std::snprintf(buf, sizeof buf, "call throw(%d) %d", a, x); break;
      default: std::snprintf(buf, sizeof buf, "call throwif(%d,%d) %d", a, b, x); break;
    }
    log(buf);
    switch (kind) {
      case 'a': return x + a;
      case 'm': return x * a;
      case 't': throw err{a};
      default: if (x == a) throw err{b}; return x;
    }
  }
};
inline int combine(int x, int y) { long long r = ((long long)x * 31 + y) % 1000003; return (int)(r < 0 ? r + 1000003 : r); }  // Z.modulo: result in [0, m)

// ---- leaves -------------------------------------------------------------------------------------------
struct leaf_ctl {
  void* op = nullptr;
  void (*complete_fn)(void*, char, int) = nullptr;
  bool started = false, completed = false;
};
inline leaf_ctl CTL[16];

template <typename Receiver>
struct leaf_op {
  struct cb {
    leaf_op* self;
    void operator()() noexcept {
      log("stopseen " + std::to_string(self->id));
      if (self->reactive) { CTL[self->id].completed = true; do_complete(self, 'd', 0); }
    }
  };
  using token_t = unifex::stop_token_type_t<Receiver&>;
  using cb_t = typename token_t::template callback_type<cb>;
  int id; bool reactive;
  Receiver r;
  unifex::manual_lifetime<cb_t> stopcb;
  bool cb_live = false;

  void start() noexcept {
    auto& c = CTL[id];
    c.op = this; c.complete_fn = &do_complete; c.started = true; c.completed = false;
    auto tok = unifex::get_stop_token(r);
    char buf[128];
    std::snprintf(buf, sizeof buf, "start %d stopped=%d stoppable=%d q0=%d q1=%d", id, (int)tok.stop_requested(),
                  (int)tok.stop_possible(), get_q0(r), get_q1(r));
    log(buf);
    if (reactive && tok.stop_requested()) {   // would complete from inside the callback's constructor
      log("stopseen " + std::to_string(id));
      c.completed = true;
      do_complete(this, 'd', 0);
      return;
    }
    cb_live = true;
    stopcb.construct(tok, cb{this});   // may run the callback inline, which may complete (and destroy) us
  }
  static void do_complete(void* p, char kind, int v) {
    auto* self = static_cast<leaf_op*>(p);
    if (self->cb_live) { self->cb_live = false; self->stopcb.destruct(); }
    if (kind == 'v') unifex::set_value(std::move(self->r), (int)v);
    else if (kind == 'e') unifex::set_error(std::move(self->r), std::make_exception_ptr(err{v}));
    else unifex::set_done(std::move(self->r));
  }
};

struct leaf {
  template <template <typename...> class Variant, template <typename...> class Tuple>
  using value_types = Variant<Tuple<int>>;
  template <template <typename...> class Variant>
  using error_types = Variant<std::exception_ptr>;
  static constexpr bool sends_done = true;
  static constexpr unifex::blocking_kind blocking = unifex::blocking_kind::maybe;
  static constexpr bool is_always_scheduler_affine = false;
  int id; bool reactive;
  template <typename R>
  friend leaf_op<unifex::remove_cvref_t<R>> tag_invoke(unifex::tag_t<unifex::connect>, const leaf& s, R&& r) {
    return leaf_op<unifex::remove_cvref_t<R>>{s.id, s.reactive, (R&&)r};
  }
};


// ---- inline completing sender with the uniform signature (value int / error exception_ptr / done) ----
template <typename Receiver>
struct inl_op {
  char kind; int val; Receiver r;
  void start() noexcept {
    if (kind == 'v') unifex::set_value(std::move(r), (int)val);
    else if (kind == 'e') unifex::set_error(std::move(r), std::make_exception_ptr(err{val}));
    else unifex::set_done(std::move(r));
  }
};
struct inl {
  template <template <typename...> class Variant, template <typename...> class Tuple>
  using value_types = Variant<Tuple<int>>;
  template <template <typename...> class Variant>
  using error_types = Variant<std::exception_ptr>;
  static constexpr bool sends_done = true;
  static constexpr unifex::blocking_kind blocking = unifex::blocking_kind::always_inline;
  static constexpr bool is_always_scheduler_affine = true;
  char kind; int val;
  template <typename R>
  friend inl_op<unifex::remove_cvref_t<R>> tag_invoke(unifex::tag_t<unifex::connect>, const inl& s, R&& r) {
    return inl_op<unifex::remove_cvref_t<R>>{s.kind, s.val, (R&&)r};
  }
};

// ---- root receiver --------------------------------------------------------------------------------------
inline int roots = 0;
struct root_receiver {
  counting_token tok;
  void set_value(int v) && noexcept { ++roots; log("root value " + std::to_string(v) + " regs=" + std::to_string(live_regs)); }
  void set_error(std::exception_ptr e) && noexcept { ++roots; log("root error " + std::to_string(code_of(e)) + " regs=" + std::to_string(live_regs)); }
  void set_done() && noexcept { ++roots; log("root done regs=" + std::to_string(live_regs)); }
  friend counting_token tag_invoke(unifex::tag_t<unifex::get_stop_token>, const root_receiver& r) noexcept { return r.tok; }
};

// ---- expression helpers used by generated code -------------------------------------------------------
inline auto jerr(int e) { return unifex::just_error(std::make_exception_ptr(err{e})); }
template <typename S> auto voided(S&& s) { return unifex::then((S&&)s, [](int) noexcept {}); }
template <typename A, typename B> auto wall(A&& a, B&& b) {
  return unifex::then(unifex::when_all((A&&)a, (B&&)b), [](auto&& va, auto&& vb) noexcept {
    return combine(std::get<0>(std::get<0>(va)), std::get<0>(std::get<0>(vb)));
  });
}
template <typename S> auto uerr(S&& s, fnobj f) {
  return unifex::upon_error((S&&)s, [f](std::exception_ptr e) { return f(code_of(e)); });
}
template <typename S> auto udone(S&& s, fnobj f) {
  return unifex::upon_done((S&&)s, [f]() { return f(0); });
}


// ---- with_query_value look-alike whose receiver answers the query through a customisation that is NOT noexcept ----
// (the library's own forwarding receivers must forward such a query exactly like a noexcept one)
template <int Q, typename R>
struct withq_nt_receiver {
  R r; int v;
  template <typename... V> void set_value(V&&... vs) && noexcept(unifex::is_nothrow_receiver_of_v<R, V...>) {
    unifex::set_value(std::move(r), (V&&)vs...);
  }
  template <typename E> void set_error(E&& e) && noexcept { unifex::set_error(std::move(r), (E&&)e); }
  void set_done() && noexcept { unifex::set_done(std::move(r)); }
  friend int tag_invoke(std::conditional_t<Q == 0, get_q0_fn, get_q1_fn>, const withq_nt_receiver& self) /* not noexcept */ {
    return self.v;
  }
  template <typename CPO, std::enable_if_t<unifex::is_receiver_query_cpo_v<CPO> &&
      !std::is_same_v<CPO, std::conditional_t<Q == 0, get_q0_fn, get_q1_fn>>, int> = 0>
  friend auto tag_invoke(CPO cpo, const withq_nt_receiver& self) noexcept(std::is_nothrow_invocable_v<CPO, const R&>)
      -> std::invoke_result_t<CPO, const R&> {
    return std::move(cpo)(std::as_const(self.r));
  }
};
template <int Q, typename S>
struct withq_nt_sender {
  template <template <typename...> class Variant, template <typename...> class Tuple>
  using value_types = unifex::sender_value_types_t<S, Variant, Tuple>;
  template <template <typename...> class Variant>
  using error_types = unifex::sender_error_types_t<S, Variant>;
  static constexpr bool sends_done = unifex::sender_traits<S>::sends_done;
  static constexpr unifex::blocking_kind blocking = unifex::sender_traits<S>::blocking;
  static constexpr bool is_always_scheduler_affine = unifex::sender_traits<S>::is_always_scheduler_affine;
  S s; int v;
  template <typename R>
  friend auto tag_invoke(unifex::tag_t<unifex::connect>, withq_nt_sender&& self, R&& r) {
    return unifex::connect(std::move(self.s), withq_nt_receiver<Q, unifex::remove_cvref_t<R>>{(R&&)r, self.v});
  }
  friend unifex::blocking_kind tag_invoke(unifex::tag_t<unifex::blocking>, const withq_nt_sender& self) noexcept {
    return unifex::blocking(self.s);
  }
};
template <int Q, typename S> auto withq_nt(S&& s, int v) { return withq_nt_sender<Q, unifex::remove_cvref_t<S>>{(S&&)s, v}; }

struct mat_fold {
  int operator()(unifex::tag_t<unifex::set_value>, int v) const noexcept { return 3 * v; }
  int operator()(unifex::tag_t<unifex::set_error>, std::exception_ptr e) const noexcept { return 3 * code_of(e) + 1; }
  int operator()(unifex::tag_t<unifex::set_done>) const noexcept { return 2; }
};
template <typename S> auto mat(S&& s) { return unifex::then(unifex::materialize((S&&)s), mat_fold{}); }
template <typename S> auto dopt(S&& s) {
  return unifex::then(unifex::done_as_optional((S&&)s), [](std::optional<int> o) noexcept { return o ? *o : -1; });
}

// the same algorithm over a VOID-valued sender (the value travels through a side cell): done_as_optional must still
// tell a value completion (engaged optional) from done (disengaged); the model term is the same (dopt s)
template <typename S> auto dopt_void(S&& s) {
  auto cell = std::make_shared<int>(0);
  return unifex::then(unifex::done_as_optional(unifex::then((S&&)s, [cell](int v) noexcept { *cell = v; })),
                      [cell](auto o) noexcept { return o ? *cell : -1; });
}

// ---- running one case ----------------------------------------------------------------------------------
struct script_ev { char what; int id; char kind; int val; };   // what: 'L' leaf completion, 'S' stop
inline std::vector<script_ev> parse_script(std::istream& is) {
  std::vector<script_ev> s; std::string tok;
  while (is >> tok) {
    if (tok == "S") { s.push_back({'S', 0, 0, 0}); continue; }
    // L<id>:<k><val>
    auto colon = tok.find(':');
    int id = std::stoi(tok.substr(1, colon - 1));
    char k = tok[colon + 1];
    int v = tok.size() > colon + 2 ? std::stoi(tok.substr(colon + 2)) : 0;
    s.push_back({'L', id, k, v});
  }
  return s;
}

template <typename MakeSender>
std::string run_case(MakeSender mk, bool prestop, const std::vector<script_ev>& script) {
  LOG.clear(); roots = 0; live_regs = 0;
  for (auto& c : CTL) c = leaf_ctl{};
  unifex::inplace_stop_source ext;
  if (prestop) ext.request_stop();
  using op_t = unifex::connect_result_t<decltype(mk()), root_receiver>;
  // operation state in poisoned storage: uninitialised reads do not see zeroes
  alignas(alignof(op_t) > 64 ? alignof(op_t) : 64) static unsigned char storage[sizeof(op_t) + 64];
  std::memset(storage, 0xAB, sizeof storage);
  op_t* op = ::new (static_cast<void*>(storage)) op_t(unifex::connect(mk(), root_receiver{counting_token{ext.get_token()}}));
  unifex::start(*op);
  for (auto& ev : script) {
    log("|");   // batch marker: one batch per script event
    if (ev.what == 'S') {
      if (ext.stop_requested()) log("skip"); else ext.request_stop();
    } else {
      auto& c = CTL[ev.id];
      if (c.started && !c.completed) { c.completed = true; c.complete_fn(c.op, ev.kind, ev.val); }
      else log("skip");
    }
  }
  if (roots > 0) op->~op_t();
  std::string out;
  for (auto& l : LOG) { if (!out.empty()) out += ";"; out += l; }
  return out + " # roots=" + std::to_string(roots);
}

using case_fn = std::string (*)(bool, const std::vector<script_ev>&);
using traits_fn = std::string (*)();

// compile-time sender traits and the run-time blocking() answer of a generated expression
template <typename MakeSender>
std::string traits_of(MakeSender mk) {
  using S = decltype(mk());
  auto s = mk();
  char buf[160];
  std::snprintf(buf, sizeof buf, "blocking=%d sends_done=%d affine=%d rt_blocking=%d",
                (int)unifex::sender_traits<S>::blocking.value, (int)unifex::sender_traits<S>::sends_done,
                (int)unifex::sender_traits<S>::is_always_scheduler_affine, (int)unifex::blocking(s).value);
  return buf;
}

inline int main_loop(case_fn* cases, int ncases, traits_fn* traits = nullptr) {
  std::string line;
  while (std::getline(std::cin, line)) {
    std::istringstream is(line);
    if (!line.empty() && line[0] == 'T') {
      char t; int ti; is >> t >> ti;
      std::cout << ((traits && ti >= 0 && ti < ncases) ? traits[ti]() : std::string("ERR")) << "\n";
      continue;
    }
    int idx, prestop; std::string bar;
    is >> idx >> prestop >> bar;
    auto script = parse_script(is);
    if (idx < 0 || idx >= ncases) { std::cout << "ERR index\n"; continue; }
    std::cout << cases[idx](prestop != 0, script) << "\n";
    std::cout.flush();
  }
  return 0;
}

}  // namespace k2
