// k2as.hpp — async-stack tie for property C20 (second half).  Included by generated translation units
// (tools/props/c20.py) built in the debug configurations (async stack tracing on).  Same leaves /
// script protocol as k2.hpp, but every leaf and the root receiver additionally record a snapshot of the
// async-stack bookkeeping: the current thread's chain of AsyncStackRoots (tryGetCurrentAsyncStackRoot,
// nextRoot links), each root's active top frame with its parent chain, and - at a leaf's start - the chain
// from get_async_stack_frame(receiver) up to the root.  Private members are read through -fno-access-control.
#pragma once
#include "k2.hpp"
#include <unifex/config.hpp>
#include <unifex/tracing/async_stack.hpp>
#include <unifex/tracing/get_async_stack_frame.hpp>
#include <unifex/async_trace.hpp>
#include <unifex/sync_wait.hpp>
#include <atomic>
#include <chrono>
#include <map>
#include <mutex>
#include <set>
#include <thread>
#if !UNIFEX_NO_COROUTINES
#include <unifex/task.hpp>
#endif

#if UNIFEX_NO_ASYNC_STACKS
#error "k2as.hpp needs a configuration with async stack tracing (no NDEBUG)"
#endif

namespace k2as {
using unifex::AsyncStackFrame;
using unifex::AsyncStackRoot;

// two-thread runs (sync_wait / task cases): thread 0 = the thread blocked in sync_wait, 1 = the completer.
// Every log line produced by this header is written under MX; lines of thread 1 are tagged "as@1".
inline std::recursive_mutex MX;
inline thread_local int TID = 0;
inline void log(const std::string& s) { std::lock_guard<std::recursive_mutex> g(MX); k2::log(s); }
inline std::string as_tag() { return TID == 0 ? std::string("as ") : "as@" + std::to_string(TID) + " "; }

// ---- address tokens (per run, numbered by first occurrence) ---------------------------------------------
inline std::map<const void*, int> FTOK, RTOK;
inline std::set<AsyncStackFrame*> SEEN;        // every frame seen on any chain during the run (heap/op frames only)
inline std::set<const void*> ADJ;              // frames that live next to their root (completion copies, initial frame)
inline std::string ftok(const AsyncStackFrame* f) {
  if (!f) return "-";
  std::lock_guard<std::recursive_mutex> g(MX);
  auto it = FTOK.find(f);
  if (it == FTOK.end()) it = FTOK.emplace(f, (int)FTOK.size()).first;
  return "f" + std::to_string(it->second);
}
inline std::string rtok(const AsyncStackRoot* r) {
  if (!r) return "-";
  std::lock_guard<std::recursive_mutex> g(MX);
  auto it = RTOK.find(r);
  if (it == RTOK.end()) it = RTOK.emplace(r, (int)RTOK.size()).first;
  return "r" + std::to_string(it->second);
}
inline bool adjacent(const AsyncStackFrame* f, const AsyncStackRoot* r) {
  return f && reinterpret_cast<const char*>(f) + sizeof(AsyncStackFrame) == reinterpret_cast<const char*>(r);
}
// parent chain of a frame: f>p>pp  (bounded: a cycle prints "LOOP")
inline std::string chain(AsyncStackFrame* f, bool remember) {
  std::lock_guard<std::recursive_mutex> g(MX);
  std::string s; int n = 0;
  for (; f; f = f->parentFrame) {
    if (++n > 64) { s += ">LOOP"; break; }
    if (!s.empty()) s += ">";
    s += ftok(f);
    if (remember && !ADJ.count(f)) SEEN.insert(f);
  }
  return s.empty() ? "-" : s;
}
// the current thread's roots, innermost first:  K r<k>:<frames>
//   K = S: the top frame lives elsewhere (an operation's own frame: a start bracket)
//       C: the top frame is adjacent to the root (_root_and_frame / initial_stack_root: a completion bracket)
//       E: root without an active frame
//   The innermost root's top frame is printed with its whole parent chain (it is the frame of the running
//   operation: its ancestors are alive).  Outer roots print only the top frame's identity: their frames may
//   belong to operation states that were destroyed since (ensureFrameDeactivated's "possiblyDeadFrame", and
//   the parent pointers copied by _root_and_frame), so they are not dereferenced beyond the cached stackRoot
//   of a start bracket's frame (!cache = it does not name this root any more).
inline std::string roots_snapshot() {
  std::lock_guard<std::recursive_mutex> g(MX);
  std::string s; int n = 0;
  for (AsyncStackRoot* r = unifex::tryGetCurrentAsyncStackRoot(); r; r = r->nextRoot) {
    if (++n > 64) { s += " LOOP"; break; }
    AsyncStackFrame* f = r->topFrame.load(std::memory_order_relaxed);
    bool adj = adjacent(f, r);
    if (adj) ADJ.insert(f);
    s += " ";
    s += !f ? 'E' : adj ? 'C' : 'S';
    s += rtok(r) + ":";
    if (!f) s += "-";
    else if (n == 1) s += chain(f, !adj);
    else s += ftok(f);
    if (f && !adj && f->stackRoot != r) s += "!cache";
    if (f && n == 1 && f->stackRoot != r) s += "!notactive";
  }
  return s.empty() ? " none" : s;
}
template <typename R>
inline std::string rcv_chain(const R& r) { return chain(unifex::get_async_stack_frame(r), true); }

#if UNIFEX_ENABLE_CONTINUATION_VISITATIONS
// async_trace from a receiver: the entries in BFS order as depth:parentIndex, plus whether it reaches a k2as root receiver
struct root_receiver;
template <typename R>
inline std::string trace_of(const R& r) {
  auto es = unifex::async_trace(r);
  std::string s = " trace=";
  bool reaches = false; std::size_t maxd = 0;
  for (auto& e : es) { maxd = e.depth > maxd ? e.depth : maxd; if (e.continuation.type() == unifex::type_id<root_receiver>()) reaches = true; }
  s += std::to_string(es.size()) + "/" + std::to_string(maxd) + "/" + (reaches ? "root" : "noroot");
  return s;
}
#else
template <typename R> inline std::string trace_of(const R&) { return ""; }
#endif

// ---- leaves ---------------------------------------------------------------------------------------------
inline std::atomic<bool> READY[16];   // leaf i's start() has done its last access to the operation state
using k2::CTL;
using k2::leaf_ctl;
using k2::err;
template <typename Receiver>
struct leaf_op {
  struct cb {
    leaf_op* self;
    void operator()() noexcept {
      log("stopseen " + std::to_string(self->id));
      if (self->reactive) { CTL[self->id].completed = true; do_complete(self, 'd', 0); }
    }
  };
  using token_t = unifex::stop_token_type_t<Receiver&>;
  using cb_t = typename token_t::template callback_type<cb>;
  int id; bool reactive;
  Receiver r;
  unifex::manual_lifetime<cb_t> stopcb;
  bool cb_live = false;

  void start() noexcept {
    const int my = id;
    auto& c = CTL[id];
    c.op = this; c.complete_fn = &do_complete; c.started = true; c.completed = false;
    auto tok = unifex::get_stop_token(r);
    char buf[128];
    std::snprintf(buf, sizeof buf, "start %d stopped=%d stoppable=%d q0=%d q1=%d", id, (int)tok.stop_requested(),
                  (int)tok.stop_possible(), k2::get_q0(r), k2::get_q1(r));
    log(buf);
    log(as_tag() + "start " + std::to_string(id) + " chain=" + rcv_chain(r) + " roots=" + roots_snapshot() + trace_of(r));
    if (reactive && tok.stop_requested()) {
      log("stopseen " + std::to_string(id));
      c.completed = true;
      do_complete(this, 'd', 0);
      return;
    }
    cb_live = true;
    stopcb.construct(tok, cb{this});   // may run the callback inline, which may complete (and destroy) us
    READY[my].store(true, std::memory_order_release);
  }
  static void do_complete(void* p, char kind, int v) {
    std::lock_guard<std::recursive_mutex> g(MX);   // a completion (and what it starts) is one critical section
    auto* self = static_cast<leaf_op*>(p);
    if (self->cb_live) { self->cb_live = false; self->stopcb.destruct(); }
    log(as_tag() + "complete " + std::to_string(self->id) + " chain=" + rcv_chain(self->r) + " roots=" + roots_snapshot());
    if (kind == 'v') unifex::set_value(std::move(self->r), (int)v);
    else if (kind == 'e') unifex::set_error(std::move(self->r), std::make_exception_ptr(err{v}));
    else unifex::set_done(std::move(self->r));
  }
};
struct leaf {
  template <template <typename...> class Variant, template <typename...> class Tuple>
  using value_types = Variant<Tuple<int>>;
  template <template <typename...> class Variant>
  using error_types = Variant<std::exception_ptr>;
  static constexpr bool sends_done = true;
  static constexpr unifex::blocking_kind blocking = unifex::blocking_kind::maybe;
  static constexpr bool is_always_scheduler_affine = false;
  int id; bool reactive;
  template <typename R>
  friend leaf_op<unifex::remove_cvref_t<R>> tag_invoke(unifex::tag_t<unifex::connect>, const leaf& s, R&& r) {
    return leaf_op<unifex::remove_cvref_t<R>>{s.id, s.reactive, (R&&)r};
  }
};

// inline completing leaf (stands for just / just_error / just_done / a bound variable): observes too.
// ids 100.. are numbered by the generator in expression order
template <typename Receiver>
struct inl_op {
  int id; char kind; int val; Receiver r;
  void start() noexcept {
    log(as_tag() + "istart " + std::to_string(id) + " chain=" + rcv_chain(r) + " roots=" + roots_snapshot() + trace_of(r));
    if (kind == 'v') unifex::set_value(std::move(r), (int)val);
    else if (kind == 'e') unifex::set_error(std::move(r), std::make_exception_ptr(err{val}));
    else unifex::set_done(std::move(r));
  }
};
struct inl {
  template <template <typename...> class Variant, template <typename...> class Tuple>
  using value_types = Variant<Tuple<int>>;
  template <template <typename...> class Variant>
  using error_types = Variant<std::exception_ptr>;
  static constexpr bool sends_done = true;
  static constexpr unifex::blocking_kind blocking = unifex::blocking_kind::always_inline;
  static constexpr bool is_always_scheduler_affine = true;
  int id; char kind; int val;
  template <typename R>
  friend inl_op<unifex::remove_cvref_t<R>> tag_invoke(unifex::tag_t<unifex::connect>, const inl& s, R&& r) {
    return inl_op<unifex::remove_cvref_t<R>>{s.id, s.kind, s.val, (R&&)r};
  }
};

// ---- root receiver ---------------------------------------------------------------------------------------
struct root_receiver {
  k2::counting_token tok;
  AsyncStackFrame* frame = nullptr;     // non-null: the receiver has a frame of its own (sync_wait-like)
  void obs(const char* what) noexcept { log(as_tag() + "root " + what + " roots=" + roots_snapshot()); }
  void set_value(int v) && noexcept { ++k2::roots; log("root value " + std::to_string(v) + " regs=" + std::to_string(k2::live_regs)); obs("value"); }
  void set_error(std::exception_ptr e) && noexcept { ++k2::roots; log("root error " + std::to_string(k2::code_of(e)) + " regs=" + std::to_string(k2::live_regs)); obs("error"); }
  void set_done() && noexcept { ++k2::roots; log("root done regs=" + std::to_string(k2::live_regs)); obs("done"); }
  friend k2::counting_token tag_invoke(unifex::tag_t<unifex::get_stop_token>, const root_receiver& r) noexcept { return r.tok; }
};

// ---- observing adaptor (sync_wait / task cases, where the final receiver belongs to the library): forwards the
// three signals after recording a snapshot; one more operation in the op tree ("observe")
template <typename R>
struct obs_receiver {
  R r;
  void obs(const char* what) noexcept { log(as_tag() + "root " + what + " roots=" + roots_snapshot()); }
  void set_value(int v) && noexcept { obs("value"); unifex::set_value(std::move(r), (int)v); }
  void set_error(std::exception_ptr e) && noexcept { obs("error"); unifex::set_error(std::move(r), std::move(e)); }
  void set_done() && noexcept { obs("done"); unifex::set_done(std::move(r)); }
  template <typename CPO, std::enable_if_t<unifex::is_receiver_query_cpo_v<CPO> && std::is_invocable_v<CPO, const R&>, int> = 0>
  friend auto tag_invoke(CPO cpo, const obs_receiver& x) noexcept -> std::invoke_result_t<CPO, const R&> {
    return std::move(cpo)(x.r);
  }
#if UNIFEX_ENABLE_CONTINUATION_VISITATIONS
  template <typename Func>
  friend void tag_invoke(unifex::tag_t<unifex::visit_continuations>, const obs_receiver& x, Func&& f) {
    std::invoke(f, x.r);
  }
#endif
};
template <typename S>
struct obs_sender {
  template <template <typename...> class Variant, template <typename...> class Tuple>
  using value_types = Variant<Tuple<int>>;
  template <template <typename...> class Variant>
  using error_types = Variant<std::exception_ptr>;
  static constexpr bool sends_done = true;
  static constexpr unifex::blocking_kind blocking = unifex::blocking_kind::maybe;
  static constexpr bool is_always_scheduler_affine = false;
  S s;
  template <typename R>
  friend auto tag_invoke(unifex::tag_t<unifex::connect>, obs_sender&& self, R&& r) {
    return unifex::connect(std::move(self.s), obs_receiver<unifex::remove_cvref_t<R>>{(R&&)r});
  }
};
template <typename S> obs_sender<unifex::remove_cvref_t<S>> observe(S&& s) { return {(S&&)s}; }

// ---- running one case ------------------------------------------------------------------------------------
// direct monitors evaluated at quiescence (after the script): empty = all hold
inline std::string quiescence_monitor(AsyncStackRoot* before, bool completed) {
  std::string m;
  AsyncStackRoot* now = unifex::tryGetCurrentAsyncStackRoot();
  if (now != before) m += " ROOT-NOT-RESTORED";
  // every operation frame seen on any chain: not the top of the (restored) current roots; cached root pointer reported
  int stale = 0;
  if (!completed)            // the operation states are alive: their frames may be inspected
    for (auto* f : SEEN) if (f->stackRoot != nullptr) ++stale;
  for (AsyncStackRoot* r = now; r; r = r->nextRoot) {
    AsyncStackFrame* f = r->topFrame.load(std::memory_order_relaxed);
    if (f && SEEN.count(f)) m += " FRAME-STILL-ACTIVE";
  }
  return "stalecache=" + std::to_string(stale) + (m.empty() ? " ok" : m);
}

template <typename MakeSender>
std::string run_case(MakeSender mk, bool prestop, const std::vector<k2::script_ev>& script) {
  k2::LOG.clear(); k2::roots = 0; k2::live_regs = 0;
  FTOK.clear(); RTOK.clear(); SEEN.clear(); ADJ.clear();
  for (auto& c : CTL) c = leaf_ctl{};
  for (auto& r : READY) r.store(false);
  // heap allocated: a run whose script leaves the operation pending keeps its stop callbacks registered
  // (the debug configuration asserts in ~inplace_stop_source); such a run leaks its operation state and source
  auto* extp = new unifex::inplace_stop_source;
  auto& ext = *extp;
  if (prestop) ext.request_stop();
  AsyncStackRoot* before = unifex::tryGetCurrentAsyncStackRoot();
  using op_t = unifex::connect_result_t<decltype(mk()), root_receiver>;
  alignas(alignof(op_t) > 64 ? alignof(op_t) : 64) static unsigned char storage[sizeof(op_t) + 64];
  std::memset(storage, 0xAB, sizeof storage);
  op_t* op = ::new (static_cast<void*>(storage)) op_t(unifex::connect(mk(), root_receiver{k2::counting_token{ext.get_token()}}));
  unifex::start(*op);
  log(as_tag() + "idle roots=" + roots_snapshot());
  for (auto& ev : script) {
    if (ev.what == 'S') {
      if (ext.stop_requested()) log("skip"); else ext.request_stop();
    } else {
      auto& c = CTL[ev.id];
      if (c.started && !c.completed) { c.completed = true; c.complete_fn(c.op, ev.kind, ev.val); }
      else log("skip");
    }
    log(as_tag() + "idle roots=" + roots_snapshot());
  }
  log("as end " + quiescence_monitor(before, k2::roots > 0));
  if (k2::roots > 0) { op->~op_t(); delete extp; }
  std::string out;
  for (auto& l : k2::LOG) { if (!out.empty()) out += ";"; out += l; }
  return out + " # roots=" + std::to_string(k2::roots);
}

// ---- the same under sync_wait: thread 0 blocks in unifex::sync_wait (initial_stack_root path), thread 1
// delivers the script's completions (and afterwards completes whatever is still pending, so that sync_wait
// returns).  There is no external stop source (sync_wait's receiver has no stop token): 'S' events are skipped.
inline std::atomic<bool> FINISHED{false};
inline void completer(const std::vector<k2::script_ev>& script) {
  TID = 1;
  AsyncStackRoot* before = unifex::tryGetCurrentAsyncStackRoot();
  auto wait_ready = [](int id) {
    for (int i = 0; i < 400 && !FINISHED.load(); ++i) {
      if (READY[id].load(std::memory_order_acquire)) return true;
      std::this_thread::sleep_for(std::chrono::microseconds(250));
    }
    return READY[id].load(std::memory_order_acquire);
  };
  auto deliver = [&](int id, char kind, int val) {
    bool go = false;
    { std::lock_guard<std::recursive_mutex> g(MX);
      auto& c = CTL[id];
      if (c.started && !c.completed) { c.completed = true; go = true; } }
    if (go) { READY[id].store(false); CTL[id].complete_fn(CTL[id].op, kind, val); }
    else log("skip");
    log(as_tag() + "idle roots=" + roots_snapshot());
  };
  for (auto& ev : script) {
    if (FINISHED.load()) break;
    if (ev.what == 'S') { log("skip"); continue; }
    if (!wait_ready(ev.id)) { log("skip"); continue; }
    deliver(ev.id, ev.kind, ev.val);
  }
  // drain
  for (int round = 0; round < 2000 && !FINISHED.load(); ++round) {
    bool any = false;
    for (int id = 0; id < 16 && !FINISHED.load(); ++id)
      if (READY[id].load(std::memory_order_acquire)) { any = true; deliver(id, 'v', 1); }
    if (!any) std::this_thread::sleep_for(std::chrono::microseconds(250));
  }
  AsyncStackRoot* now = unifex::tryGetCurrentAsyncStackRoot();
  log(as_tag() + "end " + (now == before ? "ok" : "ROOT-NOT-RESTORED"));
}

template <typename MakeWaitable>
std::string run_two_threads(MakeWaitable wait, const std::vector<k2::script_ev>& script) {
  k2::LOG.clear(); k2::roots = 0; k2::live_regs = 0;
  FTOK.clear(); RTOK.clear(); SEEN.clear(); ADJ.clear();
  for (auto& c : CTL) c = leaf_ctl{};
  for (auto& r : READY) r.store(false);
  FINISHED.store(false);
  TID = 0;
  AsyncStackRoot* before = unifex::tryGetCurrentAsyncStackRoot();
  std::thread th([&] { completer(script); });
  std::string res = wait();
  FINISHED.store(true);
  th.join();
  log("root " + res);
  log("as end " + quiescence_monitor(before, true));
  std::string out;
  for (auto& l : k2::LOG) { if (!out.empty()) out += ";"; out += l; }
  return out + " # roots=1";
}

template <typename MakeSender>
std::string run_case_sync_wait(MakeSender mk, bool, const std::vector<k2::script_ev>& script) {
  return run_two_threads([&]() -> std::string {
    try {
      auto r = unifex::sync_wait(observe(mk()));
      return r ? "value " + std::to_string(*r) : std::string("done");
    } catch (const err& e) { return "error " + std::to_string(e.code); }
  }, script);
}

#if !UNIFEX_NO_COROUTINES
// a task<> awaiting the expression (await_transform / connect_awaitable path), run under sync_wait
template <typename Sender>
unifex::task<int> await_it(Sender s) {
  log("as coro before roots=" + roots_snapshot());
  int v = co_await std::move(s);
  log(as_tag() + "coro after roots=" + roots_snapshot());
  co_return v + 1;
}
template <typename MakeSender>
std::string run_case_task(MakeSender mk, bool, const std::vector<k2::script_ev>& script) {
  return run_two_threads([&]() -> std::string {
    try {
      auto r = unifex::sync_wait(await_it(observe(mk())));
      return r ? "value " + std::to_string(*r) : std::string("done");
    } catch (const err& e) { return "error " + std::to_string(e.code); }
  }, script);
}
#endif

}  // namespace k2as
