// verif_shim.hpp — force-included (g++ -include) in front of every translation unit of the
// correspondence harness, INCLUDING /repo's own sources.  It first includes the whole standard
// library, then defines instrumented look-alikes of std::atomic / mutex / condition_variable /
// thread / steady_clock / this_thread inside namespace std and finally #defines the standard names
// to the look-alikes, so that library code spelled `std::atomic<T>` instantiates the instrumented
// type.  No line of /repo changes.  Every instrumented operation is a yield point of dsched.
#pragma once
#ifndef VERIF_SHIM_HPP
#define VERIF_SHIM_HPP

#include <bits/stdc++.h>
#if __has_include(<coroutine>) && defined(__cpp_impl_coroutine)
#include <coroutine>
#endif
#include <fcntl.h>
#include <poll.h>
#include <pthread.h>
#include <sys/epoll.h>
#include <sys/eventfd.h>
#include <sys/mman.h>
#include <sys/socket.h>
#include <sys/syscall.h>
#include <sys/timerfd.h>
#include <sys/types.h>
#include <sys/uio.h>
#include <unistd.h>
#if __has_include(<linux/io_uring.h>)
#include <linux/io_uring.h>
#endif
#if __has_include(<linux/time_types.h>)
#include <linux/time_types.h>
#endif

#include "dsched.hpp"

namespace std {

namespace verif_detail {
template <class T>
inline std::uint64_t bits(const T& v) noexcept {
  std::uint64_t r = 0;
  if constexpr (sizeof(T) <= 8) std::memcpy(&r, &v, sizeof(T));
  if constexpr (std::is_integral_v<T> && std::is_signed_v<T> && sizeof(T) < 8) r = (std::uint64_t)(std::int64_t)v;
  return r;
}
}  // namespace verif_detail

template <class T>
struct verif_atomic {
  std::atomic<T> a_;
  using value_type = T;
  static constexpr bool is_always_lock_free = std::atomic<T>::is_always_lock_free;

  verif_atomic() noexcept = default;
  constexpr verif_atomic(T v) noexcept : a_(v) {}
  verif_atomic(const verif_atomic&) = delete;
  verif_atomic& operator=(const verif_atomic&) = delete;

  bool is_lock_free() const noexcept { return a_.is_lock_free(); }

  T load(std::memory_order o = std::memory_order_seq_cst) const noexcept {
    dsched::pre(&a_, dsched::K_LOAD, (int)o);
    T v = a_.load(o);
    dsched::post(&a_, dsched::K_LOAD, (int)o, 0, verif_detail::bits(v), true);
    return v;
  }
  void store(T v, std::memory_order o = std::memory_order_seq_cst) noexcept {
    dsched::pre(&a_, dsched::K_STORE, (int)o);
    a_.store(v, o);
    dsched::post(&a_, dsched::K_STORE, (int)o, 0, verif_detail::bits(v), true);
  }
  T exchange(T v, std::memory_order o = std::memory_order_seq_cst) noexcept {
    dsched::pre(&a_, dsched::K_XCHG, (int)o);
    T old = a_.exchange(v, o);
    dsched::post(&a_, dsched::K_XCHG, (int)o, verif_detail::bits(old), verif_detail::bits(v), true);
    return old;
  }
  bool compare_exchange_strong(T& expected, T desired, std::memory_order s, std::memory_order f) noexcept {
    dsched::pre(&a_, dsched::K_CAS, (int)s);
    T exp0 = expected;
    bool ok = a_.compare_exchange_strong(expected, desired, s, f);
    dsched::post(&a_, dsched::K_CAS, (int)(ok ? s : f), verif_detail::bits(ok ? exp0 : expected),
                 verif_detail::bits(desired), ok);
    return ok;
  }
  bool compare_exchange_strong(T& expected, T desired, std::memory_order o = std::memory_order_seq_cst) noexcept {
    return compare_exchange_strong(expected, desired, o, o == std::memory_order_acq_rel ? std::memory_order_acquire
                                   : o == std::memory_order_release ? std::memory_order_relaxed : o);
  }
  // weak is mapped to strong: no spurious failures under dsched
  bool compare_exchange_weak(T& e, T d, std::memory_order s, std::memory_order f) noexcept { return compare_exchange_strong(e, d, s, f); }
  bool compare_exchange_weak(T& e, T d, std::memory_order o = std::memory_order_seq_cst) noexcept { return compare_exchange_strong(e, d, o); }

#define VERIF_RMW(NAME, KIND, EXPR)                                                              \
  template <class U = T, class A = std::conditional_t<std::is_pointer_v<U>, std::ptrdiff_t, U>, \
            class = decltype(std::declval<std::atomic<U>&>().NAME(std::declval<A>()))>           \
  U NAME(A arg, std::memory_order o = std::memory_order_seq_cst) noexcept {                      \
    dsched::pre(&a_, dsched::KIND, (int)o);                                                      \
    U old = a_.NAME(arg, o);                                                                     \
    U nw = (U)(EXPR);                                                                            \
    dsched::post(&a_, dsched::KIND, (int)o, verif_detail::bits(old), verif_detail::bits(nw), true); \
    return old;                                                                                  \
  }
  VERIF_RMW(fetch_add, K_ADD, old + arg)
  VERIF_RMW(fetch_sub, K_SUB, old - arg)
#undef VERIF_RMW
#define VERIF_RMW_BIT(NAME, KIND, OP)                                                            \
  template <class U = T, class = decltype(std::declval<std::atomic<U>&>().NAME(std::declval<U>()))> \
  U NAME(T arg, std::memory_order o = std::memory_order_seq_cst) noexcept {                      \
    dsched::pre(&a_, dsched::KIND, (int)o);                                                      \
    U old = a_.NAME(arg, o);                                                                     \
    U nw = (U)(old OP arg);                                                                      \
    dsched::post(&a_, dsched::KIND, (int)o, verif_detail::bits(old), verif_detail::bits(nw), true); \
    return old;                                                                                  \
  }
  VERIF_RMW_BIT(fetch_or, K_OR, |)
  VERIF_RMW_BIT(fetch_and, K_AND, &)
  VERIF_RMW_BIT(fetch_xor, K_XOR, ^)
#undef VERIF_RMW_BIT

  operator T() const noexcept { return load(); }
  T operator=(T v) noexcept { store(v); return v; }
  template <class U = T, class = decltype(std::declval<std::atomic<U>&>()++)>
  U operator++(int) noexcept { return fetch_add(1); }
  template <class U = T, class = decltype(std::declval<std::atomic<U>&>()--)>
  U operator--(int) noexcept { return fetch_sub(1); }
  template <class U = T, class = decltype(++std::declval<std::atomic<U>&>())>
  U operator++() noexcept { return fetch_add(1) + 1; }
  template <class U = T, class = decltype(--std::declval<std::atomic<U>&>())>
  U operator--() noexcept { return fetch_sub(1) - 1; }
  template <class U = T, class = decltype(std::declval<std::atomic<U>&>() += std::declval<U>())>
  U operator+=(U v) noexcept { return fetch_add(v) + v; }
  template <class U = T, class = decltype(std::declval<std::atomic<U>&>() -= std::declval<U>())>
  U operator-=(U v) noexcept { return fetch_sub(v) - v; }
  template <class U = T, class = decltype(std::declval<std::atomic<U>&>() |= std::declval<U>())>
  U operator|=(T v) noexcept { return fetch_or(v) | v; }
  template <class U = T, class = decltype(std::declval<std::atomic<U>&>() &= std::declval<U>())>
  U operator&=(T v) noexcept { return fetch_and(v) & v; }
};

using verif_atomic_char = verif_atomic<char>;
using verif_atomic_bool = verif_atomic<bool>;
using verif_atomic_int = verif_atomic<int>;
using verif_atomic_uintptr_t = verif_atomic<std::uintptr_t>;
using verif_atomic_size_t = verif_atomic<std::size_t>;
using verif_atomic_uint32_t = verif_atomic<std::uint32_t>;
using verif_atomic_uint64_t = verif_atomic<std::uint64_t>;

inline void verif_atomic_thread_fence(std::memory_order o) noexcept {
  dsched::pre(nullptr, dsched::K_FENCE, (int)o);
  std::atomic_thread_fence(o);
  dsched::post(nullptr, dsched::K_FENCE, (int)o, 0, 0, true);
}

// ---- mutex ------------------------------------------------------------------------------------
class verif_mutex {
  std::mutex real_;
  bool locked_ = false;
  int owner_ = -1;
public:
  verif_mutex() noexcept = default;
  verif_mutex(const verif_mutex&) = delete;
  verif_mutex& operator=(const verif_mutex&) = delete;
  using native_handle_type = std::mutex::native_handle_type;
  void lock() {
    if (!dsched::active()) { real_.lock(); return; }
    dsched::pre(this, dsched::K_MLOCK, 0);
    while (locked_) dsched::block_until([this] { return !locked_; });
    locked_ = true; owner_ = dsched::self();
    dsched::post(this, dsched::K_MLOCK, 0, 0, 1, true);
  }
  bool try_lock() {
    if (!dsched::active()) return real_.try_lock();
    dsched::pre(this, dsched::K_MLOCK, 0);
    bool ok = !locked_;
    if (ok) { locked_ = true; owner_ = dsched::self(); }
    dsched::post(this, dsched::K_MLOCK, 0, ok ? 0 : 1, 1, ok);
    return ok;
  }
  void unlock() {
    if (!dsched::active()) { real_.unlock(); return; }
    dsched::pre(this, dsched::K_MUNLOCK, 0);
    locked_ = false; owner_ = -1;
    dsched::post(this, dsched::K_MUNLOCK, 0, 1, 0, true);
  }
  // used by verif_condition_variable (already holding the baton)
  void verif_release_() noexcept { locked_ = false; owner_ = -1; }
  bool verif_locked_() const noexcept { return locked_; }
  void verif_acquire_() noexcept { locked_ = true; owner_ = dsched::self(); }
  std::mutex& verif_real_() noexcept { return real_; }
};

class verif_recursive_mutex {
  std::recursive_mutex real_;
  int owner_ = -1;
  int depth_ = 0;
public:
  verif_recursive_mutex() noexcept = default;
  verif_recursive_mutex(const verif_recursive_mutex&) = delete;
  void lock() {
    if (!dsched::active()) { real_.lock(); return; }
    dsched::pre(this, dsched::K_MLOCK, 0);
    int me = dsched::self();
    while (depth_ > 0 && owner_ != me) dsched::block_until([this, me] { return depth_ == 0 || owner_ == me; });
    owner_ = me; ++depth_;
    dsched::post(this, dsched::K_MLOCK, 0, depth_ - 1, depth_, true);
  }
  bool try_lock() {
    if (!dsched::active()) return real_.try_lock();
    dsched::pre(this, dsched::K_MLOCK, 0);
    int me = dsched::self();
    bool ok = depth_ == 0 || owner_ == me;
    if (ok) { owner_ = me; ++depth_; }
    dsched::post(this, dsched::K_MLOCK, 0, 0, depth_, ok);
    return ok;
  }
  void unlock() {
    if (!dsched::active()) { real_.unlock(); return; }
    dsched::pre(this, dsched::K_MUNLOCK, 0);
    if (--depth_ == 0) owner_ = -1;
    dsched::post(this, dsched::K_MUNLOCK, 0, depth_ + 1, depth_, true);
  }
};

// ---- condition variable ---------------------------------------------------------------------------
class verif_condition_variable {
  std::condition_variable_any real_;
  std::uint64_t next_ticket_ = 0;      // tickets handed to waiters
  std::uint64_t notified_upto_ = 0;    // tickets < this have been notified
public:
  verif_condition_variable() = default;
  verif_condition_variable(const verif_condition_variable&) = delete;

  void notify_one() noexcept {
    if (!dsched::active()) { real_.notify_one(); return; }
    dsched::pre(this, dsched::K_CVNOTIFY, 0);
    if (notified_upto_ < next_ticket_) ++notified_upto_;
    dsched::post(this, dsched::K_CVNOTIFY, 0, 0, 1, true);
  }
  void notify_all() noexcept {
    if (!dsched::active()) { real_.notify_all(); return; }
    dsched::pre(this, dsched::K_CVNOTIFY, 0);
    notified_upto_ = next_ticket_;
    dsched::post(this, dsched::K_CVNOTIFY, 0, 0, 2, true);
  }
  template <class Lock>
  void wait(Lock& lk) {
    if (!dsched::active()) { real_.wait(lk); return; }
    wait_impl(lk, -1);
  }
  template <class Lock, class Pred>
  void wait(Lock& lk, Pred p) { while (!p()) wait(lk); }
  template <class Lock, class Clock, class Dur>
  std::cv_status wait_until(Lock& lk, const std::chrono::time_point<Clock, Dur>& tp) {
    if (!dsched::active()) return real_.wait_until(lk, std::chrono::steady_clock::now() + std::chrono::milliseconds(1));
    std::int64_t dl = std::chrono::duration_cast<std::chrono::nanoseconds>(tp.time_since_epoch()).count();
    return wait_impl(lk, dl < 0 ? 0 : dl) ? std::cv_status::no_timeout : std::cv_status::timeout;
  }
  template <class Lock, class Clock, class Dur, class Pred>
  bool wait_until(Lock& lk, const std::chrono::time_point<Clock, Dur>& tp, Pred p) {
    while (!p()) if (wait_until(lk, tp) == std::cv_status::timeout) return p();
    return true;
  }
  template <class Lock, class Rep, class Period>
  std::cv_status wait_for(Lock& lk, const std::chrono::duration<Rep, Period>& d) {
    if (!dsched::active()) return real_.wait_for(lk, d);
    std::int64_t dl = dsched::now_ns() + std::chrono::duration_cast<std::chrono::nanoseconds>(d).count();
    return wait_impl(lk, dl) ? std::cv_status::no_timeout : std::cv_status::timeout;
  }
  template <class Lock, class Rep, class Period, class Pred>
  bool wait_for(Lock& lk, const std::chrono::duration<Rep, Period>& d, Pred p) {
    while (!p()) if (wait_for(lk, d) == std::cv_status::timeout) return p();
    return true;
  }
private:
  template <class Lock>
  bool wait_impl(Lock& lk, std::int64_t deadline) {
    dsched::pre(this, dsched::K_CVWAIT, 0);
    std::uint64_t my = next_ticket_++;
    auto* m = lk.mutex();
    m->verif_release_();                                   // atomically release + enqueue
    dsched::post(this, dsched::K_CVWAIT, 0, 0, my, true);
    dsched::post(m, dsched::K_MUNLOCK, 0, 1, 0, true);
    bool ok = dsched::block_until([this, my] { return my < notified_upto_; }, deadline);
    if (!ok && my >= notified_upto_) {
      // timed out: leave the wait-set (tickets are ordered; compact by treating ours as consumed)
      // simplest sound choice: a later notify_one may be "spent" on this ticket only if it is the oldest
      if (my == notified_upto_) ++notified_upto_;
    }
    // re-acquire the mutex
    dsched::pre(m, dsched::K_MLOCK, 0);
    while (m->verif_locked_()) dsched::block_until([m] { return !m->verif_locked_(); });
    m->verif_acquire_();
    dsched::post(m, dsched::K_MLOCK, 0, 0, 1, true);
    return ok;
  }
};

// ---- clock ------------------------------------------------------------------------------------------
namespace chrono {
struct verif_steady_clock {
  using rep = std::int64_t;
  using period = std::nano;
  using duration = std::chrono::nanoseconds;
  using time_point = std::chrono::time_point<verif_steady_clock, duration>;
  static constexpr bool is_steady = true;
  static time_point now() noexcept {
    if (!dsched::active())
      return time_point(std::chrono::duration_cast<duration>(std::chrono::steady_clock::now().time_since_epoch()));
    return time_point(duration(dsched::now_ns()));
  }
};
}  // namespace chrono

// ---- threads ----------------------------------------------------------------------------------------
class verif_thread {
  std::thread real_;
  int vt_ = -1;
  std::shared_ptr<std::thread::id> vid_;
public:
  using id = std::thread::id;
  using native_handle_type = std::thread::native_handle_type;
  verif_thread() noexcept = default;
  verif_thread(verif_thread&& o) noexcept : real_(std::move(o.real_)), vt_(o.vt_), vid_(std::move(o.vid_)) { o.vt_ = -1; }
  verif_thread& operator=(verif_thread&& o) noexcept {
    real_ = std::move(o.real_); vt_ = o.vt_; vid_ = std::move(o.vid_); o.vt_ = -1; return *this;
  }
  verif_thread(const verif_thread&) = delete;
  template <class F, class... A, class = std::enable_if_t<!std::is_same_v<std::decay_t<F>, verif_thread>>>
  explicit verif_thread(F&& f, A&&... a) {
    if (!dsched::active()) { real_ = std::thread(std::forward<F>(f), std::forward<A>(a)...); return; }
    dsched::pre(this, dsched::K_SPAWN, 0);
    vid_ = std::make_shared<std::thread::id>();
    auto vid = vid_;
    auto fn = std::make_shared<std::decay_t<F>>(std::forward<F>(f));
    auto args = std::make_shared<std::tuple<std::decay_t<A>...>>(std::forward<A>(a)...);
    vt_ = dsched::spawn([vid, fn, args] { *vid = std::this_thread::get_id(); std::apply(std::move(*fn), std::move(*args)); });
    dsched::post(this, dsched::K_SPAWN, 0, 0, vt_, true);
  }
  ~verif_thread() { if (vt_ < 0 && real_.joinable()) std::terminate(); }
  bool joinable() const noexcept { return vt_ >= 0 || real_.joinable(); }
  id get_id() const noexcept {
    if (vt_ < 0) return real_.get_id();
    // the spawned thread publishes its real id when it first runs; make sure it has
    if (*vid_ == std::thread::id{}) { auto v = vid_; dsched::block_until([v] { return *v != std::thread::id{}; }); }
    return *vid_;
  }
  void join() {
    if (vt_ < 0) { real_.join(); return; }
    dsched::pre(this, dsched::K_JOIN, 0);
    int t = vt_;
    dsched::block_until([t] { return dsched::thread_done(t); });
    dsched::post(this, dsched::K_JOIN, 0, 0, t, true);
    vt_ = -1;
  }
  void detach() { if (vt_ < 0) real_.detach(); else vt_ = -1; }
  static unsigned hardware_concurrency() noexcept { return 2; }
};

namespace verif_this_thread {
inline std::thread::id get_id() noexcept { return std::this_thread::get_id(); }
inline void yield() noexcept { dsched::yield_now(); }
template <class Clock, class Dur>
inline void sleep_until(const std::chrono::time_point<Clock, Dur>& tp) {
  if (!dsched::active()) { std::this_thread::sleep_for(std::chrono::milliseconds(1)); return; }
  std::int64_t dl = std::chrono::duration_cast<std::chrono::nanoseconds>(tp.time_since_epoch()).count();
  dsched::pre(nullptr, dsched::K_CLOCK, 0);
  if (dl > dsched::now_ns()) dsched::block_until([] { return false; }, dl);
}
template <class Rep, class Period>
inline void sleep_for(const std::chrono::duration<Rep, Period>& d) {
  if (!dsched::active()) { std::this_thread::sleep_for(d); return; }
  std::int64_t dl = dsched::now_ns() + std::chrono::duration_cast<std::chrono::nanoseconds>(d).count();
  dsched::pre(nullptr, dsched::K_CLOCK, 0);
  dsched::block_until([] { return false; }, dl);
}
}  // namespace verif_this_thread

}  // namespace std

#ifndef VERIF_SHIM_NO_RENAME
#define atomic verif_atomic
#define atomic_char verif_atomic_char
#define atomic_bool verif_atomic_bool
#define atomic_int verif_atomic_int
#define atomic_uintptr_t verif_atomic_uintptr_t
#define atomic_size_t verif_atomic_size_t
#define atomic_uint32_t verif_atomic_uint32_t
#define atomic_uint64_t verif_atomic_uint64_t
#define atomic_thread_fence verif_atomic_thread_fence
#define mutex verif_mutex
#define recursive_mutex verif_recursive_mutex
#define condition_variable verif_condition_variable
#define thread verif_thread
#define this_thread verif_this_thread
#define steady_clock verif_steady_clock
#endif

#endif  // VERIF_SHIM_HPP
