// k2t.hpp — harness for the K2 differential of COROUTINE TASKS (property C10, C++20).
// Generated translation units (tools/k2t.py) define coroutine lambdas returning unifex::task<int>
// over the pieces defined here (tracked locals, frame tags, cleanup markers, scripted leaves, a
// plain awaitable), connect the task as a sender to the root receiver, feed an event script and
// print the observable trace in the format of the TCalc model (ocaml handler "tcalc").
#pragma once
#include <unifex/task.hpp>
#include <unifex/at_coroutine_exit.hpp>
#include <unifex/connect_awaitable.hpp>
#include <unifex/await_transform.hpp>
#include <unifex/inline_scheduler.hpp>
#include <unifex/inplace_stop_token.hpp>
#include <unifex/manual_lifetime.hpp>
#include <unifex/sender_concepts.hpp>
#include <unifex/receiver_concepts.hpp>
#include <unifex/get_stop_token.hpp>
#include <unifex/scheduler_concepts.hpp>
#include <unifex/blocking.hpp>
#include <unifex/just.hpp>
#include <unifex/then.hpp>

#include <cstdio>
#include <cstdlib>
#include <cstring>
#include <exception>
#include <iostream>
#include <new>
#include <sstream>
#include <string>
#include <vector>

namespace k2t {

// ---- log without heap allocation (heap blocks are counted, see below) ------------------------------
inline char LOGBUF[1 << 16];
inline std::size_t LOGLEN = 0;
inline void log(const char* s) {
  std::size_t n = std::strlen(s);
  if (LOGLEN + n + 2 >= sizeof LOGBUF) return;
  if (LOGLEN) LOGBUF[LOGLEN++] = ';';
  std::memcpy(LOGBUF + LOGLEN, s, n);
  LOGLEN += n;
  LOGBUF[LOGLEN] = 0;
}
inline void logf(const char* fmt, int a = 0, int b = 0, int c = 0) {
  char buf[96];
  std::snprintf(buf, sizeof buf, fmt, a, b, c);
  log(buf);
}

// ---- live heap blocks (coroutine frames, type-erased schedulers, ...): must return to the baseline --
inline long live_blocks = 0;

struct err { int code; };
inline int code_of(std::exception_ptr ep) {
  try { std::rethrow_exception(ep); } catch (const err& e) { return e.code; } catch (...) { return -777; }
}

// ---- frame tag: passed BY VALUE to every generated task coroutine; the copy living in the coroutine
// frame (parameter copy) is destroyed exactly when the frame is destroyed -------------------------------
inline int next_frame = 0;
struct frame_tag {
  int n;
  bool live;
  frame_tag() : n(next_frame++), live(true) { logf("frame %d", n); }
  frame_tag(frame_tag&& o) noexcept : n(o.n), live(o.live) { o.live = false; }
  frame_tag(const frame_tag&) = delete;
  ~frame_tag() { if (live) logf("framedtor %d", n); }
};

// ---- tracked local ---------------------------------------------------------------------------------------
struct local {
  int f, id;
  local(int f_, int id_) : f(f_), id(id_) { logf("ctor %d %d", f, id); }
  local(const local&) = delete;
  ~local() { logf("dtor %d %d", f, id); }
};

// ---- stop token of the root receiver: NOT inplace_stop_token itself, so that task's awaiter goes through
// inplace_stop_token_adapter ---------------------------------------------------------------------------------
struct token {
  unifex::inplace_stop_token tok;
  template <typename F>
  struct callback_type {
    unifex::inplace_stop_callback<F> inner;
    template <typename F2>
    explicit callback_type(token t, F2&& f) : inner(t.tok, (F2&&)f) {}
  };
  bool stop_requested() const noexcept { return tok.stop_requested(); }
  bool stop_possible() const noexcept { return tok.stop_possible(); }
};

// ---- scripted leaves -------------------------------------------------------------------------------------
struct leaf_ctl {
  void* op = nullptr;
  void (*complete_fn)(void*, char, int) = nullptr;
  bool started = false, completed = false;
  bool no_done = false;   // a plain awaitable cannot complete with done
};
inline leaf_ctl CTL[32];

inline void log_complete(int id, char kind, int v) {
  if (kind == 'v') logf("leafdone %d value %d", id, v);
  else if (kind == 'e') logf("leafdone %d error %d", id, v);
  else logf("leafdone %d done", id);
}

template <typename Receiver>
struct leaf_op {
  struct cb {
    leaf_op* self;
    void operator()() noexcept {
      logf("stopseen %d", self->id);
      if (self->reactive) { CTL[self->id].completed = true; do_complete(self, 'd', 0); }
    }
  };
  using token_t = unifex::stop_token_type_t<Receiver&>;
  using cb_t = typename token_t::template callback_type<cb>;
  int id; bool reactive;
  Receiver r;
  unifex::manual_lifetime<cb_t> stopcb;
  bool cb_live = false;

  void start() noexcept {
    auto& c = CTL[id];
    c.op = this; c.complete_fn = &do_complete; c.started = true; c.completed = false;
    auto tok = unifex::get_stop_token(r);
    logf("start %d stopped=%d stoppable=%d", id, (int)tok.stop_requested(), (int)tok.stop_possible());
    if (reactive && tok.stop_requested()) {   // would complete from inside the callback's constructor
      logf("stopseen %d", id);
      c.completed = true;
      do_complete(this, 'd', 0);
      return;
    }
    cb_live = true;
    stopcb.construct(tok, cb{this});   // may run the callback inline (only logs for a non-reactive leaf)
  }
  static void do_complete(void* p, char kind, int v) {
    auto* self = static_cast<leaf_op*>(p);
    log_complete(self->id, kind, v);
    if (self->cb_live) { self->cb_live = false; self->stopcb.destruct(); }
    if (kind == 'v') unifex::set_value(std::move(self->r), (int)v);
    else if (kind == 'e') unifex::set_error(std::move(self->r), std::make_exception_ptr(err{v}));
    else unifex::set_done(std::move(self->r));
  }
};

struct leaf {
  template <template <typename...> class Variant, template <typename...> class Tuple>
  using value_types = Variant<Tuple<int>>;
  template <template <typename...> class Variant>
  using error_types = Variant<std::exception_ptr>;
  static constexpr bool sends_done = true;
  static constexpr unifex::blocking_kind blocking = unifex::blocking_kind::maybe;
  static constexpr bool is_always_scheduler_affine = false;
  int id; bool reactive;
  template <typename R>
  friend leaf_op<unifex::remove_cvref_t<R>> tag_invoke(unifex::tag_t<unifex::connect>, const leaf& s, R&& r) {
    return leaf_op<unifex::remove_cvref_t<R>>{s.id, s.reactive, (R&&)r};
  }
};

// ---- inline completing sender: value int / error exception_ptr / done -------------------------------
template <typename Receiver>
struct inl_op {
  char kind; int val; Receiver r;
  void start() noexcept {
    if (kind == 'v') unifex::set_value(std::move(r), (int)val);
    else if (kind == 'e') unifex::set_error(std::move(r), std::make_exception_ptr(err{val}));
    else unifex::set_done(std::move(r));
  }
};
struct inl {
  template <template <typename...> class Variant, template <typename...> class Tuple>
  using value_types = Variant<Tuple<int>>;
  template <template <typename...> class Variant>
  using error_types = Variant<std::exception_ptr>;
  static constexpr bool sends_done = true;
  static constexpr unifex::blocking_kind blocking = unifex::blocking_kind::always_inline;
  static constexpr bool is_always_scheduler_affine = true;
  char kind; int val;
  template <typename R>
  friend inl_op<unifex::remove_cvref_t<R>> tag_invoke(unifex::tag_t<unifex::connect>, const inl& s, R&& r) {
    return inl_op<unifex::remove_cvref_t<R>>{s.kind, s.val, (R&&)r};
  }
};

// ---- a plain awaitable (not a sender): a task awaits it through
//      await_transform -> as_sender -> with_scheduler_affinity -> connect_awaitable -> await_transform ----
struct aw {
  char kind; int val;   // 'v' value / 'e' throws err{val} from await_resume
  bool await_ready() const noexcept { return false; }
  bool await_suspend(unifex::coro::coroutine_handle<>) const noexcept { return false; }   // resumes at once
  int await_resume() const { if (kind == 'e') throw err{val}; return val; }
};
// the same, but always suspending and resumed later by the script (id shares the leaf table)
struct aw_leaf {
  int id;
  char kind = 'v'; int val = 0;
  unifex::coro::coroutine_handle<> h{};
  bool await_ready() const noexcept { return false; }
  void await_suspend(unifex::coro::coroutine_handle<> hh) noexcept {
    h = hh;
    auto& c = CTL[id];
    c.op = this; c.started = true; c.completed = false; c.no_done = true;
    c.complete_fn = [](void* p, char k, int v) {
      auto* self = static_cast<aw_leaf*>(p);
      log_complete(self->id, k, v);
      self->kind = k; self->val = v;
      self->h.resume();
    };
    logf("awstart %d", id);
  }
  int await_resume() const { if (kind == 'e') throw err{val}; return val; }
};

// ---- root receiver ---------------------------------------------------------------------------------------
inline int roots = 0;
struct root_receiver {
  token tok;
  void set_value(int v) && noexcept { ++roots; logf("root value %d", v); }
  void set_error(std::exception_ptr e) && noexcept { ++roots; logf("root error %d", code_of(e)); }
  void set_done() && noexcept { ++roots; log("root done"); }
  friend token tag_invoke(unifex::tag_t<unifex::get_stop_token>, const root_receiver& r) noexcept { return r.tok; }
  friend unifex::inline_scheduler tag_invoke(unifex::tag_t<unifex::get_scheduler>, const root_receiver&) noexcept { return {}; }
};

// ---- cleanup actions: co_await at_coroutine_exit(k2t::cleanup_fn, f, c, leafid) -----------------------
// The action is a task<void> coroutine: logs, optionally awaits a leaf (its value is ignored; error or
// done inside a cleanup action is std::terminate by design), logs the end.
inline unifex::task<void> cleanup_fn(int f, int c, int leafid) {
  logf("cleanup %d %d", f, c);
  if (leafid >= 0) (void)co_await leaf{leafid, false};
  logf("cleanupend %d %d", f, c);
  co_return;
}

// ---- running one case -------------------------------------------------------------------------------------
struct script_ev { char what; int id; char kind; int val; };   // 'L' leaf completion, 'S' stop
inline std::vector<script_ev> parse_script(std::istream& is) {
  std::vector<script_ev> s; std::string tok;
  while (is >> tok) {
    if (tok == "S") { s.push_back({'S', 0, 0, 0}); continue; }
    auto colon = tok.find(':');
    int id = std::stoi(tok.substr(1, colon - 1));
    char k = tok[colon + 1];
    int v = tok.size() > colon + 2 ? std::stoi(tok.substr(colon + 2)) : 0;
    s.push_back({'L', id, k, v});
  }
  return s;
}

template <typename MakeSender>
std::string run_case(MakeSender mk, bool prestop, const std::vector<script_ev>& script) {
  LOGLEN = 0; LOGBUF[0] = 0; roots = 0; next_frame = 0;
  for (auto& c : CTL) c = leaf_ctl{};
  long base = live_blocks;
  long after = 0;
  {
    unifex::inplace_stop_source ext;
    if (prestop) { log("stop"); ext.request_stop(); }
    using op_t = unifex::connect_result_t<decltype(mk()), root_receiver>;
    alignas(alignof(op_t) > 64 ? alignof(op_t) : 64) static unsigned char storage[sizeof(op_t) + 64];
    std::memset(storage, 0xAB, sizeof storage);
    op_t* op = ::new (static_cast<void*>(storage)) op_t(unifex::connect(mk(), root_receiver{token{ext.get_token()}}));
    unifex::start(*op);
    for (auto& ev : script) {
      if (ev.what == 'S') {
        if (ext.stop_requested()) log("skip"); else { log("stop"); ext.request_stop(); }
      } else {
        auto& c = CTL[ev.id];
        if (c.started && !c.completed && !(ev.kind == 'd' && c.no_done)) { c.completed = true; c.complete_fn(c.op, ev.kind, ev.val); }
        else log("skip");
      }
    }
    if (roots > 0) { log("opdtor"); op->~op_t(); }
    after = live_blocks - base;
  }
  std::string out(LOGBUF, LOGLEN);
  out += " # roots=" + std::to_string(roots);
  if (roots > 0) out += " live=" + std::to_string(after);
  return out;
}

using case_fn = std::string (*)(bool, const std::vector<script_ev>&);

inline int main_loop(case_fn* cases, int ncases) {
  std::string line;
  while (std::getline(std::cin, line)) {
    std::istringstream is(line);
    int idx, prestop; std::string bar;
    is >> idx >> prestop >> bar;
    auto script = parse_script(is);
    if (idx < 0 || idx >= ncases) { std::cout << "ERR index\n"; continue; }
    std::cout << cases[idx](prestop != 0, script) << "\n";
    std::cout.flush();
  }
  return 0;
}

}  // namespace k2t

// global allocation functions replaced for this executable (one TU per executable): count live blocks
void* operator new(std::size_t n) {
  void* p = std::malloc(n ? n : 1);
  if (!p) throw std::bad_alloc();
  ++k2t::live_blocks;
  return p;
}
void operator delete(void* p) noexcept { if (p) { --k2t::live_blocks; std::free(p); } }
void operator delete(void* p, std::size_t) noexcept { if (p) { --k2t::live_blocks; std::free(p); } }
