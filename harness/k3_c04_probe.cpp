// k3_c04_probe.cpp - deterministic probes of stop-callback hygiene on fault paths (property C04: "every stop callback an
// algorithm registered on its receiver's token is deregistered before that receiver is completed"), cfg plain17.
// Each probe prints one line  `<name> completion=<v|e|d|-> live_rcv=<n> live_ext=<n> after=<n>`:
//   completion  what the receiver got ('-' nothing)
//   live_rcv    callbacks still registered on the receiver's inplace_stop_source at the instant of completion
//   live_ext    callbacks of the probe's own (counting, possibly throwing) stop tokens still alive at that instant
//   after       callbacks the algorithm's stop callback ran when the receiver's source was stopped AFTER the completion
//               (a callback that runs then touches a finished operation)
// tools/props/c04.py turns every line with live_rcv != 0, live_ext != 0, after != 0 or an unexpected completion into a
// violation (key c04probe/<name>/...).
#include <unifex/let_value_with_stop_token.hpp>
#include <unifex/stop_on_request.hpp>
#include <unifex/inplace_stop_token.hpp>
#include <unifex/manual_lifetime.hpp>
#include <unifex/receiver_concepts.hpp>
#include <unifex/sender_concepts.hpp>

#include <cstdio>
#include <functional>
#include <exception>
#include <stdexcept>
#include <string>

using namespace unifex;

namespace {

// live registrations on an inplace_stop_source (private member, the driver is built with -fno-access-control)
int live_on(inplace_stop_source& s) {
  int n = 0;
  for (auto* c = s.callbacks_; c != nullptr; c = c->next_) ++n;
  return n;
}

struct tok_state {
  int live = 0;       // callbacks of this token currently alive
  int budget = -1;    // > 0: the budget-th callback construction on this token throws
  int invoked = 0;
};

// a stop token whose callback registration can throw; it never requests stop
struct ttoken {
  tok_state* st;
  template <typename F>
  struct callback_type {
    tok_state* st;
    template <typename F2>
    explicit callback_type(ttoken t, F2&&) : st(t.st) {
      if (st->budget > 0 && --st->budget == 0) throw std::runtime_error("registration");
      ++st->live;
    }
    callback_type(callback_type&&) = delete;
    ~callback_type() { --st->live; }
  };
  bool stop_requested() const noexcept { return false; }
  bool stop_possible() const noexcept { return true; }
};

struct Rec {
  char completion = '-';
  int live_rcv = -1, live_ext = -1;
  inplace_stop_source* src;
  tok_state* ext[3] = {nullptr, nullptr, nullptr};
  void note(char c) {
    completion = c;
    live_rcv = live_on(*src);
    live_ext = 0;
    for (auto* e : ext) if (e) live_ext += e->live;
  }
};
struct receiver {
  Rec* rec;
  void set_value() && noexcept { rec->note('v'); }
  template <typename E> void set_error(E&&) && noexcept { rec->note('e'); }
  void set_done() && noexcept { rec->note('d'); }
  friend inplace_stop_token tag_invoke(tag_t<get_stop_token>, const receiver& r) noexcept { return r.rec->src->get_token(); }
};

// ---- a child that remembers the stop token it was given and completes when the probe says so -------------------
struct tok_ctl {
  inplace_stop_token seen_tok;
  bool started = false, stopped_at_start = false;
  std::function<void(char)> complete;
};
template <typename R>
struct tok_op {
  R r; tok_ctl* c;
  void start() noexcept {
    c->started = true;
    c->seen_tok = unifex::get_stop_token(r);
    c->stopped_at_start = c->seen_tok.stop_requested();
    c->complete = [this](char k) {
      if (k == 'd') unifex::set_done(std::move(r)); else unifex::set_value(std::move(r));
    };
  }
};
struct tok_sender {
  template <template <typename...> class Variant, template <typename...> class Tuple>
  using value_types = Variant<Tuple<>>;
  template <template <typename...> class Variant>
  using error_types = Variant<std::exception_ptr>;
  static constexpr bool sends_done = true;
  tok_ctl* c;
  template <typename R>
  friend tok_op<remove_cvref_t<R>> tag_invoke(tag_t<unifex::connect>, const tok_sender& s, R&& r) {
    return tok_op<remove_cvref_t<R>>{(R&&)r, s.c};
  }
};

// a receiver whose stop token is NOT inplace_stop_token itself (a thin wrapper): algorithms that special-case
// inplace_stop_token (let_value_with_stop_token passes it through) take their general path (fused_stop_source)
struct wtoken {
  inplace_stop_token t;
  template <typename F>
  struct callback_type {
    inplace_stop_callback<F> cb;
    template <typename F2>
    explicit callback_type(wtoken w, F2&& f) : cb(w.t, (F2&&)f) {}
  };
  bool stop_requested() const noexcept { return t.stop_requested(); }
  bool stop_possible() const noexcept { return t.stop_possible(); }
};
struct wreceiver {
  Rec* rec;
  void set_value() && noexcept { rec->note('v'); }
  template <typename E> void set_error(E&&) && noexcept { rec->note('e'); }
  void set_done() && noexcept { rec->note('d'); }
  friend wtoken tag_invoke(tag_t<get_stop_token>, const wreceiver& r) noexcept { return wtoken{r.rec->src->get_token()}; }
};

// let_value_with_stop_token: the successor gets an inplace_stop_token that follows the receiver's token.
// prestop: the receiver's source is stopped before start; otherwise it is stopped while the child runs.
template <typename Receiver>
void run_lvst(const char* name, bool prestop, char child_outcome, bool nostop = false) {
  inplace_stop_source src;
  Rec rec; rec.src = &src;
  tok_ctl c;
  inplace_stop_token handed;
  if (prestop) src.request_stop();
  {
    auto op = unifex::connect(
        let_value_with_stop_token([&](inplace_stop_token t) noexcept { handed = t; return tok_sender{&c}; }),
        Receiver{&rec});
    unifex::start(op);
    bool seen_before = c.seen_tok.stop_requested() || handed.stop_requested();
    if (!prestop && !nostop) src.request_stop();
    bool seen = c.started && (handed.stop_requested() || nostop);
    if (c.complete) c.complete(child_outcome);
    int after = rec.completion != '-' ? live_on(src) : -1;
    // seen: the stop request on the receiver's token was visible through the token handed to the successor factory
    std::printf("%s completion=%c live_rcv=%d live_ext=%d after=%d seen=%d early=%d\n", name, rec.completion, rec.live_rcv, 0, after,
                (int)seen, (int)(!prestop && seen_before));
    std::fflush(stdout);
  }
}

template <typename Make>
void run(const char* name, Rec& rec, Make make) {
  inplace_stop_source src;
  rec.src = &src;
  {
    auto op = unifex::connect(make(), receiver{&rec});
    unifex::start(op);
    int after = 0;
    if (rec.completion != '-') {
      // the operation is finished: a stop request on the receiver's source must find nothing of it
      after = live_on(src);
      if (after == 0) src.request_stop();
    }
    std::printf("%s completion=%c live_rcv=%d live_ext=%d after=%d\n", name, rec.completion, rec.live_rcv, rec.live_ext, after);
    std::fflush(stdout);
    if (rec.completion == '-' || after != 0) std::_Exit(0);   // tearing a pending / still registered operation down is not part of the probe
  }
}

}  // namespace

int main() {
  // stop_on_request over 1..3 external tokens, the k-th external registration throws (k counts across tokens left to right);
  // nothing was stopped: the documented completion is set_error, with the receiver's callback and every already constructed
  // external callback gone
  for (int n = 1; n <= 3; ++n) {
    for (int k = 1; k <= n; ++k) {
      tok_state st[3];
      st[k - 1].budget = 1;
      Rec rec;
      for (int i = 0; i < n; ++i) rec.ext[i] = &st[i];
      std::string name = "sor_throw_n" + std::to_string(n) + "_k" + std::to_string(k);
      if (n == 1) run(name.c_str(), rec, [&] { return stop_on_request(ttoken{&st[0]}); });
      if (n == 2) run(name.c_str(), rec, [&] { return stop_on_request(ttoken{&st[0]}, ttoken{&st[1]}); });
      if (n == 3) run(name.c_str(), rec, [&] { return stop_on_request(ttoken{&st[0]}, ttoken{&st[1]}, ttoken{&st[2]}); });
    }
  }
  // mixed: a real inplace token first (already stopped: its callback runs inline during registration), then a throwing one:
  // a stop was received before the error -> done
  {
    tok_state st;
    st.budget = 1;
    inplace_stop_source pre;
    pre.request_stop();
    Rec rec;
    rec.ext[0] = &st;
    run("sor_prestopped_then_throw", rec, [&] { return stop_on_request(pre.get_token(), ttoken{&st}); });
  }
  run_lvst<struct receiver>("lvst_stop_while_running_d", false, 'd');
  run_lvst<struct receiver>("lvst_stop_while_running_v", false, 'v');
  run_lvst<struct receiver>("lvst_prestopped_d", true, 'd');
  run_lvst<wreceiver>("lvstw_stop_while_running_d", false, 'd');
  run_lvst<wreceiver>("lvstw_stop_while_running_v", false, 'v');
  run_lvst<wreceiver>("lvstw_prestopped_d", true, 'd');
  // no stop request at all: the registration made in start() must be gone when the receiver is completed
  run_lvst<struct receiver>("lvst_nostop_v", false, 'v', true);
  run_lvst<wreceiver>("lvstw_nostop_v", false, 'v', true);
  run_lvst<wreceiver>("lvstw_nostop_d", false, 'd', true);
  std::printf("END\n");
  return 0;
}
