// K1 driver: the real unifex::v2::async_scope.
// program: <spawners: string over s,d,c,n> <joiners: string over j>
//   s  nest(leaf), connect (rvalue) + start on thread A_i; the leaf is completed on thread C_i
//   d  nest(leaf) and drop the sender unstarted                       (one reference)
//   c  nest(leaf) [reference a], connect(const&) [reference b = copy of a] + start, drop the
//      sender [release a]; the leaf is completed on thread C_i [release b]   (two references)
//   n  like s, but the spawner waits until some join has been started before it calls nest()
//      (a nest after the close: must complete done without starting its leaf)
//   x  nest(throwing_leaf) then connect: the nested sender's connect() throws on an admitted
//      sender (the caller catches; the half-built nest op must give its reference back); a rejected
//      sender connects fine, is started and completes with done
//   j  connect + start scope.join(); the continuation runs on the joiner's own thread
//   r  call scope.end_scope() and return (what v1's request_stop() does to its v2 scope)
// Every scope_reference is one model spawner ("ref k"); `!ref k` markers tell the projection which
// reference the following accesses of the thread belong to.
// The owner (thread 0) destroys the scope once every nest() call has returned and every started
// join has completed; the monitor flags any later access to the scope's memory.
#include <unifex/v2/async_scope.hpp>
#include "k1_scope_common.hpp"
using namespace unifex;

struct Shared {
  manual_lifetime<v2::async_scope> scope;
  static constexpr int MAXS = 6, MAXJ = 3;
  vh::leaf_ctl ctl[MAXS];
  vh::root_state root[MAXS];
  bool nested[MAXS] = {};     // the spawner's nest() call(s) have returned
  bool rejected[MAXS] = {};   // nest() was rejected: the leaf will never start
  bool leaf_done[MAXS] = {};
  using nest_t = decltype(std::declval<v2::async_scope&>().nest(vh::leaf{nullptr}));
  using op_rv_t = connect_result_t<nest_t, vh::root_receiver<>>;
  using op_cr_t = connect_result_t<const nest_t&, vh::root_receiver<>>;
  manual_lifetime<op_rv_t> op_rv[MAXS];
  manual_lifetime<op_cr_t> op_cr[MAXS];
  using nest_x_t = decltype(std::declval<v2::async_scope&>().nest(sc::throwing_leaf{0}));
  manual_lifetime<connect_result_t<nest_x_t, vh::root_receiver<>>> op_x[MAXS];
  sc::run_ctl rc;
  using join_t = decltype(std::declval<v2::async_scope&>().join());
  using jop_t = connect_result_t<join_t, sc::join_receiver>;
  manual_lifetime<jop_t> jop[MAXJ];
  sc::join_state jst[MAXJ];
  sc::resume_slot slot[MAXJ];
  bool setup = false;
  int joins_started = 0;
  char leafname[MAXS][16], nestname[MAXS][16];
};

int main(int argc, char** argv) {
  auto cli = vh::parse_cli(argc, argv);
  std::string sp = cli.prog.at(0), jn = cli.prog.size() > 1 ? cli.prog[1] : "j";
  if (sp == "-") sp = "";
  const int S = (int)sp.size(), J = (int)jn.size();
  // reference numbering: one per spawner, two for 'c'
  std::vector<int> ref0(S);
  { int k = 0; for (int i = 0; i < S; ++i) { ref0[i] = k; k += sp[i] == 'c' ? 2 : 1; } }

  auto make = [&]() -> std::vector<std::function<void()>> {
    auto sh = std::make_shared<Shared>();
    for (int i = 0; i < S; ++i) {
      std::snprintf(sh->leafname[i], 16, "leaf%d", i); sh->ctl[i].name = sh->leafname[i];
      std::snprintf(sh->nestname[i], 16, "nest%d", i);
    }
    for (int j = 0; j < J; ++j) sh->slot[j].id = j;
    std::vector<std::function<void()>> th;
    // thread 0: owner
    th.push_back([sh, S, J] {
      sh->scope.construct();
      auto& sc = sh->scope.get();
      dsched::name_range(&sc.opState_, sizeof(sc.opState_), "scope.opState");
      dsched::name_range(&sc.evt_.state_, sizeof(sc.evt_.state_), "evt.state");
      dsched::name_value((std::uint64_t)(std::uintptr_t)&sc.evt_, "SIG");
      sh->setup = true;
      dsched::block_until([&] {
        for (int i = 0; i < S; ++i) if (!sh->nested[i]) return false;
        for (int j = 0; j < J; ++j) if (sh->jst[j].completions == 0) return false;  // 'r': set on return
        return true;
      });
      dsched::action("scope.destroy");
      sh->scope.destruct();
    });
    // spawner threads A_i (1..S) and completer threads C_i
    for (int i = 0; i < S; ++i) {
      char k = sp[i];
      int r = ref0[i];
      th.push_back([sh, i, k, r] {
        sc::active_guard ag(&sh->rc);
        dsched::block_until([&] { return sh->setup; });
        if (k == 'n') dsched::block_until([&] { return sh->joins_started > 0; });
        auto& scope = sh->scope.get();
        dsched::action("ref %d", r);
        if (k == 'd') {
          {
            auto snd = scope.nest(vh::leaf{&sh->ctl[i]});
            sh->rejected[i] = !snd.scope_;
            sh->nested[i] = true;
            dsched::action("nest%d %s", i, sh->rejected[i] ? "rejected" : "admitted");
          }
          dsched::action("nest%d dropped", i);
          return;
        }
        vh::root_receiver<> rcv{&sh->root[i], {}, sh->nestname[i]};
        if (k == 'x') {
          auto snd = scope.nest(sc::throwing_leaf{i});
          sh->rejected[i] = !snd.scope_;
          sh->nested[i] = true;
          dsched::action("nest%d %s", i, sh->rejected[i] ? "rejected" : "admitted");
          try {
            sh->op_x[i].construct_with([&] { return unifex::connect(std::move(snd), rcv); });
            unifex::start(sh->op_x[i].get());   // only an empty (rejected) sender gets here
          } catch (const sc::connect_failure&) {
            dsched::action("fault%d.caught", i);
          }
          return;
        }
        if (k == 'c') {
          {
            auto snd = scope.nest(vh::leaf{&sh->ctl[i]});
            bool rej = !snd.scope_;
            dsched::action("nest%d %s", i, rej ? "rejected" : "admitted");
            dsched::action("ref %d", r + 1);
            sh->op_cr[i].construct_with([&] { return unifex::connect(std::as_const(snd), rcv); });
            sh->rejected[i] = !sh->op_cr[i].get().scope_;
            sh->nested[i] = true;
            dsched::action("copy%d %s", i, sh->rejected[i] ? "rejected" : "admitted");
            unifex::start(sh->op_cr[i].get());
            dsched::action("ref %d", r);
          }
          dsched::action("nest%d dropped", i);
          return;
        }
        auto snd = scope.nest(vh::leaf{&sh->ctl[i]});
        sh->rejected[i] = !snd.scope_;
        sh->nested[i] = true;
        dsched::action("nest%d %s", i, sh->rejected[i] ? "rejected" : "admitted");
        sh->op_rv[i].construct_with([&] { return unifex::connect(std::move(snd), rcv); });
        unifex::start(sh->op_rv[i].get());
      });
    }
    for (int i = 0; i < S; ++i) {
      if (sp[i] == 'd' || sp[i] == 'x') continue;
      int r = ref0[i] + (sp[i] == 'c' ? 1 : 0);
      th.push_back([sh, i, r] {
        sc::active_guard ag(&sh->rc);
        dsched::block_until([&] { return sh->ctl[i].started || (sh->nested[i] && sh->rejected[i]); });
        if (!sh->ctl[i].started) return;
        dsched::action("ref %d", r);
        sh->ctl[i].complete('v', i);
        sh->leaf_done[i] = true;
      });
    }
    for (int j = 0; j < J; ++j) {
      char jk = jn[j];
      th.push_back([sh, j, jk] {
        sc::active_guard ag(&sh->rc);
        dsched::block_until([&] { return sh->setup; });
        auto& scope = sh->scope.get();
        if (jk == 'r') {
          scope.end_scope();
          dsched::action("close%d.returned", j);
          sh->joins_started++;
          sh->jst[j].completions = 1;
          return;
        }
        sh->jop[j].construct_with([&] {
          return unifex::connect(scope.join(), sc::join_receiver{&sh->jst[j], &sh->slot[j], j});
        });
        dsched::action("join%d.start", j);
        sh->joins_started++;
        unifex::start(sh->jop[j].get());
        if (!sh->slot[j].run_when_ready(&sh->rc)) sh->jst[j].completions = -1;
        sh->jop[j].destruct();
      });
    }
    sh->rc.active = (int)th.size() - 1;
    return th;
  };
  sc::MonitorCfg cfg;
  cfg.joins_started = (int)std::count(jn.begin(), jn.end(), 'j');
  if (sp.find('x') != std::string::npos) cfg.fault_op = "nest+connect";
  auto monitor = [&](const dsched::Result& r) -> std::string { return sc::scope_monitor(r, cfg); };
  return vh::drive(cli, make, monitor);
}
