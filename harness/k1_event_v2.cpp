// K1 driver: the real v2::async_manual_reset_event (latch list + cancellable wrapper).
// program: <sig0: 0|1> <prog of thread 0> <prog of thread 1> ...
//   S = set(), R = reset(), Y = ready(), W<d> = connect(evt.async_wait(), receiver d) + start,
//   X<d> = request stop on the stop source of waiter d   (d = one decimal digit)
//   K = one store to a private atomic (a "kick": dsched parks a thread that re-reads the same value
//       three times until somebody writes; try_lock_checking does that legitimately, so without a
//       kicker some interleavings are unreachable)
// The receivers' stop token is a driver-side token (vtoken) with the semantics of
// inplace_stop_token: registering on a stopped source runs the callback inline, request_stop runs
// a registered callback on the requesting thread, deregistration waits for a callback running on
// another thread and returns at once on the callback's own thread.  Registration, deregistration
// and request_stop are logged (they contain no instrumented access: each is atomic).
#include <unifex/v2/async_manual_reset_event.hpp>
#include <unifex/inline_scheduler.hpp>
#include <unifex/scheduler_concepts.hpp>
#include "vh.hpp"
using namespace unifex;

namespace {

constexpr int MAXW = 10;

struct vsource {
  int w = -1;
  bool requested = false;
  bool registered = false;
  int running_on = -1;
  std::function<void()> cb;
  void request_stop() {
    dsched::action("w%d stop_requested reg=%d", w, (int)registered);
    requested = true;
    if (registered) {
      registered = false;
      running_on = dsched::self();
      cb();
      running_on = -1;
      dsched::action("w%d callback_returned", w);
    }
  }
};

struct vtoken {
  vsource* src;
  template <class F>
  struct callback_type {
    vsource* s;
    F f;
    template <class T>
    callback_type(vtoken t, T&& fn) : s(t.src), f((T&&)fn) {
      if (s->requested) {
        dsched::action("w%d register inline", s->w);
        s->running_on = dsched::self();
        f();
        s->running_on = -1;
      } else {
        dsched::action("w%d register", s->w);
        s->cb = [this] { f(); };
        s->registered = true;
      }
    }
    ~callback_type() {
      if (s->running_on >= 0 && s->running_on != dsched::self())
        dsched::block_until([this] { return s->running_on < 0; });
      s->registered = false;
      dsched::action("w%d deregister", s->w);
    }
  };
  bool stop_requested() const noexcept { return src->requested; }
  bool stop_possible() const noexcept { return true; }
};

struct hop_scheduler {
  int w;
  struct sender {
    int w;
    template <template <class...> class V, template <class...> class T>
    using value_types = V<T<>>;
    template <template <class...> class V>
    using error_types = V<std::exception_ptr>;
    static constexpr bool sends_done = true;
    static constexpr blocking_kind blocking = blocking_kind::always_inline;
    static constexpr bool is_always_scheduler_affine = false;
    template <class R>
    struct op {
      int w;
      R r;
      void start() & noexcept {
        dsched::action("w%d handoff", w);
        unifex::set_value(std::move(r));
      }
    };
    template <class R>
    friend op<remove_cvref_t<R>> tag_invoke(tag_t<unifex::connect>, const sender& s, R&& r) {
      return op<remove_cvref_t<R>>{s.w, (R&&)r};
    }
  };
  sender schedule() const noexcept { return sender{w}; }
  friend bool operator==(const hop_scheduler&, const hop_scheduler&) noexcept { return true; }
  friend bool operator!=(const hop_scheduler&, const hop_scheduler&) noexcept { return false; }
};

struct recv {
  int w;
  vsource* src;
  int* completed;
  void set_value() && noexcept { (*completed)++; dsched::action("w%d value", w); }
  template <class E>
  void set_error(E&&) && noexcept { (*completed)++; dsched::action("w%d error", w); }
  void set_done() && noexcept { (*completed)++; dsched::action("w%d done", w); }
  friend vtoken tag_invoke(tag_t<get_stop_token>, const recv& r) noexcept { return vtoken{r.src}; }
  friend hop_scheduler tag_invoke(tag_t<get_scheduler>, const recv& r) noexcept { return hop_scheduler{r.w}; }
};

using Cmds = std::vector<std::pair<char, int>>;
std::vector<Cmds> parse(const std::vector<std::string>& progs) {
  std::vector<Cmds> p;
  for (auto& s : progs) {
    Cmds cmds;
    for (std::size_t i = 0; i < s.size(); ++i) {
      if (s[i] == 'W' || s[i] == 'X') { cmds.push_back({s[i], s.at(i + 1) - '0'}); ++i; }
      else if (s[i] == '-') continue;
      else cmds.push_back({s[i], 0});
    }
    p.push_back(cmds);
  }
  return p;
}

std::vector<std::function<void()>> make_threads(bool sig0, const std::vector<Cmds>& P) {
  using evt_t = unifex::v2::async_manual_reset_event;
  using op_t = connect_result_t<decltype(std::declval<evt_t&>().async_wait()), recv>;
  struct Shared {
    evt_t evt;
    vsource src[MAXW];
    int completed[MAXW] = {};
    std::atomic<int> kick{0};
    manual_lifetime<op_t> ops[MAXW];
    bool live[MAXW] = {};
    ~Shared() { for (int i = 0; i < MAXW; ++i) if (live[i]) ops[i].destruct(); }
  };
  auto sh = std::make_shared<Shared>();
  if (sig0) sh->evt.set();
  for (int i = 0; i < MAXW; ++i) sh->src[i].w = i;
  std::vector<std::function<void()>> th;
  static const char* wn[MAXW] = {"w0", "w1", "w2", "w3", "w4", "w5", "w6", "w7", "w8", "w9"};
  static std::string fld[MAXW][5];
  for (int i = 0; i < MAXW; ++i) {
    fld[i][0] = std::string(wn[i]) + ".state"; fld[i][1] = std::string(wn[i]) + ".self";
    fld[i][2] = std::string(wn[i]) + ".rest"; fld[i][3] = std::string(wn[i]) + ".sync";
    fld[i][4] = std::string("&") + wn[i] + ".rest";
  }
  for (auto& cmds : P) {
    th.push_back([sh, cmds] {
      auto& L = sh->evt.waiters_;
      dsched::name_range(&L.head_, sizeof(L.head_), "evt.head");
      dsched::name_value((std::uint64_t)(std::uintptr_t)&L.sentinel_, "NIL");
      dsched::name_value((std::uint64_t)(std::uintptr_t)&L.sentinel_latch_, "LATCH");
      dsched::name_value((std::uint64_t)(std::uintptr_t)&L.head_, "&head");
      for (auto [c, w] : cmds) {
        switch (c) {
          case 'S': dsched::action("cmd S"); sh->evt.set(); break;
          case 'R': dsched::action("cmd R"); sh->evt.reset(); break;
          case 'Y': { dsched::action("cmd Y"); bool b = sh->evt.ready(); dsched::action("ready=%d", (int)b); break; }
          case 'X': dsched::action("cmd X%d", w); sh->src[w].request_stop(); break;
          case 'K': dsched::action("cmd K"); sh->kick.store(1, std::memory_order_relaxed); break;
          case 'W': {
            int wi = w;
            dsched::action("cmd W%d", wi);
            sh->ops[wi].construct_with([&] {
              return unifex::connect(sh->evt.async_wait(), recv{wi, &sh->src[wi], &sh->completed[wi]});
            });
            sh->live[wi] = true;
            auto& op = sh->ops[wi].get();
            auto* node = (atomic_intrusive_list_node*)(&op.nested_op());   // private base: C-style cast
            dsched::name_range(&op.state_, sizeof(op.state_), fld[wi][0].c_str());
            dsched::name_range(&node->self, sizeof(node->self), fld[wi][1].c_str());
            dsched::name_range(&node->rest, sizeof(node->rest), fld[wi][2].c_str());
            dsched::name_value((std::uint64_t)(std::uintptr_t)node, wn[wi]);
            dsched::name_value((std::uint64_t)(std::uintptr_t)&node->rest, fld[wi][4].c_str());
            unifex::start(op);
            // the stack flag of stop_type::start(): name it after the fact (names are resolved when the
            // trace is rendered); the operation's storage is still alive here
            if (op.sync_complete_) dsched::name_range(op.sync_complete_, 1, fld[wi][3].c_str());
            dsched::action("cmd W%d returned", wi);
            break;
          }
        }
        dsched::action("cmd end");
      }
    });
  }
  return th;
}

// ---------------------------------------------------------------------------------------------
// direct monitor (see the comment at the top of monitor()).
struct Ev { int t; std::string name, op, a, b; bool ok; bool action; std::string text; };
Ev parse_ev(const std::string& e) {
  Ev r{}; std::size_t i = 1; r.t = 0;
  while (i < e.size() && std::isdigit((unsigned char)e[i])) r.t = r.t * 10 + (e[i++] - '0');
  std::string rest = e.substr(i + 1);
  if (rest[0] == '!') { r.action = true; r.text = rest.substr(1); return r; }
  std::size_t s1 = rest.find(' '), s2 = rest.find(' ', s1 + 1);
  r.name = rest.substr(0, s1);
  r.op = rest.substr(s1 + 1, (s2 == std::string::npos ? rest.size() : s2) - s1 - 1);
  std::string vals = s2 == std::string::npos ? "" : rest.substr(s2 + 1);
  r.ok = vals.find(" ok") != std::string::npos;
  std::size_t sp = vals.find(' ');
  std::string v = vals.substr(0, sp);
  std::size_t ar = v.find("->");
  if (ar == std::string::npos) { r.a = v; r.b = v; } else { r.a = v.substr(0, ar); r.b = v.substr(ar + 2); }
  return r;
}

// The property on the implementation's own run, against a reference list (members of the event's
// list, what each set() drained, who was popped / removed):
//  * a wait completes at most once, never with error;
//  * value only if its push found the event latched or a set() drained and popped it;
//  * done only if a try_remove (from its stop callback) unlinked it;
//  * after its completion nothing touches the operation (state word, list node);
//  * at the end: everything drained was popped or removed; popped / saw-latched waits completed with
//    value; removed ones with done; a started wait whose stop was requested has completed;
//  * ready() answers the latch.
std::string monitor(const std::vector<Cmds>& P, const dsched::Result& r, bool quiet_check) {
  const int n = (int)P.size();
  std::set<int> members;
  std::vector<std::set<int>> drained(n);
  std::vector<char> cmd(n, 0);
  std::vector<int> cmdw(n, -1);
  bool latched = false;
  bool pushed[MAXW] = {};
  bool sawlatch[MAXW] = {}, popped[MAXW] = {}, removed[MAXW] = {}, started[MAXW] = {}, stopreq[MAXW] = {};
  char done[MAXW] = {};
  std::vector<int> expect_ready(n, -1);
  auto W = [](const std::string& s) { return (s.size() >= 2 && s[0] == 'w' && std::isdigit((unsigned char)s[1])) ? s[1] - '0' : -1; };
  for (auto& raw : r.trace) {
    Ev e = parse_ev(raw);
    if (e.t >= n) return "foreign thread";
    if (e.action) {
      int w = -1, k = 0; char c = 0;
      if (e.text.compare(0, 4, "cmd ") == 0) {
        if (e.text == "cmd end") { if (cmd[e.t] == 'X') stopreq[cmdw[e.t]] = true; cmd[e.t] = 0; }
        else if (e.text.find("returned") == std::string::npos) {
          cmd[e.t] = e.text[4]; cmdw[e.t] = e.text.size() > 5 ? e.text[5] - '0' : -1;
          if (cmd[e.t] == 'W') started[cmdw[e.t]] = true;
        }
      } else if (std::sscanf(e.text.c_str(), "ready=%d", &k) == 1) {
        if (expect_ready[e.t] != k) return "ready() returned " + std::to_string(k) + " against the latch";
      } else if (std::sscanf(e.text.c_str(), "w%d %c", &w, &c) == 2) {
        std::string what = e.text.substr(e.text.find(' ') + 1);
        if (what == "value" || what == "done" || what == "error") {
          if (done[w]) return "w" + std::to_string(w) + " completed twice";
          if (what == "error") return "wait completed with error";
          if (what == "value" && !sawlatch[w] && !popped[w]) return "w" + std::to_string(w) + " completed with value but was neither popped by a set() nor saw the latch";
          if (what == "done" && !removed[w]) return "w" + std::to_string(w) + " completed with done but was not removed from the list";
          done[w] = what[0];
        }
      }
      continue;
    }
    int fw = W(e.name);
    if (quiet_check && fw >= 0 && done[fw] && e.name.find(".sync") == std::string::npos)
      return "operation w" + std::to_string(fw) + " touched after its completion: " + raw.substr(raw.find(' ') + 1);
    if (e.name == "evt.head") {
      if (e.op.compare(0, 2, "S.") == 0) {
        std::string v = e.b;
        bool tolatch = v == "LATCH";
        if (cmd[e.t] == 'W') {
          // the thread starting a wait stores to the head when it pushes (its own node), when it finds
          // the latch, and -- if its stop was already requested -- when its try_remove unlinks the
          // front node (any other value)
          int me = cmdw[e.t];
          if (!pushed[me] && !sawlatch[me]) {
            if (tolatch) sawlatch[me] = true;
            else { if (W(v) != me) return "push stored " + v; pushed[me] = true; members.insert(me); }
          }
        } else if (cmd[e.t] == 'S') {
          if (!tolatch) return "set() left the head at " + v;
          for (int m : members) drained[e.t].insert(m);
          members.clear();
        }
        latched = tolatch;
        if (latched && !members.empty()) return "latched with waiters on the list";
      } else if (e.op.compare(0, 2, "L.") == 0 && cmd[e.t] == 'Y') {
        std::string v = e.b; if (v.size() > 2 && v.substr(v.size() - 2) == "|1") v = v.substr(0, v.size() - 2);
        expect_ready[e.t] = v == "LATCH";
      }
    } else if (fw >= 0 && e.name.find(".self") != std::string::npos && e.op.compare(0, 2, "S.") == 0 && e.b == "0") {
      // unlinked: by pop_front of the setter that drained it, or by try_remove
      bool bypop = cmd[e.t] == 'S' && drained[e.t].count(fw);
      if (bypop) { drained[e.t].erase(fw); popped[fw] = true; }
      else {
        bool found = members.erase(fw) > 0;
        for (auto& d : drained) if (d.erase(fw)) found = true;
        if (!found) return "w" + std::to_string(fw) + " unlinked but it was in no list";
        removed[fw] = true;
      }
    }
  }
  for (int t = 0; t < n; ++t) if (!drained[t].empty()) return "w" + std::to_string(*drained[t].begin()) + " drained by set() but never popped nor removed";
  for (int w = 0; w < MAXW; ++w) {
    if ((popped[w] || sawlatch[w]) && done[w] != 'v') return "w" + std::to_string(w) + " was due a value completion and did not get it";
    if (removed[w] && done[w] != 'd') return "w" + std::to_string(w) + " was removed by its stop callback but did not complete with done";
    if (started[w] && stopreq[w] && !done[w]) return "w" + std::to_string(w) + ": stop requested but the wait never completed";
    if (started[w] && !done[w] && !members.count(w)) return "w" + std::to_string(w) + " neither completed nor on the list";
  }
  return "";
}

}  // namespace

int main(int argc, char** argv) {
  auto cli = vh::parse_cli(argc, argv);
  bool sig0 = cli.prog.at(0) == "1";
  // a trailing "logic-only" switches off the "nothing touches a completed operation" check (lifetime),
  // leaving the completion logic (once / value iff set / done iff removed / no stranded wait)
  std::vector<std::string> progs(cli.prog.begin() + 1, cli.prog.end());
  bool quiet_check = true;
  if (!progs.empty() && progs.back() == "logic-only") { quiet_check = false; progs.pop_back(); }
  auto P = parse(progs);
  auto make = [&]() { return make_threads(sig0, P); };
  return vh::drive(cli, make, [&](const dsched::Result& r) { return monitor(P, r, quiet_check); });
}
