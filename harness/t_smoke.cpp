#include <unifex/inplace_stop_token.hpp>
#include <unifex/when_all.hpp>
#include <unifex/just.hpp>
#include <unifex/sync_wait.hpp>
#include <unifex/single_thread_context.hpp>
#include <unifex/scheduler_concepts.hpp>
#include <unifex/then.hpp>
#include <cstdio>
using namespace unifex;
int main(int argc, char** argv) {
  long total = 0;
  auto make = [&]() {
    auto src = std::make_shared<inplace_stop_source>();
    auto hits = std::make_shared<int>(0);
    std::vector<std::function<void()>> th;
    th.push_back([=] {
      dsched::name_range(&src->state_, 1, "src.state");
      auto cb = [hits] { ++*hits; dsched::action("cb"); };
      inplace_stop_callback<decltype(cb)> c(src->get_token(), cb);
      dsched::action("registered");
    });
    th.push_back([=] { bool r = src->request_stop(); dsched::action("req %d", (int)r); });
    th.push_back([=] { bool r = src->request_stop(); dsched::action("req %d", (int)r); });
    return th;
  };
  auto st = dsched::explore(make, [&](const dsched::Result& r, const dsched::Options& o) {
    if (total++ < 2) { for (auto& l : r.trace) std::printf("%s\n", l.c_str()); std::printf("-- %s\n", r.schedule().c_str()); }
    return true; }, 2, 100000);
  std::printf("runs=%ld max_steps=%ld\n", st.runs, st.max_steps);
  // library-created thread + mutex + cv
  auto r = dsched::run({[&] { single_thread_context ctx; auto v = sync_wait(then(schedule(ctx.get_scheduler()), [] { return 7; })); dsched::action("got %d", v ? *v : -1); }}, {});
  for (auto& l : r.trace) std::printf("%s\n", l.c_str());
  std::printf("steps=%ld\n", r.steps);
}
