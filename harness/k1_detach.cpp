// K1 driver (C19, unit detach_on_cancel): the real unifex::detach_on_cancel over a scriptable child.
// program: <v|e|d> <stop|nostop|prestop> <late|inline> [hold]
//   v|e|d   : the child's natural result (value / error / done), delivered by virtual thread 1
//   stop    : virtual thread 2 ("thread B") requests stop on the receiver's source at any time
//   prestop : the source is stopped before the operation is started (the callback runs inline in start())
//   late    : the child only records that it saw the stop; it completes later, on thread A
//   inline  : the child completes ONLY when it sees the stop: with done, from inside its stop callback
//             (i.e. nested in detached_state::request_stop) or inside its start() when the stop was
//             requested before it was started; thread A does nothing (needs stop or prestop)
//   hold    : thread A delivers the child's result only AFTER the root receiver has completed
//             (a detach_on_cancel that waited for its child would deadlock: "done at once")
// virtual threads: 0 = connect + start(); 1 = thread A (child completion); 2 = thread B (stop request);
// 3 = the owner of the receiver: destroys the parent operation as soon as the receiver completed and
// fills its storage with 0xAB (under ASan the storage is really freed).
// The heap-allocated detached_state cannot be hooked; the child operation lives inside it, so the
// child's destructor ("child.destroyed") marks the moment the state is freed.
#include <unifex/detach_on_cancel.hpp>
#include "vh.hpp"
using namespace unifex;

namespace {

struct dctl {
  bool inl = false;
  void* op = nullptr;
  void (*fire)(void*, char) = nullptr;
  bool started = false;        // armed: thread A may complete it
  bool finished = false;       // the child has completed (any path)
  bool in_ctor = false;        // thread ctor_tid is inside the constructor of the child's stop callback
  int ctor_tid = -1;
  bool fired_in_ctor = false;  // the stop was already requested when the child was started
  int destroyed = 0;
};

template <typename R>
struct dleaf_op {
  struct cb {
    dleaf_op* self;
    dctl* c;
    void operator()() noexcept {
      if (c->in_ctor && dsched::self() == c->ctor_tid) {
        // running inline inside stopcb's constructor: only record it, start() finishes the job
        c->fired_in_ctor = true;
        dsched::action("child.stop_seen at-start");
        return;
      }
      dsched::action("child.stop_seen");
      if (!c->inl) return;
      self->stopcb.destruct();   // deregistration from inside the callback (same thread: does not block)
      c->finished = true;
      dsched::action("child.complete d in-stop-callback");
      unifex::set_done(std::move(self->r));
    }
  };
  using cb_t = typename inplace_stop_token::template callback_type<cb>;

  dctl* c;
  R r;
  manual_lifetime<cb_t> stopcb;

  dleaf_op(dctl* cc, R&& rr) : c(cc), r((R&&)rr) {}
  dleaf_op(dleaf_op&&) = delete;
  ~dleaf_op() { c->destroyed++; dsched::action("child.destroyed"); }

  void start() noexcept {
    dctl* cc = c;
    cc->op = this;
    cc->fire = &fire_fn;
    inplace_stop_token tok = unifex::get_stop_token(r);
    cc->in_ctor = true;
    cc->ctor_tid = dsched::self();
    stopcb.construct(tok, cb{this, cc});
    // from here on the callback may fire on another thread and (inline mode) complete the child,
    // which may free *this: only cc is touched
    cc->in_ctor = false;
    if (cc->fired_in_ctor && cc->inl) {
      // never registered (source_ == nullptr): nobody else can be completing
      stopcb.destruct();
      cc->finished = true;
      dsched::action("child.complete d at-start");
      unifex::set_done(std::move(r));
      return;
    }
    cc->started = true;
  }
  static void fire_fn(void* p, char k) {
    auto* self = static_cast<dleaf_op*>(p);
    dctl* cc = self->c;
    self->stopcb.destruct();   // blocks while the child's stop callback runs on another thread
    cc->finished = true;
    dsched::action("child.complete %c", k);
    if (k == 'v') unifex::set_value(std::move(self->r), 7);
    else if (k == 'e') unifex::set_error(std::move(self->r), std::make_exception_ptr(vh::err{1}));
    else unifex::set_done(std::move(self->r));
  }
};

struct dleaf {
  template <template <typename...> class Variant, template <typename...> class Tuple>
  using value_types = Variant<Tuple<int>>;
  template <template <typename...> class Variant>
  using error_types = Variant<std::exception_ptr>;
  static constexpr bool sends_done = true;
  static constexpr blocking_kind blocking = blocking_kind::maybe;
  static constexpr bool is_always_scheduler_affine = false;
  dctl* c;
  template <typename R>
  friend dleaf_op<remove_cvref_t<R>> tag_invoke(unifex::tag_t<unifex::connect>, dleaf&& s, R&& r) noexcept {
    return dleaf_op<remove_cvref_t<R>>{s.c, (R&&)r};
  }
};

std::vector<std::function<void()>> make_threads(char kind, const std::string& stopmode, bool inl, bool hold) {
  using sender_t = decltype(detach_on_cancel(dleaf{nullptr}));
  using op_t = decltype(unifex::connect(std::declval<sender_t>(), std::declval<vh::root_receiver<>>()));
  struct Shared {
    dctl ctl;
    inplace_stop_source ext;
    vh::root_state root;
    void* mem = nullptr;
    op_t* op = nullptr;
    bool constructed = false;
    ~Shared() { if (mem) ::operator delete(mem, std::align_val_t(alignof(op_t))); }
  };
  auto sh = std::make_shared<Shared>();
  sh->ctl.inl = inl;
  std::vector<std::function<void()>> th;
  // 0: connect + start
  th.push_back([sh, stopmode] {
    dsched::name_range(&sh->ext.state_, 1, "ext.state");
    if (stopmode == "prestop") sh->ext.request_stop();
    sh->mem = ::operator new(sizeof(op_t), std::align_val_t(alignof(op_t)));
    std::memset(sh->mem, 0xAB, sizeof(op_t));
    sh->op = ::new (sh->mem) op_t(unifex::connect(
        detach_on_cancel(dleaf{&sh->ctl}), vh::root_receiver<>{&sh->root, sh->ext.get_token()}));
    auto* ds = sh->op->state_.get();
    dsched::name_range(&ds->parentOp_, sizeof(ds->parentOp_), "d.parentOp");
    dsched::name_value((std::uint64_t)(std::uintptr_t)sh->op, "op");
    dsched::name_range(&ds->stopSource_.state_, 1, "d.src.state");
    dsched::name_range(&sh->op->callback_, sizeof(sh->op->callback_), "d.cb");
    sh->constructed = true;
    dsched::action("start.begin");
    unifex::start(*sh->op);
    dsched::action("start.returned");
  });
  // 1: thread A - the child's natural completion
  th.push_back([sh, kind, hold, inl] {
    if (inl) return;
    if (hold) dsched::block_until([&] { return sh->root.completions > 0; });
    dsched::block_until([&] { return sh->ctl.started; });
    sh->ctl.fire(sh->ctl.op, kind);
  });
  // 2: thread B - the stop request
  th.push_back([sh, stopmode] {
    if (stopmode != "stop") return;
    dsched::block_until([&] { return sh->constructed; });
    sh->ext.request_stop();
  });
  // 3: the owner of the receiver destroys the parent operation once it completed
  th.push_back([sh] {
    dsched::block_until([&] { return sh->root.completions > 0; });
    sh->op->~op_t();
    std::memset(sh->mem, 0xAB, sizeof(op_t));
#if defined(__SANITIZE_ADDRESS__)
    ::operator delete(sh->mem, std::align_val_t(alignof(op_t)));
    sh->mem = nullptr;
#endif
    dsched::action("op_destroyed");
  });
  return th;
}

}  // namespace

int main(int argc, char** argv) {
  auto cli = vh::parse_cli(argc, argv);
  char kind = cli.prog.at(0)[0];
  std::string stopmode = cli.prog.size() > 1 ? cli.prog[1] : "nostop";
  bool inl = cli.prog.size() > 2 && cli.prog[2] == "inline";
  bool hold = cli.prog.size() > 3 && cli.prog[3] == "hold";
  auto make = [&]() { return make_threads(kind, stopmode, inl, hold); };
  // direct monitor = the property on the implementation's own run.  The verdict starts with a tag
  // that tools/units/cancel_detach.py puts into the violation key.
  auto monitor = [&](const dsched::Result& r) -> std::string {
    int roots = 0, destroyed = 0;
    bool completed = false, op_destroyed = false;
    int cas_tid = -1;          // the thread whose request_stop won the CAS on parentOp_
    std::string rootkind, bad;
    int root_tid = -1;
    auto has = [](const std::string& e, const char* s) { return e.find(s) != std::string::npos; };
    auto tid_of = [](const std::string& e) { return std::atoi(e.c_str() + 1); };
    for (auto& e : r.trace) {
      bool heap = has(e, " d.parentOp ") || has(e, " d.src.state ");
      bool parent = has(e, " d.cb");
      if (has(e, "!child.destroyed")) { ++destroyed; continue; }
      if (has(e, "!op_destroyed")) { op_destroyed = true; continue; }
      if (has(e, "!root ")) { ++roots; completed = true; root_tid = tid_of(e); rootkind = e.substr(e.find("!root ") + 6); continue; }
      if (heap && destroyed > 0 && bad.empty()) bad = "STATE-USE-AFTER-FREE: " + e;
      if (has(e, "!child.") && destroyed > 0 && bad.empty()) bad = "CHILD-USE-AFTER-FREE: " + e;
      if (parent && op_destroyed && bad.empty()) bad = "OP-USE-AFTER-DESTROY: " + e;
      if (parent && completed && !op_destroyed && bad.empty()) bad = "LATE-ACCESS: " + e;
      if (has(e, " d.parentOp C.") && has(e, " ok")) cas_tid = tid_of(e);
    }
    if (!bad.empty()) return bad;
    if (roots != 1) return "COMPLETIONS: root completions=" + std::to_string(roots);
    if (destroyed != 1) return "CHILD-FREED: child.destroyed=" + std::to_string(destroyed);
    if (!op_destroyed) return "OP-NOT-DESTROYED";
    if (cas_tid >= 0) {
      if (rootkind != "done") return "DONE-AT-ONCE: stop won but root completed with " + rootkind;
      if (root_tid != cas_tid) return "DONE-AT-ONCE: stop won on t" + std::to_string(cas_tid) + " but root completed on t" + std::to_string(root_tid);
    } else {
      const char* want = kind == 'v' ? "value" : kind == 'e' ? "error" : "done";
      if (rootkind != want) return "RESULT: child result " + std::string(want) + " but root completed with " + rootkind;
    }
    return "";
  };
  return vh::drive(cli, make, monitor);
}
