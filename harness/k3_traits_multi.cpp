// K3 driver for C11 (static sender traits, N-ARY formulas): the real unifex::let_value / let_error /
// when_all / sequence / variant_sender (and the binary stop_when, which shares when_all's shape) over harness component senders whose DECLARED traits
// (blocking, sends_done, is_always_scheduler_affine) are template parameters and whose BEHAVIOUR
// (when/where/how they complete) is chosen at run time.
//
// For a systematic family (every combination of declared blocking kinds of the components for
// n = 1, 2, 3, with sends_done / affine patterns covering all combinations; every branch of the
// predecessor taken; three behaviour variants per component, each sound for its declared traits) it
// prints one self-contained line per run:
//
//   <COMB> <n> K=<case> thr=<0|1> sel=<..> | <comp> <comp> ... | T <b>/<sd>/<af> rt=<b> | O <I|S|A> <outcome> <ctx>
//     comp = <blocking>/<sends_done>/<affine>:<I|S|A>:<v<i>|e<j>|d>:<ctx>   declared traits + the behaviour used
//     T    = sender_traits<S> of the real combinator type, rt = unifex::blocking(s) at run time
//     O    = what the root receiver observed: I completed on the calling thread inside start(), S on another
//            thread before start() returned, A after start() returned; outcome; context id at completion
//
// in exactly the format of the extracted model's handler `traitsmulti` (ocaml/handlers/h_traitsmulti.ml).
// Contexts are simulated: W.ctx is the id of the context the running code is "on" (the root is started
// on context 1); a component with ctx d != 0 completes with W.ctx = d (a hop to context d), one with
// ctx 0 completes on the context it was started on.  Timing: 'I' completes inside start(); 'S' spawns a
// thread, completes there and joins before start() returns; 'A' registers a completion that the driver
// fires after start() has returned (FIFO or LIFO).
//
// Two kinds of lines:
//   TR <COMB> <n> K=<case> | <declared> ... | T <b>/<sd>/<af> [rt=<b>]   compile-time traits only, (almost) every case K (tr_sel)
//   run lines as above, for the cases selected by run_sel (one per affinity pattern): three behaviour variants
//   that are sound for the declared traits of that very type, plus - on one case per (COMB, n) - an exhaustive
//   sweep over timing x context x outcome of the components taking part (the Python side combines those
//   observations with the traits of EVERY case whose declarations they are sound for).
// Build parts (one executable per part, compiled in parallel by tools/units/traits_multi.py):
//   -DTM_PART=1 LV runs  2 LE runs  3 WA runs + real-library probes  4 VAR runs  5 SEQ + SW runs
//             6 LV TR lines  7 LE TR lines  8 WA/VAR/SEQ/SW TR lines          (0 / undefined: everything)
// argv: [COMB [n [K]]] restricts the output to the matching cases (replay).
#include <unifex/let_value.hpp>
#include <unifex/let_error.hpp>
#include <unifex/when_all.hpp>
#include <unifex/sequence.hpp>
#include <unifex/variant_sender.hpp>
#include <unifex/stop_when.hpp>
#include <unifex/blocking.hpp>
#include <unifex/sender_concepts.hpp>
#include <unifex/receiver_concepts.hpp>
#include <unifex/just.hpp>
#include <unifex/then.hpp>
#include <unifex/static_thread_pool.hpp>
#include <unifex/scheduler_concepts.hpp>
#include <chrono>
#include <cstdio>
#include <cstdlib>
#include <cstring>
#include <exception>
#include <string>
#include <thread>
#include <tuple>
#include <utility>
#include <vector>

#ifndef TM_PART
#define TM_PART 0
#endif

using namespace unifex;

namespace tmx {

template <int I> struct tag {};
template <int J> struct err {};

struct behav { char time; char kind; int idx; int ctx; };

struct world {
  int ctx = 1;
  std::thread::id main_tid;
  bool in_start = false;
  struct thunk { void (*fn)(void*); void* p; };
  std::vector<thunk> pending;
  std::vector<int> order;          // component ids in completion order
  char o_time = '-', o_kind = '-'; int o_idx = -1, o_ctx = -1, completions = 0;
  void reset() {
    ctx = 1; in_start = false; pending.clear(); order.clear();
    o_time = o_kind = '-'; o_idx = o_ctx = -1; completions = 0;
  }
};
static world W;

// ---- value / error type lists ------------------------------------------------------------------
template <template <class...> class V, template <class...> class T, class Seq> struct vt_tags;
template <template <class...> class V, template <class...> class T, int... Is>
struct vt_tags<V, T, std::integer_sequence<int, Is...>> { using type = V<T<tag<Is>>...>; };
template <int VK, template <class...> class V, template <class...> class T>
struct vt : vt_tags<V, T, std::make_integer_sequence<int, VK>> {};
template <template <class...> class V, template <class...> class T> struct vt<0, V, T> { using type = V<T<int>>; };
template <template <class...> class V, template <class...> class T> struct vt<-1, V, T> { using type = V<T<>>; };
template <template <class...> class V, class Seq> struct et_errs;
template <template <class...> class V, int... Js>
struct et_errs<V, std::integer_sequence<int, Js...>> { using type = V<err<Js>...>; };

inline void run_on_other_thread(void (*fn)(void*), void* p) { std::thread t(fn, p); t.join(); }

// ---- the component sender ------------------------------------------------------------------------
// BK/SD/AF: declared traits.  VK: -1 sends set_value(), 0 sends set_value(int idx), N>0 sends
// set_value(tag<idx>) with N signatures.  NE: error types err<0..NE-1>.  ID: position (makes the type unique).
template <int BK, bool SD, bool AF, int VK, int NE, int ID>
struct comp {
  behav b;
  template <template <class...> class V, template <class...> class T>
  using value_types = typename vt<VK, V, T>::type;
  template <template <class...> class V>
  using error_types = typename et_errs<V, std::make_integer_sequence<int, NE>>::type;
  static constexpr bool sends_done = SD;
  static constexpr blocking_kind blocking = blocking_kind{static_cast<_block::_enum>(BK)};
  static constexpr bool is_always_scheduler_affine = AF;
  static constexpr int decl_bk = BK; static constexpr bool decl_sd = SD, decl_af = AF; static constexpr int id = ID;

  template <class R>
  struct op {
    behav b; R r; int start_ctx = 0;
    void start() & noexcept {
      start_ctx = W.ctx;
      if (b.time == 'I') deliver(this);
      else if (b.time == 'S') run_on_other_thread(&deliver, this);
      else W.pending.push_back({&deliver, this});
    }
    template <int... Is> static void send_tag(R&& r, int idx, std::integer_sequence<int, Is...>) {
      (void)((idx == Is ? (unifex::set_value(std::move(r), tag<Is>{}), true) : false) || ...);
    }
    template <int... Js> static void send_err(R&& r, int idx, std::integer_sequence<int, Js...>) {
      (void)((idx == Js ? (unifex::set_error(std::move(r), err<Js>{}), true) : false) || ...);
    }
    // the operation may be destroyed by the receiver: nothing of it is touched after the completion call
    static void deliver(void* self_) {
      op* self = static_cast<op*>(self_);
      behav b = self->b; int saved = W.ctx;
      W.ctx = b.ctx ? b.ctx : self->start_ctx;
      W.order.push_back(ID);
      R r = std::move(self->r);
      if (b.kind == 'd') unifex::set_done(std::move(r));
      else if (b.kind == 'e') send_err(std::move(r), b.idx, std::make_integer_sequence<int, NE>{});
      else if constexpr (VK == -1) unifex::set_value(std::move(r));
      else if constexpr (VK == 0) unifex::set_value(std::move(r), (int)b.idx);
      else send_tag(std::move(r), b.idx, std::make_integer_sequence<int, VK>{});
      W.ctx = saved;
    }
  };
  template <class R> op<remove_cvref_t<R>> connect(R&& r) const& { return {b, (R&&)r}; }
};

// ---- root receiver -----------------------------------------------------------------------------------
template <class T> struct idx_of { static int get(const T&) { return 0; } };
template <> struct idx_of<int> { static int get(const int& v) { return v; } };
template <int I> struct idx_of<tag<I>> { static int get(const tag<I>&) { return I; } };
template <int J> struct idx_of<err<J>> { static int get(const err<J>&) { return J; } };
template <> struct idx_of<std::exception_ptr> { static int get(const std::exception_ptr&) { return 99; } };

struct root {
  static void record(char kind, int idx) {
    W.completions++;
    W.o_kind = kind; W.o_idx = idx; W.o_ctx = W.ctx;
    W.o_time = !W.in_start ? 'A' : (std::this_thread::get_id() == W.main_tid ? 'I' : 'S');
  }
  void set_value() && noexcept { record('v', 0); }
  template <class V> void set_value(V&& v) && noexcept { record('v', idx_of<remove_cvref_t<V>>::get(v)); }
  template <class V, class V2, class... Vs> void set_value(V&&, V2&&, Vs&&...) && noexcept { record('v', 0); }
  template <class E> void set_error(E&& e) && noexcept { record('e', idx_of<remove_cvref_t<E>>::get(e)); }
  void set_done() && noexcept { record('d', 0); }
};

// ---- case decoding ----------------------------------------------------------------------------------
// component j of case K: blocking = base-4 digit j of K; sends_done / affine = bit j of two hashed
// patterns (tools/units/traits_multi.py checks that every pattern of every width occurs)
constexpr unsigned mix(unsigned K) { return (K + 1u) * 0x9E3779B1u; }
constexpr int bk_of(int K, int j) { return (K >> (2 * j)) & 3; }
constexpr bool sd_of(int K, int j) { return ((mix((unsigned)K) >> 20) >> j) & 1u; }
constexpr bool af_of(int K, int j) { return ((mix((unsigned)K) >> 12) >> j) & 1u; }
constexpr unsigned af_pat(int K, int M) { return (mix((unsigned)K) >> 12) & ((1u << M) - 1u); }
template <int K, int J, int VK, int NE> using comp_t = comp<bk_of(K, J), sd_of(K, J), af_of(K, J), VK, NE, J>;
constexpr int pow4(int m) { return m == 0 ? 1 : 4 * pow4(m - 1); }

// TR lines (compile-time traits only): every case for M <= 3 components, the cases with an even digit
// sum for M = 4 (each combination of three blocking digits occurs with two values of the fourth)
constexpr bool tr_sel(int K, int M) {
  int s = 0;
  for (int j = 0; j < M; ++j) s += bk_of(K, j);
  return M <= 3 || s % 2 == 0;
}
// RUN cases (the real combinator is connected and started): for every affinity pattern of the M
// components the case with the smallest mix(K) having it
constexpr bool run_sel(int K, int M) {
  for (int k2 = 0; k2 < pow4(M); ++k2)
    if (k2 != K && af_pat(k2, M) == af_pat(K, M) && mix((unsigned)k2) < mix((unsigned)K)) return false;
  return true;
}
// the run case on which the exhaustive behaviour sweep is done: the selected one with the smallest index
constexpr int sweep_case(int M) {
  for (int k = 0; k < pow4(M); ++k) if (run_sel(k, M)) return k;
  return 0;
}

// behaviour variant v of a component with declared (bk, sd, af): always sound for the declaration
inline behav beh_for(int bk, bool sd, bool af, int j, int v, bool can_err) {
  behav b{'I', 'v', 10 + j, 0};
  v = (v + j) % 3;
  switch (bk) {
    case 0: b.time = 'I'; break;
    case 1: b.time = v == 1 ? 'I' : 'S'; break;
    case 2: b.time = v == 0 ? 'A' : v == 1 ? 'I' : 'S'; break;
    default: b.time = v == 1 ? 'S' : 'A'; break;
  }
  b.ctx = (af || b.time == 'I' || v == 2) ? 0 : 2 + j;
  if (v == 1 && sd) { b.kind = 'd'; b.idx = 0; }
  else if (v == 2 && can_err && (j & 1)) { b.kind = 'e'; b.idx = 0; }
  return b;
}
// behaviour number q in [0, 18) of the exhaustive sweep: timing x (own context / foreign context) x outcome
inline behav sweep_beh(int j, int q) {
  behav b{"ISA"[q % 3], "vde"[(q / 6) % 3], 10 + j, ((q / 3) % 2) ? 2 + j : 0};
  if (b.kind != 'v') b.idx = 0;
  return b;
}
// compact version, q in [0, 9): the six timing x context combinations with a value, and three failing ones
inline behav sweep_beh9(int j, int q) {
  if (q < 6) return sweep_beh(j, q);
  if (q == 6) return behav{'I', 'd', 0, 0};
  if (q == 7) return behav{'A', 'e', 0, 2 + j};
  return behav{'S', 'd', 0, 2 + j};
}

static const char* g_fcomb = nullptr; static int g_fn = -1, g_fK = -1;
inline bool wanted(const char* comb, int n, int K) {
  return (!g_fcomb || !std::strcmp(g_fcomb, comb)) && (g_fn < 0 || g_fn == n) && (g_fK < 0 || g_fK == K);
}

inline std::string comp_str(int bk, bool sd, bool af, const behav& b) {
  char buf[64];
  if (b.kind == 'd') std::snprintf(buf, sizeof buf, "%d/%d/%d:%c:d:%d", bk, (int)sd, (int)af, b.time, b.ctx);
  else std::snprintf(buf, sizeof buf, "%d/%d/%d:%c:%c%d:%d", bk, (int)sd, (int)af, b.time, b.kind, b.idx, b.ctx);
  return buf;
}
inline std::string comps_str(int K, int M, const behav* bs) {
  std::string s;
  for (int j = 0; j < M; ++j) { if (j) s += " "; s += comp_str(bk_of(K, j), sd_of(K, j), af_of(K, j), bs[j]); }
  return s;
}
inline std::string traits_fmt(int b, bool sd, bool af, int rt) {
  char buf[64];
  if (rt >= 0) std::snprintf(buf, sizeof buf, "T %d/%d/%d rt=%d", b, (int)sd, (int)af, rt);
  else std::snprintf(buf, sizeof buf, "T %d/%d/%d", b, (int)sd, (int)af);
  return buf;
}
template <class S> std::string traits_str(const S& s) {
  blocking_kind rt = unifex::blocking(s);
  return traits_fmt((int)sender_traits<S>::blocking.value, sender_traits<S>::sends_done,
                    sender_traits<S>::is_always_scheduler_affine, (int)rt.value);
}
// compile-time traits only: nothing of the sender is constructed
template <class S> std::string static_traits_str() {
  return traits_fmt((int)sender_traits<S>::blocking.value, sender_traits<S>::sends_done,
                    sender_traits<S>::is_always_scheduler_affine, -1);
}
inline void print_tr(const char* comb, int n, int K, int M, const std::string& tr) {
  std::string d;
  for (int j = 0; j < M; ++j) {
    char buf[24]; std::snprintf(buf, sizeof buf, "%s%d/%d/%d", j ? " " : "", bk_of(K, j), (int)sd_of(K, j), (int)af_of(K, j));
    d += buf;
  }
  std::printf("TR %s %d K=%d | %s | %s\n", comb, n, K, d.c_str(), tr.c_str());
}

// connect to the root receiver, start on context 1, fire the asynchronous completions, print the line
inline void fire_pending(bool lifo) {
  int guard = 0;
  while (!W.pending.empty() && guard++ < 100) {
    world::thunk f;
    if (lifo) { f = W.pending.back(); W.pending.pop_back(); }
    else { f = W.pending.front(); W.pending.erase(W.pending.begin()); }
    f.fn(f.p);
  }
}
inline void print_run(const char* comb, int n, int K, bool thrown, const char* sel_or_null, const std::string& comps,
                      const std::string& tr) {
  std::string sel = "-";
  if (sel_or_null) sel = sel_or_null;
  else if (!std::strcmp(comb, "WA") || !std::strcmp(comb, "SW")) {
    sel.clear();
    for (size_t i = 0; i < W.order.size(); ++i) { if (i) sel += ","; sel += std::to_string(W.order[i]); }
  }
  char out[32];
  if (W.completions != 1) std::snprintf(out, sizeof out, "O completions=%d", W.completions);
  else if (W.o_kind == 'd') std::snprintf(out, sizeof out, "O %c d %d", W.o_time, W.o_ctx);
  else std::snprintf(out, sizeof out, "O %c %c%d %d", W.o_time, W.o_kind, W.o_idx, W.o_ctx);
  std::printf("%s %d K=%d thr=%d sel=%s | %s | %s | %s\n", comb, n, K, (int)thrown, sel.c_str(), comps.c_str(), tr.c_str(), out);
}
template <class S>
void run_and_print(const char* comb, int n, int K, bool thrown, const std::string& comps, S&& s, bool lifo,
                   const char* sel = nullptr) {
  W.reset();
  W.main_tid = std::this_thread::get_id();
  std::string tr = traits_str(s);
  {
    auto op = unifex::connect((S&&)s, root{});
    W.in_start = true;
    unifex::start(op);
    W.in_start = false;
    fire_pending(lifo);
  }
  print_run(comb, n, K, thrown, sel, comps, tr);
}

// ---- let_value / let_error --------------------------------------------------------------------------
template <class... S>
struct factory {
  std::tuple<S...> succs; bool thrown;
  template <int I> auto operator()(tag<I>&) { if (thrown) throw 1; return std::get<I>(succs); }
  template <int J> auto operator()(err<J>&) { if (thrown) throw 1; return std::get<J>(succs); }
};

// LE = false: let_value, predecessor with N value signatures tag<0..N-1> and one error type;
// LE = true: let_error, source with N error types err<0..N-1> and an int value.
template <bool LE, int N, int K, class Seq> struct let_case;
template <bool LE, int N, int K, int... Is>   // Is = 0..N-1
struct let_case<LE, N, K, std::integer_sequence<int, Is...>> {
  static constexpr const char* name = LE ? "LE" : "LV";
  using pred_t = comp_t<K, 0, (LE ? 0 : N), (LE ? N : 1)>;
  using fac_t = factory<comp_t<K, Is + 1, 0, 1>...>;
  static auto make(const pred_t& p, const fac_t& f) {
    if constexpr (LE) return unifex::let_error(p, f); else return unifex::let_value(p, f);
  }
  static void traits() {
    if (wanted(name, N, K)) print_tr(name, N, K, N + 1, static_traits_str<decltype(make(std::declval<pred_t>(), std::declval<fac_t>()))>());
  }
  // bs[0]: predecessor (its kind / idx give the branch), bs[1..N]: the successors
  static void one(const behav* bs, bool thrown, bool lifo) {
    run_and_print(name, N, K, thrown, comps_str(K, N + 1, bs),
                  make(pred_t{bs[0]}, fac_t{{comp_t<K, Is + 1, 0, 1>{bs[Is + 1]}...}, thrown}), lifo);
  }
  // branch: 0..N-1 the signature routed to a successor, N the other forwarded signal, N+1 done
  static void set_branch(behav& p, int branch) {
    if (branch < N) { p.kind = LE ? 'e' : 'v'; p.idx = branch; }
    else if (branch == N) { p.kind = LE ? 'v' : 'e'; p.idx = LE ? 5 : 0; }
    else { p.kind = 'd'; p.idx = 0; }
  }
  static void run() {
    if (!wanted(name, N, K)) return;
    behav bs[N + 1];
    // behaviours sound for the declared traits of this very type
    for (int br = 0; br <= N + (pred_t::decl_sd ? 1 : 0); ++br)
      for (int v = 0; v < 3; ++v) {
        for (int j = 0; j <= N; ++j) bs[j] = beh_for(bk_of(K, j), sd_of(K, j), af_of(K, j), j, v, j > 0);
        set_branch(bs[0], br);
        one(bs, false, v == 1);
        if (v == 0 && br < N) one(bs, true, false);
      }
    // exhaustive sweep over the behaviours of the components that take part in the run
    if (K != sweep_case(N + 1)) return;
    for (int br = 0; br <= N + 1; ++br)
      for (int qp = 0; qp < 6; ++qp)
        for (int qs = 0; qs < (br < N ? 18 : 1); ++qs) {
          for (int j = 0; j <= N; ++j) bs[j] = behav{'I', 'v', 10 + j, 0};
          bs[0] = sweep_beh(0, qp);
          set_branch(bs[0], br);
          if (br < N) bs[br + 1] = sweep_beh(br + 1, qs);
          one(bs, false, false);
        }
  }
};

// ---- when_all / variant_sender / sequence -----------------------------------------------------------
// WHICH: 0 when_all, 1 variant_sender, 2 sequence, 3 stop_when (N = 2: source, trigger)
template <int WHICH, int N, int K, class Seq> struct flat_case;
template <int WHICH, int N, int K, int... Is>
struct flat_case<WHICH, N, K, std::integer_sequence<int, Is...>> {
  static constexpr const char* name = WHICH == 0 ? "WA" : WHICH == 1 ? "VAR" : WHICH == 2 ? "SEQ" : "SW";
  // sequence: all but the last send set_value(); stop_when: the trigger does; the others send an int
  static constexpr bool is_void(int j) { return (WHICH == 2 && j != N - 1) || (WHICH == 3 && j == 1); }
  template <int J> using c_t = comp_t<K, J, (is_void(J) ? -1 : 0), 1>;
  using vs_t = variant_sender<c_t<Is>...>;
  // TR lines of these combinators also carry the run-time answer unifex::blocking(s) (the sender is
  // constructed from default components, never connected)
  static void traits() {
    if (!wanted(name, N, K)) return;
    if constexpr (WHICH == 0) print_tr(name, N, K, N, traits_str(unifex::when_all(c_t<Is>{}...)));
    else if constexpr (WHICH == 1) print_tr(name, N, K, N, traits_str(vs_t{c_t<0>{}}));
    else if constexpr (WHICH == 2) print_tr(name, N, K, N, traits_str(unifex::sequence(c_t<Is>{}...)));
    else print_tr(name, N, K, N, traits_str(unifex::stop_when(c_t<Is>{}...)));
  }
  static void one(const behav* bs, bool lifo, int active) {
    std::string comps = comps_str(K, N, bs);
    if constexpr (WHICH == 0) run_and_print(name, N, K, false, comps, unifex::when_all(c_t<Is>{bs[Is]}...), lifo);
    else if constexpr (WHICH == 2) run_and_print(name, N, K, false, comps, unifex::sequence(c_t<Is>{bs[Is]}...), lifo);
    else if constexpr (WHICH == 3) run_and_print(name, N, K, false, comps, unifex::stop_when(c_t<Is>{bs[Is]}...), lifo);
    else {
      char sel[16]; std::snprintf(sel, sizeof sel, "%d", active);
      (void)((active == Is ? (run_and_print(name, N, K, false, comps, vs_t{c_t<Is>{bs[Is]}}, lifo, sel), true) : false) || ...);
    }
  }
  static void run() {
    if (!wanted(name, N, K)) return;
    behav bs[N];
    for (int v = 0; v < 3; ++v)
      for (int x = 0; x < (WHICH == 1 ? N : 2); ++x) {   // when_all / sequence: FIFO, LIFO; variant: active alternative
        for (int j = 0; j < N; ++j) {
          bs[j] = beh_for(bk_of(K, j), sd_of(K, j), af_of(K, j), j, v, true);
          if (is_void(j) && bs[j].kind == 'v') bs[j].idx = 0;
        }
        one(bs, WHICH != 1 && x == 1, x);
      }
    if (K != sweep_case(N)) return;
    int total = WHICH == 1 ? 18 : 1;
    for (int j = 0; j < (WHICH == 1 ? 0 : N); ++j) total *= 9;
    for (int q = 0; q < total; ++q)
      for (int x = 0; x < (WHICH == 1 ? N : 2); ++x) {
        for (int j = 0; j < N; ++j) bs[j] = behav{'I', 'v', is_void(j) ? 0 : 10 + j, 0};
        if (WHICH == 1) bs[x] = sweep_beh(x, q);
        else { int qq = q; for (int j = 0; j < N; ++j) { bs[j] = sweep_beh9(j, qq % 9); qq /= 9; } }
        for (int j = 0; j < N; ++j) if (is_void(j) && bs[j].kind == 'v') bs[j].idx = 0;
        one(bs, WHICH != 1 && x == 1, x);
      }
  }
};

template <int N> using idx = std::make_integer_sequence<int, N>;
// non-selected cases are mapped to case 0 at compile time (no extra instantiation) and skipped at run time
template <bool LE, int N, int... Ks> void let_runs(std::integer_sequence<int, Ks...>) {
  ((void)(run_sel(Ks, N + 1) ? (let_case<LE, N, (run_sel(Ks, N + 1) ? Ks : sweep_case(N + 1)), idx<N>>::run(), 0) : 0), ...);
}
template <bool LE, int N, int... Ks> void let_traits(std::integer_sequence<int, Ks...>) {
  ((void)(tr_sel(Ks, N + 1) ? (let_case<LE, N, (tr_sel(Ks, N + 1) ? Ks : 0), idx<N>>::traits(), 0) : 0), ...);
}
template <int WHICH, int N, int... Ks> void flat_runs(std::integer_sequence<int, Ks...>) {
  ((void)(run_sel(Ks, N) ? (flat_case<WHICH, N, (run_sel(Ks, N) ? Ks : sweep_case(N)), idx<N>>::run(), 0) : 0), ...);
}
template <int WHICH, int N, int... Ks> void flat_traits(std::integer_sequence<int, Ks...>) {
  (flat_case<WHICH, N, Ks, idx<N>>::traits(), ...);
}

// ---- the when_all / stop_when `never` claim on real library senders only ---------------------------
// when_all(schedule(pool), then(just(), sleep)) (and stop_when of the same two) declares blocking = never (static_thread_pool.hpp:74 is
// never, just/then always_inline, when_all.hpp:321-326 takes the maximum).  The pool thread completes
// child 0 while the calling thread is still inside start() running child 1, which then delivers the
// result on the calling thread inside start().
struct probe_rcvr {
  bool* in_start; std::thread::id tid; int* inl;
  template <class... V> void set_value(V&&...) && noexcept { *inl = (*in_start && std::this_thread::get_id() == tid) ? 1 : 0; }
  template <class E> void set_error(E&&) && noexcept { *inl = 2; }
  void set_done() && noexcept { *inl = 3; }
};
template <class S> void real_probe_one(const char* what, S s) {
  bool in_start = false; int inl = -1;
  {
    auto op = connect(std::move(s), probe_rcvr{&in_start, std::this_thread::get_id(), &inl});
    in_start = true; start(op); in_start = false;
    for (int i = 0; i < 2000 && inl < 0; ++i) std::this_thread::sleep_for(std::chrono::milliseconds(1));
  }
  std::printf("PROBE %s blocking=%d inline=%d\n", what, (int)sender_traits<S>::blocking.value, inl);
}
inline void real_probe() {
  if (!wanted("PROBE", -1, -1)) return;
  static_thread_pool pool(1);
  auto slow = [] { return then(just(), [] { std::this_thread::sleep_for(std::chrono::milliseconds(60)); }); };
  real_probe_one("WA when_all_pool_then_just", when_all(schedule(pool.get_scheduler()), slow()));
  real_probe_one("SW stop_when_pool_then_just", stop_when(schedule(pool.get_scheduler()), slow()));
}

}  // namespace tmx

int main(int argc, char** argv) {
  using namespace tmx;
  if (argc > 1) g_fcomb = argv[1];
  if (argc > 2) g_fn = std::atoi(argv[2]);
  if (argc > 3) g_fK = std::atoi(argv[3]);
  W.main_tid = std::this_thread::get_id();
#if TM_PART == 0 || TM_PART == 1
  let_runs<false, 1>(idx<pow4(2)>{}); let_runs<false, 2>(idx<pow4(3)>{}); let_runs<false, 3>(idx<pow4(4)>{});
#endif
#if TM_PART == 0 || TM_PART == 2
  let_runs<true, 1>(idx<pow4(2)>{}); let_runs<true, 2>(idx<pow4(3)>{}); let_runs<true, 3>(idx<pow4(4)>{});
#endif
#if TM_PART == 0 || TM_PART == 3
  flat_runs<0, 1>(idx<pow4(1)>{}); flat_runs<0, 2>(idx<pow4(2)>{}); flat_runs<0, 3>(idx<pow4(3)>{});
  real_probe();
#endif
#if TM_PART == 0 || TM_PART == 4
  flat_runs<1, 1>(idx<pow4(1)>{}); flat_runs<1, 2>(idx<pow4(2)>{}); flat_runs<1, 3>(idx<pow4(3)>{});
#endif
#if TM_PART == 0 || TM_PART == 5
  flat_runs<2, 1>(idx<pow4(1)>{}); flat_runs<2, 2>(idx<pow4(2)>{}); flat_runs<2, 3>(idx<pow4(3)>{});
  flat_runs<3, 2>(idx<pow4(2)>{});
#endif
#if TM_PART == 0 || TM_PART == 6
  let_traits<false, 1>(idx<pow4(2)>{}); let_traits<false, 2>(idx<pow4(3)>{}); let_traits<false, 3>(idx<pow4(4)>{});
#endif
#if TM_PART == 0 || TM_PART == 7
  let_traits<true, 1>(idx<pow4(2)>{}); let_traits<true, 2>(idx<pow4(3)>{}); let_traits<true, 3>(idx<pow4(4)>{});
#endif
#if TM_PART == 0 || TM_PART == 8
  flat_traits<0, 1>(idx<pow4(1)>{}); flat_traits<0, 2>(idx<pow4(2)>{}); flat_traits<0, 3>(idx<pow4(3)>{});
  flat_traits<1, 1>(idx<pow4(1)>{}); flat_traits<1, 2>(idx<pow4(2)>{}); flat_traits<1, 3>(idx<pow4(3)>{});
  flat_traits<2, 1>(idx<pow4(1)>{}); flat_traits<2, 2>(idx<pow4(2)>{}); flat_traits<2, 3>(idx<pow4(3)>{});
  flat_traits<3, 2>(idx<pow4(2)>{});
#endif
  std::fflush(stdout);
  return 0;
}
