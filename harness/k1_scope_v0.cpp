// K1 driver: the real unifex::v0::async_scope.
// program: <spawners: string over s,n> <joiners: string over j,k,r,q>
//   s  scope.spawn(then(leaf)) on thread A_i (try_record_start, then start); leaf completed on C_i
//   n  like s, but only after some closer/joiner has started
//   x  scope.spawn(then(throwing_leaf)): connect() throws inside spawn(); the caller catches; the
//      scope must be left exactly as it was
//   j  complete()      k  cleanup()      r  request_stop() and return      q  request_stop(); complete()
// `!ref k` markers: see k1_scope.cpp.  The owner (thread 0) destroys the scope once every spawn
// call has returned and every closer/joiner is done.
#include <unifex/v0/async_scope.hpp>
#include <unifex/then.hpp>
#include "k1_scope_common.hpp"
using namespace unifex;

static auto void_leaf(vh::leaf_ctl* c) { return then(vh::leaf{c}, [](int) noexcept {}); }
static auto void_throwing(int i) { return then(sc::throwing_leaf{i}, [](int) noexcept {}); }

struct Shared {
  manual_lifetime<v0::async_scope> scope;
  static constexpr int MAXS = 6, MAXJ = 3;
  vh::leaf_ctl ctl[MAXS];
  bool nested[MAXS] = {};
  bool rejected[MAXS] = {};
  using complete_t = decltype(std::declval<v0::async_scope&>().complete());
  using cleanup_t = decltype(std::declval<v0::async_scope&>().cleanup());
  manual_lifetime<connect_result_t<complete_t, sc::join_receiver>> cop[MAXJ];
  manual_lifetime<connect_result_t<cleanup_t, sc::join_receiver>> kop[MAXJ];
  sc::join_state jst[MAXJ];
  sc::resume_slot slot[MAXJ];
  bool setup = false;
  int closers_started = 0;
  char leafname[MAXS][16];
  sc::run_ctl rc;
};

int main(int argc, char** argv) {
  auto cli = vh::parse_cli(argc, argv);
  std::string sp = cli.prog.at(0), jn = cli.prog.size() > 1 ? cli.prog[1] : "k";
  if (sp == "-") sp = "";
  const int S = (int)sp.size(), J = (int)jn.size();

  auto make = [&]() -> std::vector<std::function<void()>> {
    auto sh = std::make_shared<Shared>();
    for (int i = 0; i < S; ++i) { std::snprintf(sh->leafname[i], 16, "leaf%d", i); sh->ctl[i].name = sh->leafname[i]; }
    for (int j = 0; j < J; ++j) sh->slot[j].id = j;
    std::vector<std::function<void()>> th;
    th.push_back([sh, S, J] {
      sh->scope.construct();
      auto& sc = sh->scope.get();
      dsched::name_range(&sc.opState_, sizeof(sc.opState_), "scope.opState");
      dsched::name_range(&sc.evt_.state_, sizeof(sc.evt_.state_), "evt.state");
      dsched::name_value((std::uint64_t)(std::uintptr_t)&sc.evt_, "SIG");
      dsched::name_range(&sc.stopSource_.state_, 1, "stop.state");
      sh->setup = true;
      dsched::block_until([&] {
        for (int i = 0; i < S; ++i) if (!sh->nested[i]) return false;
        for (int j = 0; j < J; ++j) if (sh->jst[j].completions == 0) return false;
        return true;
      });
      sh->scope.destruct();   // (the destructor itself loads opState_ for its assertions)
      dsched::action("scope.destroy");
    });
    for (int i = 0; i < S; ++i) {
      char k = sp[i];
      th.push_back([sh, i, k] {
        sc::active_guard ag(&sh->rc);
        dsched::block_until([&] { return sh->setup; });
        if (k == 'n') dsched::block_until([&] { return sh->closers_started > 0; });
        auto& scope = sh->scope.get();
        dsched::action("ref %d", i);
        if (k == 'x') {
          try {
            scope.spawn(void_throwing(i));
            dsched::action("fault%d.nothrow", i);
          } catch (const sc::connect_failure&) {
            dsched::action("fault%d.caught", i);
          }
          sh->rejected[i] = true;
          sh->nested[i] = true;
          return;
        }
        scope.spawn(void_leaf(&sh->ctl[i]));
        sh->rejected[i] = !sh->ctl[i].started;
        sh->nested[i] = true;
        dsched::action("spawn%d %s", i, sh->rejected[i] ? "rejected" : "admitted");
      });
    }
    for (int i = 0; i < S; ++i) {
      if (sp[i] == 'x') continue;
      th.push_back([sh, i] {
        sc::active_guard ag(&sh->rc);
        dsched::block_until([&] { return sh->ctl[i].started || (sh->nested[i] && sh->rejected[i]); });
        if (!sh->ctl[i].started) return;
        dsched::action("ref %d", i);
        sh->ctl[i].complete('v', i);
      });
    }
    for (int j = 0; j < J; ++j) {
      char jk = jn[j];
      th.push_back([sh, j, jk] {
        sc::active_guard ag(&sh->rc);
        dsched::block_until([&] { return sh->setup; });
        auto& scope = sh->scope.get();
        sc::join_receiver rcv{&sh->jst[j], &sh->slot[j], j};
        dsched::action("join%d.start", j);
        sh->closers_started++;
        if (jk == 'r' || jk == 'q') {
          scope.request_stop();
          dsched::action("stop%d.returned", j);
          if (jk == 'r') { sh->jst[j].completions = 1; return; }
        }
        if (jk == 'k') {
          sh->kop[j].construct_with([&] { return unifex::connect(scope.cleanup(), rcv); });
          unifex::start(sh->kop[j].get());
          if (!sh->slot[j].run_when_ready(&sh->rc)) sh->jst[j].completions = -1;
          sh->kop[j].destruct();
        } else {
          sh->cop[j].construct_with([&] { return unifex::connect(scope.complete(), rcv); });
          unifex::start(sh->cop[j].get());
          if (!sh->slot[j].run_when_ready(&sh->rc)) sh->jst[j].completions = -1;
          sh->cop[j].destruct();
        }
      });
    }
    sh->rc.active = (int)th.size() - 1;
    return th;
  };
  sc::MonitorCfg cfg;
  cfg.joins_started = 0;
  for (char c : jn) if (c != 'r') cfg.joins_started++;
  cfg.expect_stop = jn.find_first_of("krq") != std::string::npos;
  if (sp.find('x') != std::string::npos) cfg.fault_op = "spawn";
  auto monitor = [&](const dsched::Result& r) -> std::string { return sc::scope_monitor(r, cfg); };
  return vh::drive(cli, make, monitor);
}
