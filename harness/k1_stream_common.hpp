// k1_stream_common.hpp — shared pieces of the three K1 drivers of the concurrent half of C13
// (k1_stop_immediately.cpp, k1_take_until.cpp, k1_type_erased_next.cpp):
//
//   sc::src_stream<Tag>   a scripted source stream whose next() / cleanup() are asynchronous leaves:
//                         started by the adaptor, completed later from another virtual thread through
//                         sc::G->nctl[Tag::idx] / cctl[Tag::idx].  Their operation states are TRACKED:
//                         construction / destruction / start / completion are logged as actions
//                         (`!src.next.ctor`, `!src.next.start`, `!src.next.complete v 100`, `!src.next.dtor`),
//                         a destructor or a start()/completion on storage that does not hold a live
//                         op-state is logged as `... BAD` instead of being executed, and the storage is
//                         poisoned when the op-state is destroyed.
//   sc::consumer<Stream,Hooks>  a hand-written consumer of the adapted stream doing exactly what
//                         reduce_stream does, inline in the completion: value -> destroy the next-op,
//                         construct + start the next one; done / error -> destroy the next-op, construct
//                         + start cleanup; cleanup completion -> destroy the cleanup-op, `!cons.finished`.
//                         The storage of a destroyed op is poisoned (Hooks::poison_next / poison_cleanup).
//   sc::scan              a trace scanner for the direct monitors: per tracked name ctor/dtor/BAD counts,
//                         VIOL actions, completions per consumer op.
//
// All state of one run lives in sc::Run (create it with make_shared inside make(), set sc::G).
#pragma once
#include <unifex/receiver_concepts.hpp>
#include <unifex/sender_concepts.hpp>
#include <unifex/stream_concepts.hpp>
#include <unifex/get_stop_token.hpp>
#include <unifex/inplace_stop_token.hpp>
#include <unifex/unstoppable_token.hpp>
#include <unifex/manual_lifetime.hpp>
#include <unifex/blocking.hpp>
#include "vh.hpp"

namespace sc {

constexpr unsigned LIVE = 0x600DC0DEu, DEAD = 0xDEADDEADu;
struct err { int code; };
inline int code_of(std::exception_ptr ep) {
  try { std::rethrow_exception(ep); } catch (const err& e) { return e.code; } catch (...) { return -777; }
}

// one outstanding asynchronous leaf (a source next() or cleanup()) waiting to be completed
struct ctl {
  void* op = nullptr;
  void (*fn)(void*, char, int) = nullptr;
  bool outstanding = false;
  int starts = 0, completions = 0;
  // complete the outstanding leaf: kind 'v' value(v) / 'd' done / 'e' error(code v).  Blocks (a
  // scheduling point) until the leaf has been started.
  void complete(char kind, int v = 0) {
    dsched::block_until([this] { return outstanding; });
    fn(op, kind, v);
  }
};

struct Run;
inline Run* G = nullptr;
struct Run {
  ctl nctl[2], cctl[2];          // [Tag::idx]: the source (0) and the trigger (1) stream
  int viols = 0;
  bool cons_finished = false;    // the consumer's cleanup completed
  int cons_nexts = 0, cons_values = 0;
  char cons_last = '?';          // result of the consumer's last next(): v / d / e
  // called when start() is invoked on storage that holds no live source next-op; returns true
  // when the driver recovered (see k1_stop_immediately.cpp: the dead reference of finding 9)
  std::function<bool(const char*)> on_dead_start;
  // what the storage of a destroyed source op-state is filled with: bytes 0xEE, or (when set) this
  // pointer in every word, so that a reference member read from the dead op-state leads to a
  // tombstone object of the driver instead of a wild address
  void* poison_ptr = nullptr;
  virtual ~Run() { if (G == this) G = nullptr; }
};
inline void viol(const char* fmt, ...) __attribute__((format(printf, 1, 2)));
inline void viol(const char* fmt, ...) {
  char buf[400];
  va_list ap; va_start(ap, fmt); std::vsnprintf(buf, sizeof buf, fmt, ap); va_end(ap);
  if (G) G->viols++;
  dsched::action("VIOL %s", buf);
}

struct src_tag { static constexpr const char* name = "src"; static constexpr int idx = 0; };
struct trg_tag { static constexpr const char* name = "trg"; static constexpr int idx = 1; };

// ---- tracked op-state base: the name comes from the type, never from the (possibly dead) object ----
template <typename Tag, int Kind /* 0 next, 1 cleanup */, typename Derived>
struct tracked {
  static const char* kname() { return Kind ? "cleanup" : "next"; }
  volatile unsigned magic;
  bool outstanding = false;
  tracked() : magic(LIVE) { dsched::action("%s.%s.ctor", Tag::name, kname()); }
  tracked(tracked&&) = delete;
  bool alive() const { return magic == LIVE; }
  ~tracked() {
    if (magic != LIVE) {          // destructor run on storage holding no live op-state
      dsched::action("%s.%s.dtor BAD", Tag::name, kname());
      if (G) G->viols++;
      return;
    }
    if (outstanding) viol("%s.%s destroyed while outstanding", Tag::name, kname());
    dsched::action("%s.%s.dtor", Tag::name, kname());
    magic = DEAD;
    // poison everything behind the base sub-object (the members were destroyed already)
    constexpr std::size_t off = sizeof(tracked);
    char* tail = reinterpret_cast<char*>(static_cast<Derived*>(this)) + off;
    if (sizeof(Derived) > off) {
      std::memset(tail, 0xEE, sizeof(Derived) - off);
      if (G && G->poison_ptr) {
        std::size_t a = (alignof(void*) - reinterpret_cast<std::uintptr_t>(tail) % alignof(void*)) % alignof(void*);
        for (std::size_t i = a; i + sizeof(void*) <= sizeof(Derived) - off; i += sizeof(void*)) std::memcpy(tail + i, &G->poison_ptr, sizeof(void*));
      }
    }
  }
};

template <typename Tag, typename Receiver>
struct src_next_op : tracked<Tag, 0, src_next_op<Tag, Receiver>> {
  Receiver r;
  template <typename R2> explicit src_next_op(R2&& r2) : r((R2&&)r2) {}
  void start() noexcept {
    if (!this->alive()) {
      dsched::action("%s.next.start BAD", Tag::name);
      if (G) { G->viols++; if (G->on_dead_start) G->on_dead_start(Tag::name); }
      return;
    }
    auto& c = G->nctl[Tag::idx];
    if (c.outstanding) viol("%s.next started while another next is outstanding", Tag::name);
    if (G->cctl[Tag::idx].starts) viol("%s.next started after cleanup", Tag::name);
    c.op = this; c.fn = &do_complete; c.starts++;
    this->outstanding = true;
    dsched::action("%s.next.start", Tag::name);
    c.outstanding = true;
  }
  static void do_complete(void* p, char kind, int v) {
    auto* self = static_cast<src_next_op*>(p);
    auto& c = G->nctl[Tag::idx];
    c.outstanding = false; c.completions++;
    if (!self->alive()) { dsched::action("%s.next.complete BAD", Tag::name); G->viols++; return; }
    self->outstanding = false;
    if (kind == 'v') { dsched::action("%s.next.complete v %d", Tag::name, v); unifex::set_value(std::move(self->r), (int)v); }
    else if (kind == 'e') { dsched::action("%s.next.complete e %d", Tag::name, v); unifex::set_error(std::move(self->r), std::make_exception_ptr(err{v})); }
    else { dsched::action("%s.next.complete d", Tag::name); unifex::set_done(std::move(self->r)); }
  }
};

template <typename Tag, typename Receiver>
struct src_cleanup_op : tracked<Tag, 1, src_cleanup_op<Tag, Receiver>> {
  Receiver r;
  template <typename R2> explicit src_cleanup_op(R2&& r2) : r((R2&&)r2) {}
  void start() noexcept {
    if (!this->alive()) { dsched::action("%s.cleanup.start BAD", Tag::name); if (G) G->viols++; return; }
    auto& c = G->cctl[Tag::idx];
    if (c.starts) viol("%s.cleanup started twice", Tag::name);
    if (G->nctl[Tag::idx].outstanding) viol("%s.cleanup started while next is outstanding", Tag::name);
    c.op = this; c.fn = &do_complete; c.starts++;
    this->outstanding = true;
    dsched::action("%s.cleanup.start", Tag::name);
    c.outstanding = true;
  }
  static void do_complete(void* p, char kind, int v) {
    auto* self = static_cast<src_cleanup_op*>(p);
    auto& c = G->cctl[Tag::idx];
    c.outstanding = false; c.completions++;
    if (!self->alive()) { dsched::action("%s.cleanup.complete BAD", Tag::name); G->viols++; return; }
    self->outstanding = false;
    if (kind == 'e') { dsched::action("%s.cleanup.complete e %d", Tag::name, v); unifex::set_error(std::move(self->r), std::make_exception_ptr(err{v})); }
    else { dsched::action("%s.cleanup.complete d", Tag::name); unifex::set_done(std::move(self->r)); }
  }
};

template <typename Tag>
struct src_stream {
  struct next_sender {
    template <template <typename...> class Variant, template <typename...> class Tuple>
    using value_types = Variant<Tuple<int>>;
    template <template <typename...> class Variant>
    using error_types = Variant<std::exception_ptr>;
    static constexpr bool sends_done = true;
    static constexpr unifex::blocking_kind blocking = unifex::blocking_kind::never;
    static constexpr bool is_always_scheduler_affine = false;
    template <typename R>
    friend src_next_op<Tag, unifex::remove_cvref_t<R>> tag_invoke(unifex::tag_t<unifex::connect>, next_sender, R&& r) {
      return src_next_op<Tag, unifex::remove_cvref_t<R>>{(R&&)r};
    }
  };
  struct cleanup_sender {
    template <template <typename...> class Variant, template <typename...> class Tuple>
    using value_types = Variant<>;
    template <template <typename...> class Variant>
    using error_types = Variant<std::exception_ptr>;
    static constexpr bool sends_done = true;
    static constexpr unifex::blocking_kind blocking = unifex::blocking_kind::never;
    static constexpr bool is_always_scheduler_affine = false;
    template <typename R>
    friend src_cleanup_op<Tag, unifex::remove_cvref_t<R>> tag_invoke(unifex::tag_t<unifex::connect>, cleanup_sender, R&& r) {
      return src_cleanup_op<Tag, unifex::remove_cvref_t<R>>{(R&&)r};
    }
  };
  friend next_sender tag_invoke(unifex::tag_t<unifex::next>, src_stream&) noexcept { return {}; }
  friend cleanup_sender tag_invoke(unifex::tag_t<unifex::cleanup>, src_stream&) noexcept { return {}; }
};

// ---- the consumer ---------------------------------------------------------------------------------------
struct default_hooks {
  template <typename Op> static void name_next(Op&) {}
  template <typename Op> static void name_cleanup(Op&) {}
  static void poison_next(void* p, std::size_t n) { std::memset(p, 0xEE, n); }
  static void poison_cleanup(void* p, std::size_t n) { std::memset(p, 0xEE, n); }
  static void on_finished() {}
};

template <typename Stream, typename Hooks = default_hooks, typename Token = unifex::inplace_stop_token>
struct consumer {
  struct next_rcv {
    consumer* c;
    void set_value(int v) && noexcept { c->on_next('v', v); }
    void set_done() && noexcept { c->on_next('d', 0); }
    void set_error(std::exception_ptr e) && noexcept { c->on_next('e', code_of(e)); }
    friend Token tag_invoke(unifex::tag_t<unifex::get_stop_token>, const next_rcv& r) noexcept { return r.c->tok; }
  };
  struct cleanup_rcv {
    consumer* c;
    void set_done() && noexcept { c->on_cleanup('d', 0); }
    void set_error(std::exception_ptr e) && noexcept { c->on_cleanup('e', code_of(e)); }
    friend unifex::unstoppable_token tag_invoke(unifex::tag_t<unifex::get_stop_token>, const cleanup_rcv&) noexcept { return {}; }
  };
  using next_op_t = unifex::next_operation_t<Stream, next_rcv>;
  using cleanup_op_t = unifex::cleanup_operation_t<Stream, cleanup_rcv>;

  Stream& s;
  Token tok;
  alignas(next_op_t) unsigned char nbuf[sizeof(next_op_t)];
  alignas(cleanup_op_t) unsigned char cbuf[sizeof(cleanup_op_t)];
  bool next_live = false, cleanup_live = false;
  int cur_completions = 0, cleanup_completions = 0;

  consumer(Stream& strm, Token t) : s(strm), tok(t) {
    std::memset(nbuf, 0xEE, sizeof nbuf); std::memset(cbuf, 0xEE, sizeof cbuf);
  }
  next_op_t& nop() { return *reinterpret_cast<next_op_t*>(nbuf); }
  cleanup_op_t& cop() { return *reinterpret_cast<cleanup_op_t*>(cbuf); }

  void start_next() {
    if (next_live || cleanup_live) viol("consumer starts next() with an op alive");
    dsched::action("cons.next.ctor");
    ::new ((void*)nbuf) next_op_t(unifex::connect(unifex::next(s), next_rcv{this}));
    next_live = true; cur_completions = 0; G->cons_nexts++;
    Hooks::name_next(nop());
    unifex::start(nop());
  }
  void start_cleanup() {
    if (next_live || cleanup_live) viol("consumer starts cleanup() with an op alive");
    dsched::action("cons.cleanup.ctor");
    ::new ((void*)cbuf) cleanup_op_t(unifex::connect(unifex::cleanup(s), cleanup_rcv{this}));
    cleanup_live = true;
    Hooks::name_cleanup(cop());
    unifex::start(cop());
  }
  // completion of the consumer's next(): what reduce_stream's next receiver does
  void on_next(char kind, int v) {
    if (kind == 'v') dsched::action("cons.next v %d", v);
    else if (kind == 'e') dsched::action("cons.next e %d", v);
    else dsched::action("cons.next d");
    if (!next_live) { viol("next() completed with no next-op alive"); return; }
    if (++cur_completions > 1) { viol("next() completed twice"); return; }
    G->cons_last = kind;
    if (kind == 'v') G->cons_values++;
    nop().~next_op_t();
    next_live = false;
    dsched::action("cons.next.dtor");
    Hooks::poison_next(nbuf, sizeof nbuf);
    if (kind == 'v') start_next(); else start_cleanup();
  }
  void on_cleanup(char kind, int v) {
    if (kind == 'e') dsched::action("cons.cleanup e %d", v); else dsched::action("cons.cleanup d");
    if (!cleanup_live) { viol("cleanup() completed with no cleanup-op alive"); return; }
    if (++cleanup_completions > 1) { viol("cleanup() completed twice"); return; }
    cop().~cleanup_op_t();
    cleanup_live = false;
    dsched::action("cons.cleanup.dtor");
    Hooks::poison_cleanup(cbuf, sizeof cbuf);
    Hooks::on_finished();
    dsched::action("cons.finished");
    G->cons_finished = true;
  }
};

// ---- trace scanner for the direct monitors ----------------------------------------------------------------
struct scan {
  std::map<std::string, int> n;       // action text (without the thread prefix, arguments stripped for known ones) -> count
  std::vector<std::string> acts;      // all actions in order, without "t<k> !"
  std::vector<int> values;            // values delivered to the consumer
  std::vector<int> produced;          // values produced by the source stream
  std::string first_bad, first_viol;
  explicit scan(const dsched::Result& r) {
    for (auto& e : r.trace) {
      auto p = e.find(" !");
      if (p == std::string::npos) continue;
      std::string a = e.substr(p + 2);
      acts.push_back(a);
      n[a]++;
      if (a.rfind("VIOL", 0) == 0 && first_viol.empty()) first_viol = e;
      if (a.size() > 4 && a.compare(a.size() - 4, 4, " BAD") == 0 && first_bad.empty()) first_bad = e;
      int v;
      if (std::sscanf(a.c_str(), "cons.next v %d", &v) == 1) { values.push_back(v); n["cons.next v"]++; }
      if (std::sscanf(a.c_str(), "src.next.complete v %d", &v) == 1) { produced.push_back(v); n["src.next.complete v"]++; }
    }
  }
  int count(const std::string& a) const { auto it = n.find(a); return it == n.end() ? 0 : it->second; }
  int index(const std::string& a, std::size_t from = 0) const {
    for (std::size_t i = from; i < acts.size(); ++i) if (acts[i] == a) return (int)i;
    return -1;
  }
  // every tracked op-state of <name> (e.g. "src.cleanup") constructed = destroyed, no BAD
  std::string balanced(const std::string& name) const {
    int c = count(name + ".ctor"), d = count(name + ".dtor"), b = count(name + ".dtor BAD");
    if (b || c != d) return name + " op-states: constructed " + std::to_string(c) + ", destroyed " + std::to_string(d) + ", destructor on dead storage " + std::to_string(b);
    return "";
  }
  // the delivered values are a subsequence of the produced ones, strictly increasing (no duplicate, none invented)
  std::string values_ok() const {
    std::size_t j = 0;
    for (int v : values) {
      while (j < produced.size() && produced[j] != v) ++j;
      if (j == produced.size()) return "consumer received value " + std::to_string(v) + " which the source did not produce at that point (duplicate or invented)";
      ++j;
    }
    return "";
  }
};

}  // namespace sc
