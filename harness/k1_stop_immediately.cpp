// K1 driver for the concurrent half of C13, unit stop_immediately: the real
// unifex::stop_immediately<int>(source) over the scripted source stream of k1_stream_common.hpp,
// consumed by sc::consumer (what reduce_stream does, inline in each completion).
//
// program:  <script> <stop|nostop>
//   script   how thread A completes the successive next() operations of the SOURCE stream:
//            v = value (100, 101, ...), d = done, e = error (code 7); when the script is used up: d.
//            (the source ignores stop requests: an abandoned next() stays outstanding until A completes it)
//   stop     thread C requests stop on the consumer's stop source at any time
// threads: 0 = the first start_next() of the consumer; 1 = A (completes the source's next()s and its
// cleanup()); 2 = C; 3 = finaliser (blocked until the consumer finished and the others are done).
// Every later step of the consumer runs inline on the thread that completes its next()/cleanup().
//
// Dead-reference detection (DESIGN.md section 8, finding 9): the storage of a destroyed consumer next-op is
// filled with the address of a TOMBSTONE (zeroed storage of the stream's size).  If next-op start()
// reads its reference member `stream_` after the op was destroyed it reaches the tombstone's nextOp_,
// whose start() finds no live op-state: `!src.next.start BAD`; the driver then starts the real source
// next-op (what the repaired code does) so that the run can go on and be compared with the model.
// The defect of finding 9 is a read of a reference member after the object died; at -O1 g++ keeps that
// member in a register across the call and the machine code happens not to re-read it.  This
// translation unit is therefore compiled without optimisation, whatever the configuration says.
#pragma GCC optimize("O0")
#include <unifex/stop_immediately.hpp>
#include "k1_stream_common.hpp"
using namespace unifex;

namespace {

using src_t = sc::src_stream<sc::src_tag>;
using stream_t = decltype(stop_immediately<int>(std::declval<src_t>()));

struct Shared;
Shared* S = nullptr;

struct hooks : sc::default_hooks {
  template <typename Op> static void name_next(Op& op);
  static void poison_next(void* p, std::size_t n);
  static void on_finished();
};
using consumer_t = sc::consumer<stream_t, hooks>;

// what the tombstone's cleanupOp_ points to: handle_signal() reading its receiver's stream_ after
// nextOp_.destruct() destroyed the op-state holding that receiver ends up here
struct fake_cleanup final : stream_t::cleanup_operation_base {
  void start_cleanup() noexcept override;
};

struct Shared : sc::Run {
  fake_cleanup fake;
  inplace_stop_source ext;
  manual_lifetime<stream_t> strm;
  bool strm_live = false;
  alignas(stream_t) unsigned char tomb[sizeof(stream_t)];
  manual_lifetime<consumer_t> cons;
  bool done[3] = {false, false, false};
  Shared() {
    std::memset(tomb, 0, sizeof tomb);
    reinterpret_cast<stream_t*>(tomb)->cleanupOp_ = &fake;
    poison_ptr = tomb;
  }
  ~Shared() { if (strm_live) strm.destruct(); if (S == this) S = nullptr; }
};

void fake_cleanup::start_cleanup() noexcept {
  dsched::action("si.handle_signal dead-receiver BAD");
  S->viols++;
  if (S->strm_live) S->strm.get().cleanupOp_->start_cleanup();   // what the repaired code does
}
template <typename Op>
void hooks::name_next(Op& op) {
  // the stop callback is constructed by start(); its completion flag lives at a fixed place of the op
  dsched::name_range(&op.stopCallback_.get().callbackCompleted_, sizeof(op.stopCallback_.get().callbackCompleted_), "cb.completed");
}
void hooks::poison_next(void* p, std::size_t n) {
  auto* w = static_cast<void**>(p);
  for (std::size_t i = 0; i + sizeof(void*) <= n; i += sizeof(void*)) *w++ = (void*)S->tomb;
}
void hooks::on_finished() {
  S->strm.destruct();
  S->strm_live = false;
  std::memset((void*)&S->strm, 0xEE, sizeof(S->strm));
  dsched::action("stream.destroyed");
}

std::vector<std::function<void()>> make_threads(const std::string& script, bool stop) {
  auto sh = std::make_shared<Shared>();
  sc::G = sh.get(); S = sh.get();
  std::vector<std::function<void()>> th;
  // 0: construct the stream, first next()
  th.push_back([sh] {
    sh->strm.construct_with([] { return stop_immediately<int>(src_t{}); });
    sh->strm_live = true;
    auto& st = sh->strm.get();
    dsched::name_range(&st.state_, sizeof(st.state_), "si.state");
    dsched::name_range(&st.stopSource_.state_, sizeof(st.stopSource_.state_), "si.src");
    dsched::name_range(&sh->ext.state_, sizeof(sh->ext.state_), "ext.state");
    sh->on_dead_start = [p = sh.get()](const char*) {
      // start() reached the source next-op through the dead reference: do what the repaired code does
      if (p->strm_live) unifex::start(p->strm.get().nextOp_.get());
      return true;
    };
    sh->cons.construct(st, sh->ext.get_token());
    sh->cons.get().start_next();
    sh->done[0] = true;
  });
  // 1: A
  th.push_back([sh, script] {
    std::size_t i = 0;
    for (;;) {
      dsched::block_until([&] { return sh->nctl[0].outstanding || sh->cctl[0].outstanding || sh->cons_finished; });
      if (sh->nctl[0].outstanding) {
        char k = i < script.size() ? script[i] : 'd';
        sh->nctl[0].complete(k, k == 'v' ? 100 + (int)i : 7);
        ++i;
      } else if (sh->cctl[0].outstanding) {
        sh->cctl[0].complete('d');
      } else {
        break;
      }
    }
    sh->done[1] = true;
  });
  // 2: C
  th.push_back([sh, stop] {
    if (stop) {
      sh->ext.request_stop();
      dsched::action("stop.returned");
    }
    sh->done[2] = true;
  });
  // 3: finaliser
  th.push_back([sh] {
    dsched::block_until([&] { return sh->cons_finished && sh->done[0] && sh->done[1] && sh->done[2]; });
    dsched::action("end viols=%d nexts=%d values=%d last=%c", sh->viols, sh->cons_nexts, sh->cons_values, sh->cons_last);
  });
  return th;
}

}  // namespace

int main(int argc, char** argv) {
  auto cli = vh::parse_cli(argc, argv);
  std::string script = cli.prog.at(0);
  if (script == "-") script = "";
  bool stop = cli.prog.size() > 1 && cli.prog[1] == "stop";
  auto make = [&] { return make_threads(script, stop); };
  // Direct monitor: the property evaluated on the implementation's own run.  The verdict starts with a
  // tag; the props module turns it into the violation key.
  auto monitor = [&](const dsched::Result& r) -> std::string {
    sc::scan sc_(r);
    // finding 9: start() went through the dead reference member
    if (sc_.count("src.next.start BAD"))
      return "UAF9: next-op start() used stream_ after the next-op was destroyed (reached the tombstone): " + sc_.first_bad;
    if (sc_.count("si.handle_signal dead-receiver BAD"))
      return "UAF9B: next_receiver::handle_signal() used its member stream_ after nextOp_.destruct() destroyed the op-state holding the receiver: " + sc_.first_bad;
    if (!sc_.first_bad.empty()) return "BAD: operation on storage holding no live op-state: " + sc_.first_bad;
    if (!sc_.first_viol.empty()) return "VIOL: " + sc_.first_viol;
    for (auto nm : {"src.next", "src.cleanup"}) { auto b = sc_.balanced(nm); if (!b.empty()) return "OPS: " + b; }
    if (sc_.count("cons.next.ctor") != sc_.count("cons.next.dtor") || sc_.count("cons.cleanup.ctor") != 1 || sc_.count("cons.cleanup.dtor") != 1)
      return "OPS: consumer op-states not constructed/destroyed once each";
    auto vo = sc_.values_ok(); if (!vo.empty()) return "VALUES: " + vo;
    // walk the trace
    bool destroyed = false, won = false, open = false, src_out = false, cleanup_started = false, cleanup_done = false;
    int won_tid = -1, src_starts = 0, completions = 0; bool saw_done = false;
    for (auto& e : r.trace) {
      int tid = std::atoi(e.c_str() + 1);
      auto sp = e.find(' ');
      std::string rest = e.substr(sp + 1);
      if (destroyed && (rest.rfind("si.", 0) == 0)) return "UAF: stream accessed after it was destroyed: " + e;
      if (rest == "!stream.destroyed") destroyed = true;
      if (rest == "!cons.next.ctor") { if (open) return "NEXT: next() started before the previous one completed"; open = true; completions = 0; }
      if (rest.rfind("!cons.next ", 0) == 0) {
        if (!open || ++completions > 1) return "NEXT: next() completed twice or without being started: " + e;
        open = false;
        if (saw_done) return "NEXT: a next() completed after done/error was delivered: " + e;
        if (rest != "!cons.next.ctor" && rest.rfind("!cons.next v", 0) != 0) saw_done = true;
        if (won) {
          if (rest != "!cons.next d") return "STOP: the stop callback took the receiver but next() completed with: " + e;
          if (tid != won_tid) return "STOP: done not delivered by the thread running the stop callback: " + e;
          won = false;
        }
      }
      // the stop callback wins: state_ source_next_active(2) -> source_next_active_stream_stopped(3)
      if (rest.rfind("si.state C.", 0) == 0 && rest.find(" 2->3 ok") != std::string::npos) { won = true; won_tid = tid; }
      else if (won && tid == won_tid && rest.rfind("si.state", 0) == 0) return "STOP: the stop callback touched state_ again before delivering done: " + e;
      if (rest == "!src.next.start") { src_out = true; ++src_starts; }
      if (rest.rfind("!src.next.complete", 0) == 0) src_out = false;
      if (rest == "!src.cleanup.start") { if (src_out) return "CLEANUP: cleanup(source) started while next(source) is outstanding"; cleanup_started = true; }
      if (rest.rfind("!src.cleanup.complete", 0) == 0) cleanup_done = true;
      if (rest.rfind("!cons.cleanup ", 0) == 0) {
        if (src_out) return "CLEANUP: cleanup() completed while the abandoned next(source) is still outstanding";
        if (src_starts > 0 && !cleanup_done) return "CLEANUP: cleanup() completed before cleanup(source) completed";
        if (src_starts == 0 && cleanup_started) return "CLEANUP: cleanup(source) run although next(source) was never started";
      }
    }
    if (open) return "NEXT: the last next() never completed";
    if (!destroyed) return "END: the consumer never finished";
    if ((src_starts > 0) != cleanup_started) return "CLEANUP: cleanup(source) started=" + std::to_string(cleanup_started) + " with " + std::to_string(src_starts) + " next(source) started";
    if (sc_.count("src.next.start") != sc_.count("src.next.ctor")) return "OPS: a constructed next(source) op was never started";
    return "";
  };
  return vh::drive(cli, make, monitor);
}
