// K1 driver: the real unifex::async_pass<int> (C++20).  One virtual thread per party:
//   c   async_call(payload)        (payload of thread t is 100+t)
//   x   async_throw(vh::err{100+t})
//   a   async_accept()
//   tc  try_call(payload)          ta  try_accept()
//   sK  request_stop() on the stop source of the party run by thread K
// program:  <thread,thread,...> <stop|deaf> [destroy]
//   destroy: every receiver destroys (and poisons) its operation state inside the completion signal
//   stop: the receivers' scheduler is unifex::inline_scheduler, which (like every scheduler of the
//         library) completes schedule() with set_done when the receiver's stop token is stopped;
//   deaf: a scheduler that never looks at the stop token.
// Each async party is connected to a receiver carrying its own inplace_stop_token and the scheduler,
// so the operation is cancellable<...>::type<inplace_stop_token,false> around call_op/throw_op/
// accept_op and completes through completion_forwarder.
// actions: "call <t> value|done", "accept <t> got <p>|error <p>|done", "trycall <t> 0|1",
//          "tryaccept <t> got <p>|error <p>|none"
// verif_shim.hpp's fetch_or deduces its argument type, which rejects cancellable.hpp's
// state_.fetch_or(<unscoped enum>, order) on atomic<uint8_t>; unit C19 carries a private
// specialisation for that.  Needed until the shim declares `U NAME(T arg, ...)`.
#if __has_include("c19_shimfix.hpp")
#include "c19_shimfix.hpp"
#endif
#include <unifex/async_pass.hpp>
#include <unifex/inline_scheduler.hpp>
#include "vh.hpp"
using namespace unifex;

#if __cplusplus < 201911L
#error "async_pass needs C++20 (cfg shim20)"
#endif

namespace {

// a scheduler that ignores the stop token (completes inline with set_value, always)
struct deaf_scheduler {
  template <typename R>
  struct op {
    R r;
    void start() noexcept { unifex::set_value(std::move(r)); }
  };
  struct task {
    template <template <typename...> class Variant, template <typename...> class Tuple>
    using value_types = Variant<Tuple<>>;
    template <template <typename...> class Variant>
    using error_types = Variant<std::exception_ptr>;
    static constexpr bool sends_done = true;
    static constexpr blocking_kind blocking = blocking_kind::always_inline;
    template <typename R>
    op<remove_cvref_t<R>> connect(R&& r) { return op<remove_cvref_t<R>>{(R&&)r}; }
  };
  constexpr task schedule() const noexcept { return {}; }
  friend bool operator==(deaf_scheduler, deaf_scheduler) noexcept { return true; }
  friend bool operator!=(deaf_scheduler, deaf_scheduler) noexcept { return false; }
};

constexpr int MAXT = 6;

struct Cells {
  int completions[MAXT] = {};
  // "destroy" mode: the receiver destroys its operation state from inside the completion signal
  // (what spawn_detached / async_scope / a coroutine frame do) and poisons the storage
  std::function<void()> destroy[MAXT];
  void finish(int id) { completions[id]++; if (destroy[id]) { auto f = std::move(destroy[id]); destroy[id] = nullptr; f(); } }
};

template <typename Sched>
struct recv {
  Cells* cells;
  int id;
  bool acceptor;
  inplace_stop_token tok;
  // (members are copied to locals first: finish() may destroy the operation holding *this)
  void set_value() && noexcept { auto* c = cells; int i = id; dsched::action("call %d value", i); c->finish(i); }
  void set_value(int v) && noexcept { auto* c = cells; int i = id; dsched::action("accept %d got %d", i, v); c->finish(i); }
  void set_error(std::exception_ptr e) && noexcept {
    auto* c = cells; int i = id; bool a = acceptor;
    int code = -1;
    try { std::rethrow_exception(e); } catch (const vh::err& x) { code = x.code; } catch (...) {}
    dsched::action("%s %d error %d", a ? "accept" : "call", i, code);
    c->finish(i);
  }
  void set_done() && noexcept { auto* c = cells; int i = id; bool a = acceptor; dsched::action("%s %d done", a ? "accept" : "call", i); c->finish(i); }
  friend inplace_stop_token tag_invoke(tag_t<get_stop_token>, const recv& r) noexcept { return r.tok; }
  friend Sched tag_invoke(tag_t<get_scheduler>, const recv&) noexcept { return Sched{}; }
};

std::vector<std::string> split(const std::string& s, char c) {
  std::vector<std::string> r; std::string cur;
  for (char ch : s) { if (ch == c) { r.push_back(cur); cur.clear(); } else cur += ch; }
  r.push_back(cur);
  return r;
}

template <typename Sched>
std::vector<std::function<void()>> make_threads(const std::vector<std::string>& prog, bool destroy_mode) {
  using pass_t = async_pass<int>;
  using R = recv<Sched>;
  using call_op_t = decltype(unifex::connect(std::declval<pass_t&>().async_call(std::declval<int&>()), std::declval<R>()));
  using throw_op_t = decltype(unifex::connect(std::declval<pass_t&>().async_throw(std::declval<std::exception_ptr>()), std::declval<R>()));
  using acc_op_t = decltype(unifex::connect(std::declval<pass_t&>().async_accept(), std::declval<R>()));
  struct Shared {
    pass_t pass;
    Cells cells;
    int payload[MAXT];
    inplace_stop_source ext[MAXT];
    manual_lifetime<call_op_t> cop[MAXT];
    manual_lifetime<throw_op_t> xop[MAXT];
    manual_lifetime<acc_op_t> aop[MAXT];
    char nm[MAXT][4][16];
  };
  auto sh = std::make_shared<Shared>();
  std::vector<std::function<void()>> th;
  const int n = (int)prog.size();
  if (n > MAXT) { std::fprintf(stderr, "too many threads\n"); std::exit(2); }
  for (int t = 0; t < n; ++t) {
    sh->payload[t] = 100 + t;
    std::snprintf(sh->nm[t][0], 16, "cs%d", t);
    std::snprintf(sh->nm[t][1], 16, "sync%d", t);
    std::snprintf(sh->nm[t][2], 16, "ext%d", t);
    std::snprintf(sh->nm[t][3], 16, "%s%d", prog[t] == "a" ? "a" : "c", t);
  }
  // common tail of an async party: name the locations, start, name the start() frame's flag
  auto run_party = [destroy_mode](std::shared_ptr<Shared> sh, int t, auto& op, std::uint64_t word) {
    dsched::name_range(&sh->pass.state_, sizeof(sh->pass.state_), "w");
    dsched::name_range(&op.state_, sizeof(op.state_), sh->nm[t][0]);
    dsched::name_range(&sh->ext[t].state_, 1, sh->nm[t][2]);
    dsched::name_value(word, sh->nm[t][3]);
    if (destroy_mode) {
      using op_t = std::remove_reference_t<decltype(op)>;
      op_t* p = &op;
      Shared* raw = sh.get();
      raw->cells.destroy[t] = [p, t] {
        dsched::action("destroy %d", t);
        p->~op_t();
        std::memset((void*)p, 0xDD, sizeof(op_t));
      };
      unifex::start(op);   // the operation may be gone when start() returns: touch nothing
      return;
    }
    unifex::start(op);
    // stop_type::start() keeps the address of its stack-local flag in sync_complete_; names are
    // resolved when the trace is rendered, so naming it now still labels the earlier accesses
    if (op.sync_complete_) dsched::name_range(op.sync_complete_, 1, sh->nm[t][1]);
  };
  for (int t = 0; t < n; ++t) {
    const std::string k = prog[t];
    if (k == "c") {
      th.push_back([sh, t, run_party] {
        sh->cop[t].construct_with([&] {
          return unifex::connect(sh->pass.async_call(sh->payload[t]), R{&sh->cells, t, false, sh->ext[t].get_token()});
        });
        auto& op = sh->cop[t].get();
        auto* base = static_cast<_pass::call_or_throw_op_base<false>*>(&op.nested_op());
        run_party(sh, t, op, (std::uint64_t) reinterpret_cast<std::uintptr_t>(base));
      });
    } else if (k == "x") {
      th.push_back([sh, t, run_party] {
        sh->xop[t].construct_with([&] {
          return unifex::connect(sh->pass.async_throw(std::make_exception_ptr(vh::err{100 + t})),
                                 R{&sh->cells, t, false, sh->ext[t].get_token()});
        });
        auto& op = sh->xop[t].get();
        auto* base = static_cast<_pass::call_or_throw_op_base<false>*>(&op.nested_op());
        run_party(sh, t, op, (std::uint64_t) reinterpret_cast<std::uintptr_t>(base));
      });
    } else if (k == "a") {
      th.push_back([sh, t, run_party] {
        sh->aop[t].construct_with([&] {
          return unifex::connect(sh->pass.async_accept(), R{&sh->cells, t, true, sh->ext[t].get_token()});
        });
        auto& op = sh->aop[t].get();
        auto* base = static_cast<_pass::accept_op_base_noargs*>(&op.nested_op());
        // dsched renders a tagged pointer as <name>|<low bits>
        run_party(sh, t, op, (std::uint64_t) reinterpret_cast<std::uintptr_t>(base));
      });
    } else if (k == "tc") {
      th.push_back([sh, t] {
        dsched::name_range(&sh->pass.state_, sizeof(sh->pass.state_), "w");
        bool ok = sh->pass.try_call(std::move(sh->payload[t]));
        dsched::action("trycall %d %d", t, (int)ok);
      });
    } else if (k == "ta") {
      th.push_back([sh, t] {
        dsched::name_range(&sh->pass.state_, sizeof(sh->pass.state_), "w");
        try {
          auto r = sh->pass.try_accept();
          if (r) dsched::action("tryaccept %d got %d", t, std::get<0>(*r));
          else dsched::action("tryaccept %d none", t);
        } catch (const vh::err& e) {
          dsched::action("tryaccept %d error %d", t, e.code);
        }
      });
    } else if (k.size() >= 2 && k[0] == 's') {
      int target = std::atoi(k.c_str() + 1);
      th.push_back([sh, target] {
        dsched::name_range(&sh->ext[target].state_, 1, sh->nm[target][2]);
        sh->ext[target].request_stop();
      });
    } else {
      std::fprintf(stderr, "bad thread kind '%s'\n", k.c_str());
      std::exit(2);
    }
  }
  return th;
}

}  // namespace

int main(int argc, char** argv) {
  auto cli = vh::parse_cli(argc, argv);
  auto prog = split(cli.prog.at(0), ',');
  std::string hop = cli.prog.size() > 1 ? cli.prog[1] : "stop";
  const int n = (int)prog.size();
  const bool destroy_mode = cli.prog.size() > 2 && cli.prog[2] == "destroy";
  auto make = [&]() -> std::vector<std::function<void()>> {
    if (hop == "deaf") return make_threads<deaf_scheduler>(prog, destroy_mode);
    return make_threads<inline_scheduler>(prog, destroy_mode);
  };
  // direct monitor: the property evaluated on the implementation's own actions
  auto monitor = [&](const dsched::Result& r) -> std::string {
    std::vector<int> comp(n, 0);          // completions per async party
    std::vector<std::string> how(n);      // "value" / "done" / "got" / "error"
    std::map<int, int> got;               // payload -> times received
    std::map<int, int> trycall;           // thread -> result
    for (auto& e : r.trace) {
      {  // destroy mode poisons a destroyed operation with 0xDD: a later access shows the poison
        auto q = e.find(" cs");
        if (q != std::string::npos && (e.find(" 221->") != std::string::npos || e.find(" 223->") != std::string::npos))
          return "cancellable state_ accessed after the operation was destroyed by its receiver: " + e;
      }
      auto p = e.find(" !");
      if (p == std::string::npos) continue;
      std::istringstream is(e.substr(p + 2));
      std::string what, res; int t = -1, v = -1;
      is >> what >> t >> res >> v;
      if (what == "call" || what == "accept") { comp[t]++; how[t] = res; if (res == "got" || res == "error") got[v]++; }
      else if (what == "trycall") trycall[t] = std::atoi(res.c_str());
      else if (what == "tryaccept") { if (res == "got" || res == "error") got[v]++; }
    }
    bool caller_pending = false, acceptor_pending = false;
    std::vector<bool> has_stopper(n, false);
    for (int t = 0; t < n; ++t) if (prog[t][0] == 's') has_stopper[std::atoi(prog[t].c_str() + 1)] = true;
    for (int t = 0; t < n; ++t) {
      bool party = prog[t] == "c" || prog[t] == "x" || prog[t] == "a";
      if (!party) continue;
      if (comp[t] > 1) return "party " + std::to_string(t) + " completed " + std::to_string(comp[t]) + " times";
      if (comp[t] == 0) {
        if (has_stopper[t]) return "party " + std::to_string(t) + " never completed although its stop was requested";
        (prog[t] == "a" ? acceptor_pending : caller_pending) = true;
      }
    }
    if (caller_pending && acceptor_pending) return "a caller and an acceptor are both left waiting";
    for (auto& g : got) if (g.second > 1) return "payload " + std::to_string(g.first) + " received " + std::to_string(g.second) + " times";
    for (int t = 0; t < n; ++t) {
      int pay = 100 + t;
      if (prog[t] == "c" || prog[t] == "x") {
        if (how[t] == "value" && !got.count(pay)) return "call " + std::to_string(t) + " completed with value but no accept received its payload";
        if (how[t] == "done" && got.count(pay)) return "call " + std::to_string(t) + " completed with done although its payload was accepted";
        if (comp[t] == 0 && got.count(pay)) return "call " + std::to_string(t) + " never completed although its payload was accepted";
      }
      if (prog[t] == "tc") {
        if (trycall[t] == 1 && !got.count(pay)) return "try_call " + std::to_string(t) + " returned true but nobody received its payload";
        if (trycall[t] == 0 && got.count(pay)) return "try_call " + std::to_string(t) + " returned false but its payload was received";
      }
    }
    for (auto& g : got) {
      int t = g.first - 100;
      if (t < 0 || t >= n || !(prog[t] == "c" || prog[t] == "x" || prog[t] == "tc")) return "received a payload nobody sent: " + std::to_string(g.first);
    }
    return "";
  };
  return vh::drive(cli, make, monitor);
}
