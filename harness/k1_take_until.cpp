// K1 driver for the concurrent half of C13, unit take_until: the real
//   unifex::take_until(sc::src_stream<sc::src_tag>{}, sc::src_stream<sc::trg_tag>{})
// over the scripted source streams of k1_stream_common.hpp (asynchronous next() / cleanup() leaves with
// tracked op-states), consumed by sc::consumer (what reduce_stream does, inline in each completion)
// whose receiver carries the token of an external stop source `ext`.
//
// program:  <script> <trg> <srccl> <trgcl> <stop|nostop> [realfree]
//   script   how thread A completes the successive next() operations of the SOURCE stream:
//            v = value (100, 101, ...), d = done, e = error (code 5).  The scripted sources ignore stop
//            requests (take_until only forwards them), so every script must end with d or e.
//   trg      v | d | e : how thread B completes the next() of the TRIGGER stream (take_until treats the
//            three alike).  B always completes it at some point of the schedule: take_until starts
//            cleanup(trigger) only after next(trigger) has completed, whoever asked for the cleanup.
//   srccl    d | e : completion of cleanup(source) (by A, after its last next()); error code 7
//   trgcl    d | e : completion of cleanup(trigger) (by B); error code 8
//   stop     thread C calls ext.request_stop() at any time
//   realfree (cfg shimasan17) the stream lives on the heap and is really freed when the consumer has
//            finished, the storage of the consumer's cleanup-op is ASan-poisoned when it is destroyed
// threads: 0 = the first start_next() of the consumer; 1 = A; 2 = B; 3 = C; 4 = finaliser (blocked until
// the others are done; logs `!end finished=<0|1> viols=<n>`).  Every later step of the consumer runs inline
// on the thread that completes its next() / cleanup().
// Named locations: tu.ready (cleanupReady_), tu.src (stopSource_.state_), tu.completed (cleanupCompleted_
// of the consumer's cleanup-op), ext.state, cb.completed (callbackCompleted_ of the cancel callback inside
// the consumer's current next-op).  When the consumer finishes, the stream is destroyed and poisoned
// (`!stream.destroyed`): any later access to tu.* / cb.completed is a use-after-free.
//
// Compiled without optimisation whatever the configuration says: a read of a member of a destroyed
// (poisoned) op-state must really go to memory.
#pragma GCC optimize("O0")
#include <unifex/take_until.hpp>
#include "k1_stream_common.hpp"
#if defined(__SANITIZE_ADDRESS__)
#  include <sanitizer/asan_interface.h>
#endif
using namespace unifex;

namespace {

using src_t = sc::src_stream<sc::src_tag>;
using trg_t = sc::src_stream<sc::trg_tag>;
using stream_t = decltype(take_until(std::declval<src_t>(), std::declval<trg_t>()));

struct Shared;
Shared* S = nullptr;

struct hooks : sc::default_hooks {
  template <typename Op> static void name_next(Op& op);
  template <typename Op> static void name_cleanup(Op& op);
  static void poison_cleanup(void* p, std::size_t n);
  static void on_finished();
};
using consumer_t = sc::consumer<stream_t, hooks>;

struct Shared : sc::Run {
  inplace_stop_source ext;
  bool realfree = false;
  stream_t* strm = nullptr;                 // heap storage (really freed with `realfree`)
  bool strm_live = false;
  manual_lifetime<consumer_t> cons;
  bool cons_live = false;
  bool done[4] = {false, false, false, false};
  // an unnamed (untraced) atomic of the driver: reading it is a preemption point.  Without it a thread
  // would go from the return of one completion straight into the next one (block_until does not yield
  // when its condition already holds), e.g. the source cleanup would always complete before anything
  // else can happen after cleanup start() returned.
  std::atomic<int> tick{0};
  void yield_point() { (void)tick.load(std::memory_order_relaxed); }
  ~Shared() {
    if (strm_live) strm->~stream_t();
    if (strm && !(realfree && !strm_live)) ::operator delete((void*)strm);
    if (S == this) S = nullptr;
  }
};

template <typename Op>
void hooks::name_next(Op& op) {
  // the stop callback is constructed by start(); its completion flag lives at a fixed place of the op
  auto& cb = op.stopCallback_.get();
  dsched::name_range(&cb.callbackCompleted_, sizeof(cb.callbackCompleted_), "cb.completed");
}
template <typename Op>
void hooks::name_cleanup(Op& op) {
  dsched::name_range(&op.cleanupCompleted_, sizeof(op.cleanupCompleted_), "tu.completed");
}
void hooks::poison_cleanup(void* p, std::size_t n) {
  std::memset(p, 0xEE, n);
#if defined(__SANITIZE_ADDRESS__)
  if (S->realfree) ASAN_POISON_MEMORY_REGION(p, n);
#endif
}
void hooks::on_finished() {
  S->strm->~stream_t();
  S->strm_live = false;
  if (S->realfree) ::operator delete((void*)S->strm);
  else std::memset((void*)S->strm, 0xEE, sizeof(stream_t));
  dsched::action("stream.destroyed");
}

struct Program {
  std::string script; char trg = 'v', srccl = 'd', trgcl = 'd'; bool stop = false, realfree = false;
};

std::vector<std::function<void()>> make_threads(const Program& pr) {
  auto sh = std::make_shared<Shared>();
  sc::G = sh.get(); S = sh.get();
  sh->realfree = pr.realfree;
  std::vector<std::function<void()>> th;
  // 0: the consumer's first next()
  th.push_back([sh] {
    sh->strm = static_cast<stream_t*>(::operator new(sizeof(stream_t)));
    ::new ((void*)sh->strm) stream_t(src_t{}, trg_t{});
    sh->strm_live = true;
    dsched::name_range(&sh->ext.state_, sizeof(sh->ext.state_), "ext.state");
    dsched::name_range(&sh->strm->cleanupReady_, sizeof(sh->strm->cleanupReady_), "tu.ready");
    dsched::name_range(&sh->strm->stopSource_.state_, sizeof(sh->strm->stopSource_.state_), "tu.src");
    sh->cons.construct(*sh->strm, sh->ext.get_token());
    sh->cons_live = true;
    sh->cons.get().start_next();
    sh->done[0] = true;
  });
  // 1: A — the source stream's completions
  th.push_back([sh, pr] {
    int i = 0;
    for (char k : pr.script) { sh->yield_point(); sh->nctl[0].complete(k, k == 'v' ? 100 + i++ : 5); }
    dsched::block_until([&] { return sh->cctl[0].outstanding; });
    sh->yield_point();
    sh->cctl[0].complete(pr.srccl, 7);
    sh->done[1] = true;
  });
  // 2: B — the trigger stream's completions
  th.push_back([sh, pr] {
    sh->nctl[1].complete(pr.trg, pr.trg == 'v' ? 200 : 6);
    dsched::block_until([&] { return sh->cctl[1].outstanding; });
    sh->yield_point();
    sh->cctl[1].complete(pr.trgcl, 8);
    sh->done[2] = true;
  });
  // 3: C — the consumer's stop source
  th.push_back([sh, pr] {
    if (pr.stop) {
      dsched::name_range(&sh->ext.state_, sizeof(sh->ext.state_), "ext.state");
      sh->ext.request_stop();
    }
    sh->done[3] = true;
  });
  // 4: finaliser
  th.push_back([sh] {
    dsched::block_until([&] { return sh->done[0] && sh->done[1] && sh->done[2] && sh->done[3]; });
    dsched::action("end finished=%d viols=%d nexts=%d values=%d last=%c", (int)sh->cons_finished, sh->viols,
                   sh->cons_nexts, sh->cons_values, sh->cons_last);
  });
  return th;
}

bool has(const std::string& s, const char* sub) { return s.find(sub) != std::string::npos; }

}  // namespace

int main(int argc, char** argv) {
  std::set_terminate([] {
    if (dsched::active()) { dsched::action("TERMINATE"); dsched::block_until([] { return false; }); }
    std::abort();
  });
  auto cli = vh::parse_cli(argc, argv);
  Program pr;
  pr.script = cli.prog.at(0);
  pr.trg = cli.prog.at(1)[0]; pr.srccl = cli.prog.at(2)[0]; pr.trgcl = cli.prog.at(3)[0];
  pr.stop = cli.prog.at(4) == "stop";
  pr.realfree = cli.prog.size() > 5 && cli.prog[5] == "realfree";
  if (pr.script.empty() || (pr.script.back() != 'd' && pr.script.back() != 'e') ||
      pr.script.find_first_of("de") != pr.script.size() - 1) {
    std::fprintf(stderr, "script must be v* followed by one d or e\n");
    return 2;
  }
  auto make = [&] { return make_threads(pr); };

  // Direct monitor: the property itself on the implementation's own run.  The verdict starts with a tag;
  // tools/props turns it into the violation key.
  auto monitor = [&](const dsched::Result& r) -> std::string {
    sc::scan sc_(r);
    // finding 2 (DESIGN.md section 8): trigger_receiver destroys sourceOp_ instead of triggerOp_
    {
      int sd = sc_.count("src.cleanup.dtor"), sb = sc_.count("src.cleanup.dtor BAD");
      bool outstanding = sc_.count("VIOL src.cleanup destroyed while outstanding") > 0;
      if ((sd + sb >= 2 || outstanding) && sc_.count("trg.cleanup.dtor") == 0 && sc_.count("trg.cleanup.ctor") == 1)
        return "F2-DTOR: the source cleanup op-state was destroyed " + std::to_string(sd + sb) + " times (" +
               (outstanding ? "once while outstanding" : std::to_string(sb) + " on dead storage") +
               "), the trigger cleanup op-state never";
    }
    // use after the stream was destroyed / of the destroyed consumer ops
    {
      bool freed = false;
      for (auto& e : r.trace) {
        if (has(e, "!stream.destroyed")) { freed = true; continue; }
        if (freed && (has(e, " tu.ready ") || has(e, " tu.src ") || has(e, " tu.completed ") || has(e, " cb.completed ")))
          return "UAF: take_until state accessed after the consumer finished and the stream was destroyed: " + e;
      }
    }
    if (!sc_.first_bad.empty()) return "BAD: " + sc_.first_bad;
    if (!sc_.first_viol.empty()) return "VIOL: " + sc_.first_viol;
    for (const char* n : {"src.next", "trg.next", "src.cleanup", "trg.cleanup"}) {
      std::string b = sc_.balanced(n);
      if (!b.empty()) return "BALANCE: " + b;
    }
    for (const char* n : {"src.cleanup", "trg.cleanup"})
      if (sc_.count(std::string(n) + ".ctor") != 1 || sc_.count(std::string(n) + ".start") != 1)
        return std::string("ONCE: ") + n + " constructed " + std::to_string(sc_.count(std::string(n) + ".ctor")) +
               " started " + std::to_string(sc_.count(std::string(n) + ".start")) + " times";
    // the consumer: exactly the source's elements, then its done / error; cleanup once, after the children
    {
      std::string v = sc_.values_ok();
      if (!v.empty()) return "VALUES: " + v;
      int nv = 0; for (char k : pr.script) nv += k == 'v';
      if ((int)sc_.values.size() != nv) return "ELEMENTS: the consumer received " + std::to_string(sc_.values.size()) + " values, the source produced " + std::to_string(nv);
      std::string last = pr.script.back() == 'd' ? "cons.next d" : "cons.next e 5";
      if (sc_.count(last) != 1 || sc_.count("cons.next d") + sc_.count("cons.next e 5") != 1)
        return "ELEMENTS: the consumer's sequence does not end with exactly one '" + last + "'";
      if (sc_.count("cons.next.ctor") != nv + 1 || sc_.count("cons.next.dtor") != nv + 1)
        return "ELEMENTS: consumer next-ops constructed " + std::to_string(sc_.count("cons.next.ctor")) + " destroyed " + std::to_string(sc_.count("cons.next.dtor"));
    }
    {
      std::string want = pr.srccl == 'e' ? "cons.cleanup e 7" : pr.trgcl == 'e' ? "cons.cleanup e 8" : "cons.cleanup d";
      int n = sc_.count("cons.cleanup d") + sc_.count("cons.cleanup e 7") + sc_.count("cons.cleanup e 8");
      if (sc_.count("cons.cleanup.ctor") != 1 || n != 1) return "CLEANUP: consumer cleanup constructed " + std::to_string(sc_.count("cons.cleanup.ctor")) + " completed " + std::to_string(n) + " times";
      if (sc_.count(want) != 1) return "RESULT: the consumer's cleanup did not complete with '" + want + "'";
      int at = sc_.index(want);
      auto before = [&](const std::string& a) { int i = sc_.index(a); return i >= 0 && i < at; };
      std::string sc1 = std::string("src.cleanup.complete ") + (pr.srccl == 'e' ? "e 7" : "d");
      std::string tc1 = std::string("trg.cleanup.complete ") + (pr.trgcl == 'e' ? "e 8" : "d");
      if (!before(sc1) || !before(tc1) || !before("src.cleanup.dtor") || !before("trg.cleanup.dtor"))
        return "ORDER: the consumer's cleanup completed before both child cleanups completed and were destroyed";
      bool trgdone = false;
      for (int i = 0; i < at; ++i) if (sc_.acts[i].rfind("trg.next.complete", 0) == 0) trgdone = true;
      if (!trgdone) return "ORDER: the consumer's cleanup completed before the trigger's next() completed";
    }
    if (sc_.count("cons.finished") != 1 || sc_.count("stream.destroyed") != 1) return "END: consumer finished " + std::to_string(sc_.count("cons.finished")) + " times";
    {
      bool ok = false;
      for (auto& a : sc_.acts) if (a.rfind("end finished=1 viols=0 ", 0) == 0) ok = true;
      if (!ok) return "END: no clean final record";
    }
    return "";
  };
  return vh::drive(cli, make, monitor);
}
