// C14 driver for io_uring_context: REAL threads, real kernel ring (no dsched: the context's thread
// blocks in io_uring_enter; built with the 'plain17' configuration).  One case per invocation:
//
//   k1_uring_io resubmit <n>     n pipe reads, each with its own stop source, started in ONE batch on
//                                the I/O thread: beyond the submission ring's 256 entries start_io()
//                                queues the operation on pendingIoQueue_ and runs again later.
//                                Monitor: no stop callback may be linked twice into its stop source
//                                (finding 10; request_stop() would then spin for ever - it is not called).
//   k1_uring_io cancelmany <n>   the same n reads, then request_stop() on each: all complete with done
//   k1_uring_io basic            read gets the bytes written (value n, data intact); write reports n
//   k1_uring_io cancel           a parked read is cancelled by request_stop(): done, exactly once;
//                                bytes written afterwards stay in the pipe and go to the next read
//   k1_uring_io prestop          read started with the stop token already requested: done, promptly,
//                                nothing consumed
//   k1_uring_io eisdir           read on a directory: set_error(EISDIR)
//   k1_uring_io stoprace <n>     n times: data written and stop requested back to back: done only if the
//                                bytes are still in the pipe
//   k1_uring_io xfer <total> <wchunk> <rchunk>   writer loop + reader loop over one pipe (capacity 4096)
//   k1_uring_io remote <threads> <items>         schedule() from several threads while the loop idles;
//                                every item runs once on the I/O thread; run() returns after stop
//   k1_uring_io release          descriptors and mappings of a context are released exactly once
// Output: one line  "CASE <name> | <verdict> | <details>"   (verdict empty = the monitor holds; it
// starts with a tag: DOUBLE-REG, LOST, HANG, WRONG-RESULT, DATA, DATALOSS, TWICE, FDLEAK, MAPLEAK).
// A watchdog turns a hang into a HANG verdict.
#include <unifex/linux/io_uring_context.hpp>
#include <unifex/scheduler_concepts.hpp>
#include <unifex/sender_concepts.hpp>
#include <unifex/io_concepts.hpp>
#include <unifex/inplace_stop_token.hpp>
#include <unifex/manual_lifetime.hpp>

#include <atomic>
#include <chrono>
#include <cstdio>
#include <cstring>
#include <dirent.h>
#include <fcntl.h>
#include <memory>
#include <string>
#include <sys/ioctl.h>
#include <thread>
#include <unistd.h>
#include <vector>

using namespace unifex;
using unifex::linuxos::io_uring_context;
using namespace std::chrono_literals;

namespace {
std::string g_case;
[[noreturn]] void finish(const std::string& verdict, const std::string& details) {
  std::printf("CASE %s | %s | %s\n", g_case.c_str(), verdict.c_str(), details.c_str());
  std::fflush(stdout);
  std::_Exit(0);
}
// wall-clock bounds are multiplied by VERIF_TIME_SCALE (default 6): on a loaded machine a starved io thread must
// not be reported as a lost completion; a bound only costs time when the awaited event never happens
int time_scale() {
  static int k = [] { const char* e = std::getenv("VERIF_TIME_SCALE"); int v = e ? std::atoi(e) : 6; return v < 1 ? 1 : v; }();
  return k;
}
void watchdog(int ms0, const char* what) {
  int ms = ms0 * time_scale();
  std::thread([ms, what] {
    std::this_thread::sleep_for(std::chrono::milliseconds(ms));
    finish(std::string("HANG: ") + what, "no progress within " + std::to_string(ms) + " ms");
  }).detach();
}
int fd_count() {
  int n = 0;
  if (DIR* d = ::opendir("/proc/self/fd")) {
    while (auto* e = ::readdir(d)) if (e->d_name[0] != '.') ++n;
    ::closedir(d);
    --n;
  }
  return n;
}
int map_count() {
  int n = 0;
  if (FILE* f = std::fopen("/proc/self/maps", "r")) {
    char line[512];
    while (std::fgets(line, sizeof line, f)) if (std::strstr(line, "io_uring")) ++n;
    std::fclose(f);
  }
  return n;
}
bool wait_for_raw(const std::function<bool()>& p, int ms) {
  for (int i = 0; i < ms; ++i) { if (p()) return true; std::this_thread::sleep_for(1ms); }
  return p();
}
bool wait_for(const std::function<bool()>& p, int ms) { return wait_for_raw(p, ms * time_scale()); }

struct Result {
  std::atomic<int> n{0};
  char kind = '?';
  long value = 0;
  int err = 0;
  std::thread::id tid;
};
struct io_rcv {
  Result* r;
  inplace_stop_token tok;
  void set_value(ssize_t v) && noexcept { r->kind = 'v'; r->value = (long)v; r->tid = std::this_thread::get_id(); r->n++; }
  void set_error(std::error_code ec) && noexcept { r->kind = 'e'; r->err = ec.value(); r->n++; }
  void set_error(std::exception_ptr) && noexcept { r->kind = 'x'; r->n++; }
  void set_done() && noexcept { r->kind = 'd'; r->n++; }
  friend inplace_stop_token tag_invoke(tag_t<get_stop_token>, const io_rcv& x) noexcept { return x.tok; }
};
using read_op_t = connect_result_t<io_uring_context::read_sender, io_rcv>;
using write_op_t = connect_result_t<io_uring_context::write_sender, io_rcv>;

struct fn_rcv {
  std::function<void()>* f;
  void set_value() && noexcept { (*f)(); }
  void set_done() && noexcept {}
  template <typename E> void set_error(E&&) && noexcept {}
};
using sched_t = decltype(std::declval<io_uring_context&>().get_scheduler());
using sched_op_t = connect_result_t<decltype(unifex::schedule(std::declval<sched_t>())), fn_rcv>;

struct Ctx {
  io_uring_context ctx;
  inplace_stop_source stop;
  std::thread th;
  std::thread::id io_tid;
  Ctx() { th = std::thread([this] { io_tid = std::this_thread::get_id(); ctx.run(stop.get_token()); }); }
  void shutdown() { stop.request_stop(); th.join(); }
};
std::string describe(const Result& r) {
  char b[96];
  std::snprintf(b, sizeof b, "n=%d kind=%c value=%ld err=%d", r.n.load(), r.kind, r.value, r.err);
  return b;
}
int pipe_bytes(int fd) { int n = 0; ::ioctl(fd, FIONREAD, &n); return n; }

// ---------------------------------------------------------------------------------------------
void case_resubmit(int n) {
  watchdog(20000, "resubmit");
  auto* c = new Ctx;
  int fd[2];
  if (::pipe2(fd, O_NONBLOCK | O_CLOEXEC) != 0) finish("SETUP", "pipe2");
  auto* file = new io_uring_context::async_read_only_file(c->ctx, fd[0]);
  auto* srcs = new std::vector<std::unique_ptr<inplace_stop_source>>;
  auto* res = new std::vector<std::unique_ptr<Result>>;
  auto* ops = new std::vector<manual_lifetime<read_op_t>>(n);
  auto* bufs = new std::vector<char>(n);
  for (int i = 0; i < n; ++i) { srcs->emplace_back(new inplace_stop_source); res->emplace_back(new Result); }
  std::atomic<bool> started{false};
  std::function<void()> start_all = [&] {
    for (int i = 0; i < n; ++i) {
      (*ops)[i].construct_with([&] {
        return unifex::connect(async_read_some_at(*file, 0, span<std::byte>((std::byte*)&(*bufs)[i], 1)),
                               io_rcv{(*res)[i].get(), (*srcs)[i]->get_token()});
      });
      unifex::start((*ops)[i].get());
    }
    started = true;
  };
  auto sop = unifex::connect(unifex::schedule(c->ctx.get_scheduler()), fn_rcv{&start_all});
  unifex::start(sop);
  if (!wait_for([&] { return started.load(); }, 5000)) finish("HANG: start", "the batch never ran");
  // let the loop resubmit what it had queued on pendingIoQueue_
  std::this_thread::sleep_for(300ms);
  int twice = 0, registered = 0, first = -1;
  for (int i = 0; i < n; ++i) {
    auto* cb = (*srcs)[i]->callbacks_;
    if (cb) { ++registered; if (cb->next_ == cb) { ++twice; if (first < 0) first = i; } }
  }
  char d[160];
  std::snprintf(d, sizeof d, "reads=%d registered=%d linked_twice=%d first=%d", n, registered, twice, first);
  if (twice) finish("DOUBLE-REG: " + std::to_string(twice) + " of " + std::to_string(n) +
                    " stop callbacks are linked twice into their stop source (self-loop: request_stop() would never return)", d);
  // clean completion of everything: one byte per read
  std::vector<char> data(n, 'x');
  long w = 0;
  while (w < n) { ssize_t k = ::write(fd[1], data.data() + w, (std::size_t)std::min<long>(n - w, 1024)); if (k > 0) w += k; else std::this_thread::sleep_for(1ms); }
  bool all = wait_for([&] { for (int i = 0; i < n; ++i) if ((*res)[i]->n.load() != 1) return false; return true; }, 8000);
  if (!all) finish("LOST: some reads never completed", d);
  for (int i = 0; i < n; ++i) if ((*res)[i]->kind != 'v' || (*res)[i]->value != 1) finish("WRONG-RESULT: read " + std::to_string(i), describe(*(*res)[i]));
  c->shutdown();
  finish("", d);
}

// n reads (more than the ring holds), then request_stop() on every one of them: all complete with
// done (DESIGN finding 10: with a callback linked twice request_stop() never returns)
void case_cancelmany(int n) {
  watchdog(25000, "cancelmany: request_stop() or the cancellations did not finish");
  auto* c = new Ctx;
  int fd[2];
  if (::pipe2(fd, O_NONBLOCK | O_CLOEXEC) != 0) finish("SETUP", "pipe2");
  auto* file = new io_uring_context::async_read_only_file(c->ctx, fd[0]);
  auto* srcs = new std::vector<std::unique_ptr<inplace_stop_source>>;
  auto* res = new std::vector<std::unique_ptr<Result>>;
  auto* ops = new std::vector<manual_lifetime<read_op_t>>(n);
  auto* bufs = new std::vector<char>(n);
  for (int i = 0; i < n; ++i) { srcs->emplace_back(new inplace_stop_source); res->emplace_back(new Result); }
  std::atomic<bool> started{false};
  std::function<void()> start_all = [&] {
    for (int i = 0; i < n; ++i) {
      (*ops)[i].construct_with([&] {
        return unifex::connect(async_read_some_at(*file, 0, span<std::byte>((std::byte*)&(*bufs)[i], 1)),
                               io_rcv{(*res)[i].get(), (*srcs)[i]->get_token()});
      });
      unifex::start((*ops)[i].get());
    }
    started = true;
  };
  auto sop = unifex::connect(unifex::schedule(c->ctx.get_scheduler()), fn_rcv{&start_all});
  unifex::start(sop);
  if (!wait_for([&] { return started.load(); }, 5000)) finish("HANG: start", "the batch never ran");
  std::this_thread::sleep_for(100ms);
  for (int i = 0; i < n; ++i) {
    auto* cb = (*srcs)[i]->callbacks_;
    if (cb && cb->next_ == cb) finish("DOUBLE-REG: a stop callback is linked twice into its stop source; request_stop() not attempted", "read " + std::to_string(i));
  }
  for (int i = 0; i < n; ++i) (*srcs)[i]->request_stop();
  int done = 0, other = 0, pending = 0;
  bool all = wait_for([&] { for (int i = 0; i < n; ++i) if ((*res)[i]->n.load() < 1) return false; return true; }, 15000);
  for (int i = 0; i < n; ++i) { int k = (*res)[i]->n.load(); if (k == 0) ++pending; else if ((*res)[i]->kind == 'd') ++done; else ++other; if (k > 1) finish("TWICE: read " + std::to_string(i), describe(*(*res)[i])); }
  char d[128];
  std::snprintf(d, sizeof d, "reads=%d done=%d other=%d never_completed=%d", n, done, other, pending);
  if (!all) finish("LOST: cancelled reads never completed", d);
  if (other) finish("WRONG-RESULT: a cancelled read with nothing to read did not complete with done", d);
  if (pipe_bytes(fd[0]) != 0) finish("DATA: pipe not empty", d);
  c->shutdown();
  finish("", d);
}

void case_basic() {
  watchdog(10000, "basic");
  Ctx c;
  int fd[2];
  ::pipe2(fd, O_NONBLOCK | O_CLOEXEC);
  io_uring_context::async_read_only_file rf(c.ctx, fd[0]);
  io_uring_context::async_write_only_file wf(c.ctx, fd[1]);
  inplace_stop_source src;
  Result rr, wr;
  char rbuf[16] = {};
  const char* msg = "hello";
  auto rop = unifex::connect(async_read_some_at(rf, 0, span<std::byte>((std::byte*)rbuf, 8)), io_rcv{&rr, src.get_token()});
  unifex::start(rop);
  std::this_thread::sleep_for(20ms);
  if (rr.n.load() != 0) finish("WRONG-RESULT: read completed before any data", describe(rr));
  auto wop = unifex::connect(async_write_some_at(wf, 0, span<const std::byte>((const std::byte*)msg, 5)), io_rcv{&wr, src.get_token()});
  unifex::start(wop);
  if (!wait_for([&] { return rr.n.load() == 1 && wr.n.load() == 1; }, 3000)) finish("LOST: read/write never completed", describe(rr) + " / " + describe(wr));
  if (wr.kind != 'v' || wr.value != 5) finish("WRONG-RESULT: write", describe(wr));
  if (rr.kind != 'v' || rr.value != 5 || std::memcmp(rbuf, "hello", 5) != 0) finish("DATA: read", describe(rr));
  if (rr.tid != c.io_tid) finish("WRONG-RESULT: completion off the I/O thread", "");
  std::this_thread::sleep_for(20ms);
  if (rr.n.load() != 1 || wr.n.load() != 1) finish("TWICE: completed again", describe(rr));
  c.shutdown();
  finish("", describe(rr));
}

void case_cancel(bool prestop) {
  watchdog(10000, prestop ? "prestop" : "cancel");
  Ctx c;
  int fd[2];
  ::pipe2(fd, O_NONBLOCK | O_CLOEXEC);
  io_uring_context::async_read_only_file rf(c.ctx, fd[0]);
  inplace_stop_source src, src2;
  Result r1, r2;
  char b1[16] = {}, b2[16] = {};
  if (prestop) src.request_stop();
  auto op1 = unifex::connect(async_read_some_at(rf, 0, span<std::byte>((std::byte*)b1, 8)), io_rcv{&r1, src.get_token()});
  unifex::start(op1);
  if (!prestop) { std::this_thread::sleep_for(20ms); src.request_stop(); }
  // pre-stopped start is a recorded finding (the operation stays parked): keep its bound short and unscaled
  if (!(prestop ? wait_for_raw([&] { return r1.n.load() == 1; }, 1500) : wait_for([&] { return r1.n.load() == 1; }, 1500))) {
    // does it complete once data arrives? (then the stop request was simply ignored)
    (void)::write(fd[1], "hello", 5);
    bool later = wait_for([&] { return r1.n.load() == 1; }, 1500);
    finish(std::string("LOST: ") + (prestop ? "pre-stopped" : "stopped") + " read did not complete with done within its bound" +
           (later ? " (it completed only when data arrived: " + describe(r1) + ", " + std::to_string(pipe_bytes(fd[0])) + " bytes left in the pipe)" : " (nor after data arrived)"),
           describe(r1));
  }
  if (r1.kind != 'd') finish("WRONG-RESULT: expected done", describe(r1));
  // later activity on the descriptor affects only later operations
  (void)::write(fd[1], "hello", 5);
  std::this_thread::sleep_for(30ms);
  if (r1.n.load() != 1) finish("TWICE: the cancelled read completed again", describe(r1));
  if (pipe_bytes(fd[0]) != 5) finish("DATALOSS: bytes written after the cancellation were consumed", std::to_string(pipe_bytes(fd[0])));
  auto op2 = unifex::connect(async_read_some_at(rf, 0, span<std::byte>((std::byte*)b2, 8)), io_rcv{&r2, src2.get_token()});
  unifex::start(op2);
  if (!wait_for([&] { return r2.n.load() == 1; }, 3000)) finish("LOST: second read never completed", describe(r2));
  if (r2.kind != 'v' || r2.value != 5 || std::memcmp(b2, "hello", 5) != 0) finish("DATA: second read", describe(r2));
  if (b1[0] != 0) finish("DATA: the cancelled read's buffer was written", "");
  c.shutdown();
  finish("", describe(r1) + " / " + describe(r2));
}

// a stop request racing with the arrival of the data: whatever wins, bytes are never consumed from
// the pipe and dropped (done => the bytes are still there; value => they are in the buffer)
void case_stoprace(int iters) {
  watchdog(40000, "stoprace");
  Ctx c;
  int lost = 0, dones = 0, values = 0;
  std::string first;
  for (int it = 0; it < iters; ++it) {
    int fd[2];
    ::pipe2(fd, O_NONBLOCK | O_CLOEXEC);
    {
      io_uring_context::async_read_only_file rf(c.ctx, fd[0]);
      inplace_stop_source src;
      Result r;
      char b[16] = {};
      auto op = unifex::connect(async_read_some_at(rf, 0, span<std::byte>((std::byte*)b, 8)), io_rcv{&r, src.get_token()});
      unifex::start(op);
      std::this_thread::sleep_for(std::chrono::microseconds(300 + (it % 7) * 100));
      (void)::write(fd[1], "hello", 5);
      for (volatile int k = 0; k < (it % 13) * 200; ++k) {}
      src.request_stop();
      if (!wait_for([&] { return r.n.load() == 1; }, 3000)) finish("LOST: read never completed", describe(r));
      int left = pipe_bytes(fd[0]);
      if (r.kind == 'd') { ++dones; if (left != 5) { ++lost; if (first.empty()) first = "iteration " + std::to_string(it) + ": done, " + std::to_string(left) + " bytes left of 5"; } }
      else if (r.kind == 'v') { ++values; if (r.value != 5 || left != 0 || std::memcmp(b, "hello", 5) != 0) finish("DATA: value", describe(r)); }
      else finish("WRONG-RESULT", describe(r));
    }
    ::close(fd[1]);
  }
  char d[160];
  std::snprintf(d, sizeof d, "iterations=%d value=%d done=%d consumed_and_dropped=%d", iters, values, dones, lost);
  if (lost) finish("DATALOSS: a read that had transferred its bytes completed with done (" + first + ")", d);
  c.shutdown();
  finish("", d);
}

void case_eisdir() {
  watchdog(10000, "eisdir");
  Ctx c;
  int fd = ::open("/tmp", O_RDONLY | O_DIRECTORY | O_CLOEXEC);
  io_uring_context::async_read_only_file rf(c.ctx, fd);
  inplace_stop_source src;
  Result r;
  char b[16];
  auto op = unifex::connect(async_read_some_at(rf, 0, span<std::byte>((std::byte*)b, 8)), io_rcv{&r, src.get_token()});
  unifex::start(op);
  if (!wait_for([&] { return r.n.load() == 1; }, 2000)) finish("LOST-ERR: read on a directory never completed", describe(r));
  if (r.kind != 'e' || r.err != EISDIR) finish("WRONG-ERRNO: expected error EISDIR", describe(r));
  c.shutdown();
  finish("", describe(r));
}

struct Xfer {
  io_uring_context::async_read_only_file* rf; io_uring_context::async_write_only_file* wf;
  long total, wchunk, rchunk, sent = 0, received = 0;
  std::vector<unsigned char> src, dst, rbuf;
  manual_lifetime<read_op_t> rop; manual_lifetime<write_op_t> wop;
  std::atomic<int> bad{0}; std::atomic<bool> rdone{false}, wdone{false};
  inplace_stop_source stop;
};
struct xrcv {
  Xfer* x; bool is_read;
  void set_value(ssize_t n) && noexcept;
  void set_error(std::error_code) && noexcept { x->bad++; }
  void set_error(std::exception_ptr) && noexcept { x->bad++; }
  void set_done() && noexcept { x->bad++; }
};
using xread_t = connect_result_t<io_uring_context::read_sender, xrcv>;
using xwrite_t = connect_result_t<io_uring_context::write_sender, xrcv>;
struct XferOps { manual_lifetime<xread_t> r; manual_lifetime<xwrite_t> w; };
XferOps* g_xo;
void xstart_write(Xfer* x) {
  long n = std::min(x->wchunk, x->total - x->sent);
  if (n <= 0) { x->wdone = true; return; }
  g_xo->w.construct_with([&] { return unifex::connect(async_write_some_at(*x->wf, 0, span<const std::byte>((const std::byte*)x->src.data() + x->sent, (std::size_t)n)), xrcv{x, false}); });
  unifex::start(g_xo->w.get());
}
void xstart_read(Xfer* x) {
  if (x->received >= x->total) { x->rdone = true; return; }
  g_xo->r.construct_with([&] { return unifex::connect(async_read_some_at(*x->rf, 0, span<std::byte>((std::byte*)x->rbuf.data(), (std::size_t)x->rchunk)), xrcv{x, true}); });
  unifex::start(g_xo->r.get());
}
void xrcv::set_value(ssize_t n) && noexcept {
  Xfer* xx = x;
  if (is_read) {
    g_xo->r.destruct();
    for (ssize_t i = 0; i < n; ++i) xx->dst.push_back(xx->rbuf[(std::size_t)i]);
    xx->received += n;
    xstart_read(xx);
  } else {
    g_xo->w.destruct();
    xx->sent += n;
    xstart_write(xx);
  }
}
void case_xfer(long total, long wchunk, long rchunk) {
  watchdog(30000, "xfer");
  Ctx c;
  int fd[2];
  ::pipe2(fd, O_NONBLOCK | O_CLOEXEC);
  ::fcntl(fd[1], F_SETPIPE_SZ, 4096);
  io_uring_context::async_read_only_file rf(c.ctx, fd[0]);
  io_uring_context::async_write_only_file wf(c.ctx, fd[1]);
  Xfer x; x.rf = &rf; x.wf = &wf; x.total = total; x.wchunk = wchunk; x.rchunk = rchunk;
  x.src.resize((std::size_t)total); x.rbuf.resize((std::size_t)rchunk);
  for (long i = 0; i < total; ++i) x.src[(std::size_t)i] = (unsigned char)((7 * i + 3) % 251);
  XferOps xo; g_xo = &xo;
  xstart_write(&x);
  xstart_read(&x);
  bool ok = wait_for([&] { return x.rdone.load() && x.wdone.load(); }, 20000);
  char d[160];
  std::snprintf(d, sizeof d, "sent=%ld received=%ld left=%d bad=%d", x.sent, x.received, pipe_bytes(fd[0]), x.bad.load());
  if (!ok) finish("LOST: transfer did not finish", d);
  if (x.bad.load()) finish("WRONG-RESULT: an operation completed with error/done", d);
  if (x.sent != total || x.received != total || pipe_bytes(fd[0]) != 0) finish("DATA: byte counts", d);
  if (x.dst != x.src) finish("DATA: bytes differ", d);
  c.shutdown();
  finish("", d);
}

void case_remote(int nthreads, int items) {
  watchdog(20000, "remote");
  auto* c = new Ctx;
  std::atomic<int> ran{0}, offthread{0};
  std::vector<std::unique_ptr<std::atomic<int>>> count;
  for (int i = 0; i < nthreads * items; ++i) count.emplace_back(new std::atomic<int>(0));
  std::vector<std::thread> th;
  std::vector<std::vector<std::function<void()>>> fns(nthreads);
  std::vector<std::vector<manual_lifetime<sched_op_t>>> ops(nthreads);
  for (int t = 0; t < nthreads; ++t) { fns[t].resize(items); ops[t] = std::vector<manual_lifetime<sched_op_t>>(items); }
  for (int t = 0; t < nthreads; ++t)
    th.emplace_back([&, t] {
      for (int j = 0; j < items; ++j) {
        fns[t][j] = [&, t, j] { (*count[t * items + j])++; ran++; if (std::this_thread::get_id() != c->io_tid) offthread++; };
        ops[t][j].construct_with([&] { return unifex::connect(unifex::schedule(c->ctx.get_scheduler()), fn_rcv{&fns[t][j]}); });
        unifex::start(ops[t][j].get());
        if ((j & 7) == 0) std::this_thread::sleep_for(std::chrono::microseconds(200 * (t + 1)));   // let the loop go idle in between
      }
    });
  for (auto& x : th) x.join();
  bool all = wait_for([&] { return ran.load() == nthreads * items; }, 5000);
  char d[128];
  std::snprintf(d, sizeof d, "items=%d ran=%d offthread=%d", nthreads * items, ran.load(), offthread.load());
  if (!all) finish("LOST: items submitted remotely never ran", d);
  for (auto& k : count) if (k->load() != 1) finish("TWICE: an item ran " + std::to_string(k->load()) + " times", d);
  if (offthread.load()) finish("OFFTHREAD: items ran off the I/O thread", d);
  c->shutdown();   // run() returns after the stop request (else: watchdog)
  finish("", d);
}

void case_release() {
  watchdog(10000, "release");
  int f0 = fd_count(), m0 = map_count();
  int fmid = 0, mmid = 0;
  for (int i = 0; i < 3; ++i) {
    Ctx c;
    std::this_thread::sleep_for(5ms);
    fmid = fd_count(); mmid = map_count();
    c.shutdown();
  }
  int f1 = fd_count(), m1 = map_count();
  char d[128];
  std::snprintf(d, sizeof d, "fds %d->%d->%d maps %d->%d->%d", f0, fmid, f1, m0, mmid, m1);
  if (fmid <= f0 || mmid <= m0) finish("SETUP: the context holds no descriptors/mappings?", d);
  if (f1 != f0) finish("FDLEAK: descriptors not released", d);
  if (m1 != m0) finish("MAPLEAK: ring mappings not released", d);
  finish("", d);
}
}  // namespace

int main(int argc, char** argv) {
  std::string c = argc > 1 ? argv[1] : "";
  g_case = c;
  for (int i = 2; i < argc; ++i) g_case += std::string("_") + argv[i];
  if (c == "resubmit") case_resubmit(argc > 2 ? std::atoi(argv[2]) : 300);
  if (c == "cancelmany") case_cancelmany(argc > 2 ? std::atoi(argv[2]) : 700);
  if (c == "basic") case_basic();
  if (c == "cancel") case_cancel(false);
  if (c == "prestop") case_cancel(true);
  if (c == "eisdir") case_eisdir();
  if (c == "stoprace") case_stoprace(argc > 2 ? std::atoi(argv[2]) : 300);
  if (c == "xfer") case_xfer(std::atol(argv[2]), std::atol(argv[3]), std::atol(argv[4]));
  if (c == "remote") case_remote(std::atoi(argv[2]), std::atoi(argv[3]));
  if (c == "release") case_release();
  finish("USAGE", "unknown case");
}
