// K1 driver for C09: the real spawn_future() in a v2::async_scope (or the v1 scope), the spawned
// operation being a scripted leaf completed on its own virtual thread, the future awaited /
// dropped on a second one, a stop request on the awaiting receiver's token on a third one.
//
// program:  <v2|v1> <v|e|d> <drop|await|stop|conndrop|allocthrow|connthrow> <nofault|fault> [realfree]
//   v|e|d     how the spawned operation completes (value / error / done)
//   drop      the future is destroyed without being connected
//   await     connect + start, wait for the completion, destroy the future's operation state
//   stop      like await, thread 2 requests stop on the receiver's stop source at any time
//   conndrop  connect, then destroy the operation state without starting it (thread 2 requests stop)
//   allocthrow / connthrow   the allocation / connect of the spawned sender throws inside spawn_future
//             (strong exception guarantee: nothing leaked, nothing running, scope reference returned)
//   fault     the copy of the value into the shared state throws (2nd move of the tracked value)
//   realfree  the allocator really frees (for cfg shimasan17: ASan reports the use-after-free);
//             default is to poison + quarantine so that a late access is visible in the trace
// threads: 0 = Op (completes the leaf), 1 = Fut (spawns, then runs the future program and the
// scheduler the future's continuation is rescheduled on), 2 = Stop, 3 = finaliser (blocked
// until the others are done; emits the counters the monitor looks at).
#include <unifex/spawn_future.hpp>
#include <unifex/v1/async_scope.hpp>
#include <unifex/v2/async_scope.hpp>
#include "vh.hpp"
using namespace unifex;

namespace {

constexpr unsigned LIVE = 0x600D600Du, DEAD = 0xDEADDEADu;

struct Run;
Run* G = nullptr;   // the current run (runs are strictly sequential); set in make()

struct Run {
  // allocator
  int allocs = 0, deallocs = 0;
  char* mem = nullptr; std::size_t mem_size = 0;
  bool realfree = false, alloc_throw = false;
  std::vector<std::pair<void*, std::size_t>> quarantine;
  // tracked values / exceptions
  int val_ctor = 0, val_dtor = 0, bad_dtor = 0, moves = 0, throw_on_move = 0;
  int exc_live = 0, exc_made = 0;
  // leaf
  void* leaf_op = nullptr; void (*leaf_complete)(void*, char) = nullptr;
  bool leaf_started = false; bool leaf_stop_seen = false;
  bool connect_throw = false, spawn_failed = false;
  // future side
  inplace_stop_source ext;
  std::deque<std::function<void()>> queue;    // the scheduler of thread Fut
  int root_completions = 0; char root_kind = '?'; int root_value = -1;
  bool done[3] = {false, false, false};
  ~Run() { for (auto& q : quarantine) ::operator delete(q.first); if (G == this) G = nullptr; }
  const char* where(const void* p) const {
    auto c = (const char*)p;
    return (mem && c >= mem && c < mem + mem_size) ? "shared" : "tmp";
  }
};

// ---- tracked exception / value -------------------------------------------------------------
struct terr {
  int code;
  explicit terr(int c) : code(c) { G->exc_live++; G->exc_made++; }
  terr(const terr& o) : code(o.code) { G->exc_live++; }
  ~terr() { if (G) G->exc_live--; }
};

struct tval {
  int v; unsigned magic;
  explicit tval(int x) : v(x), magic(LIVE) { G->val_ctor++; }
  tval(tval&& o) : v(o.v) {
    if (G->throw_on_move && ++G->moves == G->throw_on_move) { dsched::action("val.move THROWS"); throw terr(7); }
    magic = LIVE; G->val_ctor++;
    if (G->where(this)[0] == 's') dsched::action("val.ctor shared");
  }
  tval(const tval&) = delete;
  ~tval() {
    if (magic != LIVE) { G->bad_dtor++; dsched::action("val.dtor BAD %s", G->where(this)); return; }
    magic = DEAD; G->val_dtor++;
    if (G->where(this)[0] == 's') dsched::action("val.dtor shared");
  }
};

// ---- counting + poisoning allocator ----------------------------------------------------------
template <typename T>
struct talloc {
  using value_type = T;
  Run* r;
  explicit talloc(Run* run) noexcept : r(run) {}
  template <typename U> talloc(const talloc<U>& o) noexcept : r(o.r) {}
  T* allocate(std::size_t n) {
    if (r->alloc_throw) { dsched::action("fut.alloc THROWS"); throw std::bad_alloc(); }
    std::size_t bytes = n * sizeof(T);
    void* p = ::operator new(bytes);
    std::memset(p, 0xA5, bytes);
    r->allocs++; r->mem = (char*)p; r->mem_size = bytes;
    dsched::action("fut.alloc");
    return (T*)p;
  }
  void deallocate(T* p, std::size_t n) noexcept {
    r->deallocs++;
    dsched::action("fut.dealloc");
    if (r->realfree) { ::operator delete((void*)p); return; }
    std::memset((void*)p, 0xEE, n * sizeof(T));          // poison, keep mapped: a late access is harmless
    r->quarantine.emplace_back((void*)p, n * sizeof(T)); // but shows up on the named locations
  }
  template <typename U, typename... A>
  void construct(U* p, A&&... a) {
    ::new ((void*)p) U((A&&)a...);
    name(p, 0);
  }
  template <typename U>
  static auto name(U* p, int) -> decltype((void)p->state_, (void)p->evt_, (void)p->stopSource_) {
    dsched::name_range(&p->state_, sizeof(p->state_), "fut.state");
    dsched::name_range(&p->evt_.state_, sizeof(p->evt_.state_), "fut.evt");
    dsched::name_range(&p->stopSource_.state_, sizeof(p->stopSource_.state_), "fut.src");
    dsched::name_value((std::uint64_t)(std::uintptr_t)&p->evt_, "SIG");
    dsched::name_value(0xEEEEEEEEEEEEEEEEull, "POISON");
  }
  template <typename U> static void name(U*, long) {}
  template <typename U> friend bool operator==(const talloc& a, const talloc<U>& b) noexcept { return a.r == b.r; }
  template <typename U> friend bool operator!=(const talloc& a, const talloc<U>& b) noexcept { return a.r != b.r; }
};

// ---- the spawned operation: a leaf completed from thread Op ----------------------------------
template <typename Receiver>
struct fleaf_op {
  struct cb { void operator()() noexcept { G->leaf_stop_seen = true; dsched::action("leaf.stop_seen"); } };
  using token_t = stop_token_type_t<Receiver&>;
  using cb_t = typename token_t::template callback_type<cb>;
  Receiver r;
  manual_lifetime<cb_t> stopcb;
  bool cb_live = false;
  void start() noexcept {
    G->leaf_op = this; G->leaf_complete = &do_complete;
    auto tok = get_stop_token(r);
    dsched::action("leaf.start stop=%d", (int)tok.stop_requested());
    stopcb.construct(tok, cb{});
    cb_live = true;
    G->leaf_started = true;
  }
  static void do_complete(void* p, char kind) {
    auto* self = static_cast<fleaf_op*>(p);
    if (self->cb_live) { self->stopcb.destruct(); self->cb_live = false; }
    dsched::action("leaf.complete %c", kind);
    if (kind == 'v') unifex::set_value(std::move(self->r), tval{42});
    else if (kind == 'e') unifex::set_error(std::move(self->r), std::make_exception_ptr(terr{5}));
    else unifex::set_done(std::move(self->r));
  }
};
struct fleaf {
  template <template <typename...> class Variant, template <typename...> class Tuple>
  using value_types = Variant<Tuple<tval>>;
  template <template <typename...> class Variant>
  using error_types = Variant<std::exception_ptr>;
  static constexpr bool sends_done = true;
  static constexpr blocking_kind blocking = blocking_kind::never;
  static constexpr bool is_always_scheduler_affine = false;
  template <typename R>
  friend fleaf_op<remove_cvref_t<R>> tag_invoke(tag_t<unifex::connect>, const fleaf&, R&& r) {
    if (G->connect_throw) { dsched::action("leaf.connect THROWS"); throw terr(9); }
    return fleaf_op<remove_cvref_t<R>>{(R&&)r};
  }
};

// ---- the scheduler of thread Fut: schedule() posts to G->queue, thread Fut runs the queue -----
struct fsched {
  template <typename R>
  struct op {
    R rec;
    void start() noexcept {
      G->queue.push_back([this] { unifex::set_value(std::move(rec)); });
      dsched::action("sched.post");
    }
  };
  struct sender {
    template <template <typename...> class Variant, template <typename...> class Tuple>
    using value_types = Variant<Tuple<>>;
    template <template <typename...> class Variant>
    using error_types = Variant<>;
    static constexpr bool sends_done = false;
    static constexpr blocking_kind blocking = blocking_kind::never;
    static constexpr bool is_always_scheduler_affine = false;
    template <typename R>
    friend op<remove_cvref_t<R>> tag_invoke(tag_t<unifex::connect>, const sender&, R&& r) { return op<remove_cvref_t<R>>{(R&&)r}; }
  };
  sender schedule() const noexcept { return {}; }
  friend bool operator==(fsched, fsched) noexcept { return true; }
  friend bool operator!=(fsched, fsched) noexcept { return false; }
};

struct root_receiver {
  inplace_stop_token tok;
  void set_value(tval&& v) && noexcept {
    G->root_completions++; G->root_kind = 'v'; G->root_value = v.magic == LIVE ? v.v : -2;
    dsched::action("root value %d", G->root_value);
  }
  void set_error(std::exception_ptr e) && noexcept {
    G->root_completions++; G->root_kind = 'e';
    int code = -1;
    try { std::rethrow_exception(e); } catch (const terr& t) { code = t.code; } catch (...) {}
    dsched::action("root error %d", code);
  }
  void set_done() && noexcept { G->root_completions++; G->root_kind = 'd'; dsched::action("root done"); }
  friend inplace_stop_token tag_invoke(tag_t<get_stop_token>, const root_receiver& r) noexcept { return r.tok; }
  friend fsched tag_invoke(tag_t<get_scheduler>, const root_receiver&) noexcept { return {}; }
};

template <typename T> struct is_opt : std::false_type {};
template <typename T> struct is_opt<std::optional<T>> : std::true_type {};
// the stop callback that calls abandon(): let_value_with's state_ (an optional<> of it after the fix)
template <typename S>
void name_cb(S& st) {
  if constexpr (is_opt<S>::value) { if (st) name_cb(*st); }
  else dsched::name_range(&st.callbackCompleted_, sizeof(st.callbackCompleted_), "cb.completed");
}
template <typename FOp> auto name_future_op(FOp& fop, int) -> decltype((void)fop.op_.get().innerOp_.state_) {
  name_cb(fop.op_.get().innerOp_.state_);                 // v2: nest_op -> stop-token op -> let_value_with op
}
template <typename FOp> auto name_future_op(FOp& fop, long) -> decltype((void)fop.op_.get().op_.innerOp_.state_) {
  name_cb(fop.op_.get().op_.innerOp_.state_);             // v1: nest_op -> attach_op -> ...
}

std::size_t scope_word(v2::async_scope& s) { return s.opState_.load(std::memory_order_relaxed); }
std::size_t scope_word(v1::async_scope& s) { return s.scope_.opState_.load(std::memory_order_relaxed); }
void name_scope(v2::async_scope& s) { dsched::name_range(&s.opState_, sizeof(s.opState_), "scope.opState"); }
void name_scope(v1::async_scope& s) { dsched::name_range(&s.scope_.opState_, sizeof(s.scope_.opState_), "scope.opState"); }
void close_scope(v2::async_scope& s) { s.end_scope(); }
void close_scope(v1::async_scope& s) { s.scope_.end_scope(); }

template <typename Scope>
std::vector<std::function<void()>> make_threads(char outcome, const std::string& prog, bool fault, bool realfree) {
  struct Shared : Run { Scope scope; };
  auto sh = std::make_shared<Shared>();
  G = sh.get();
  sh->realfree = realfree;
  std::vector<std::function<void()>> th;
  // 0: Op
  th.push_back([sh, outcome, fault] {
    dsched::block_until([&] { return sh->leaf_started || sh->spawn_failed; });
    if (sh->spawn_failed) { sh->done[0] = true; return; }
    if (fault) sh->throw_on_move = 2;   // 1st move: nest receiver's by-value parameter; 2nd: into values_
    sh->leaf_complete(sh->leaf_op, outcome);
    sh->done[0] = true;
  });
  // 1: Fut
  th.push_back([sh, prog] {
    dsched::name_range(&sh->ext.state_, sizeof(sh->ext.state_), "ext.state");
    name_scope(sh->scope);
    if (prog == "allocthrow" || prog == "connthrow") {
      sh->alloc_throw = prog == "allocthrow";
      sh->connect_throw = prog == "connthrow";
      try {
        auto fut = spawn_future(fleaf{}, sh->scope, talloc<std::byte>{sh.get()});
        dsched::action("spawned");
      } catch (const std::bad_alloc&) {
        dsched::action("spawn threw bad_alloc");
      } catch (const terr& e) {
        dsched::action("spawn threw terr %d", e.code);
      }
      sh->spawn_failed = true;
      sh->done[1] = true;
      return;
    }
    {
      auto fut = spawn_future(fleaf{}, sh->scope, talloc<std::byte>{sh.get()});
      dsched::action("spawned");
      if (prog == "drop") {
        // ~future -> drop()
      } else {
        using op_t = connect_result_t<decltype(fut), root_receiver>;
        manual_lifetime<op_t> fop;
        fop.construct_with([&] { return unifex::connect(std::move(fut), root_receiver{sh->ext.get_token()}); });
        name_future_op(fop.get(), 0);
        dsched::action("connected");
        if (prog != "conndrop") {
          unifex::start(fop.get());
          dsched::action("started");
          while (sh->root_completions == 0) {
            dsched::block_until([&] { return !sh->queue.empty() || sh->root_completions > 0; });
            while (!sh->queue.empty()) { auto f = std::move(sh->queue.front()); sh->queue.pop_front(); f(); }
          }
        }
        fop.destruct();
        dsched::action("futop.destroyed");
      }
    }
    dsched::action("future.destroyed");
    sh->done[1] = true;
  });
  // 2: Stop
  th.push_back([sh, prog] {
    if (prog == "stop" || prog == "conndrop") {
      dsched::name_range(&sh->ext.state_, sizeof(sh->ext.state_), "ext.state");
      sh->ext.request_stop();
      dsched::action("stop.returned");
    }
    sh->done[2] = true;
  });
  // 3: finaliser
  th.push_back([sh] {
    dsched::block_until([&] { return sh->done[0] && sh->done[1] && sh->done[2]; });
    close_scope(sh->scope);
    dsched::action("end allocs=%d deallocs=%d valc=%d vald=%d badd=%d exc=%d roots=%d scope=%zu opstop=%d",
                   sh->allocs, sh->deallocs, sh->val_ctor, sh->val_dtor, sh->bad_dtor, sh->exc_live,
                   sh->root_completions, scope_word(sh->scope), (int)sh->leaf_stop_seen);
  });
  return th;
}

}  // namespace

int main(int argc, char** argv) {
  // std::terminate() inside the library (drop()'s default branch, a noexcept violation ...): log it and
  // park the virtual thread, so that the run ends as a dsched 'deadlock' that prints the schedule
  // and the trace instead of a bare abort
  std::set_terminate([] {
    if (dsched::active()) {
      dsched::action("TERMINATE");
      dsched::block_until([] { return false; });
    }
    std::abort();
  });
  auto cli = vh::parse_cli(argc, argv);
  std::string scope = cli.prog.at(0);
  char outcome = cli.prog.at(1)[0];
  std::string prog = cli.prog.at(2);
  bool fault = cli.prog.size() > 3 && cli.prog[3] == "fault";
  bool realfree = cli.prog.size() > 4 && cli.prog[4] == "realfree";
  auto make = [&]() -> std::vector<std::function<void()>> {
    if (scope == "v1") return make_threads<v1::async_scope>(outcome, prog, fault, realfree);
    return make_threads<v2::async_scope>(outcome, prog, fault, realfree);
  };
  // Direct monitor (the property evaluated on the implementation's own run).  The verdict starts
  // with a tag naming the kind of failure; tools/props/c09.py turns it into the violation key.
  auto monitor = [&](const dsched::Result& r) -> std::string {
    bool freed = false, threw = false; int roots = 0; std::string end, uaf, badd;
    bool spawnfault = prog == "allocthrow" || prog == "connthrow";
    for (auto& e : r.trace) {
      if (e.find("!spawn threw") != std::string::npos) threw = true;
      if (e.find("!fut.dealloc") != std::string::npos) { freed = true; continue; }
      if (e.find("!root ") != std::string::npos) ++roots;
      if (e.find("!val.dtor BAD") != std::string::npos && badd.empty()) badd = e;
      if (e.find("!end ") != std::string::npos) end = e.substr(e.find("!end ") + 5);
      if (freed && uaf.empty() && (e.find(" fut.state ") != std::string::npos || e.find(" fut.evt ") != std::string::npos ||
                                   e.find(" fut.src ") != std::string::npos))
        uaf = e;
    }
    if (!uaf.empty()) return "UAF: shared state accessed after it was deallocated: " + uaf;
    if (!badd.empty()) return "MEMBER: destructor run on a result member that was never constructed: " + badd;
    int allocs, deallocs, valc, vald, bad, exc, rts, opstop; std::size_t sc;
    if (std::sscanf(end.c_str(), "allocs=%d deallocs=%d valc=%d vald=%d badd=%d exc=%d roots=%d scope=%zu opstop=%d",
                    &allocs, &deallocs, &valc, &vald, &bad, &exc, &rts, &sc, &opstop) != 9)
      return "END: no final counters";
    if (spawnfault && !threw) return "SPAWN: the exception did not propagate out of spawn_future";
    if (allocs != (prog == "allocthrow" ? 0 : 1) || deallocs != allocs) return "ALLOC: allocations=" + std::to_string(allocs) + " deallocations=" + std::to_string(deallocs);
    if (valc != vald) return "VALUE: tracked value constructions=" + std::to_string(valc) + " destructions=" + std::to_string(vald);
    if (exc != 0) return "EXC: stored exception leaked (live exception objects at the end=" + std::to_string(exc) + ")";
    int want = (prog == "drop" || prog == "conndrop" || spawnfault) ? 0 : 1;
    if (roots != want) return "ROOT: completions of the awaiting receiver=" + std::to_string(roots);
    for (auto& e : r.trace) {   // the payload: the operation's own value / error (or the exception of the failed copy)
      auto p = e.find("!root ");
      if (p == std::string::npos) continue;
      std::string w = e.substr(p + 6);
      std::string okv = "value 42", oke = std::string("error ") + (outcome == 'e' ? "5" : "7");
      bool ok = w == "done" || (w == okv && outcome == 'v' && !fault) ||
                (w == oke && (outcome == 'e' || (outcome == 'v' && fault)));
      if (!ok) return "RESULT: the future delivered '" + w + "' for operation outcome " + std::string(1, outcome) + (fault ? " (copy throws)" : "");
    }
    if (sc != 0) return "SCOPE: scope word at the end=" + std::to_string(sc);
    return "";
  };
  return vh::drive(cli, make, monitor);
}
