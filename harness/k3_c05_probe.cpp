// k3_c05_probe.cpp - result probes for property C05 ("results are the documented function of the children's results") on
// algorithms and input shapes outside the generated K2 grammar: when_all_range (vector in index order, first error/done wins,
// empty range), just_from, just_void_or_done, let_value_with, defer, into_variant, variant_sender, dematerialize o materialize,
// repeat_effect_until / retry_when results.  cfg plain17.  One line per probe:  <name> = <observed>  ; tools/props/c05.py holds the
// documented value of each and reports every difference (key c05probe/<name>).
#include <unifex/defer.hpp>
#include <unifex/dematerialize.hpp>
#include <unifex/into_variant.hpp>
#include <unifex/just.hpp>
#include <unifex/just_done.hpp>
#include <unifex/just_error.hpp>
#include <unifex/just_from.hpp>
#include <unifex/just_void_or_done.hpp>
#include <unifex/let_done.hpp>
#include <unifex/let_error.hpp>
#include <unifex/let_value.hpp>
#include <unifex/let_value_with.hpp>
#include <unifex/materialize.hpp>
#include <unifex/repeat_effect_until.hpp>
#include <unifex/retry_when.hpp>
#include <unifex/sync_wait.hpp>
#include <unifex/then.hpp>
#include <unifex/upon_done.hpp>
#include <unifex/upon_error.hpp>
#include <unifex/variant_sender.hpp>
#include <unifex/when_all_range.hpp>

#include <cstdio>
#include <optional>
#include <stdexcept>
#include <string>
#include <variant>
#include <vector>

using namespace unifex;

namespace {

struct code_error { int code; };

// outcome of a sender with an int-ish result, as text: v<value> / e<code> / d
template <typename S, typename Show>
std::string outcome(S&& s, Show show) {
  try {
    auto r = sync_wait((S&&)s);
    if (!r) return "d";
    return "v" + show(*r);
  } catch (const code_error& e) {
    return "e" + std::to_string(e.code);
  } catch (const std::exception& e) {
    return std::string("e:") + e.what();
  }
}
std::string show_int(int v) { return std::to_string(v); }
std::string show_vec(const std::vector<int>& v) {
  std::string s = "[";
  for (std::size_t i = 0; i < v.size(); ++i) { if (i) s += ","; s += std::to_string(v[i]); }
  return s + "]";
}
void line(const char* name, const std::string& v) { std::printf("%s = %s\n", name, v.c_str()); std::fflush(stdout); }

// a child of when_all_range: value i, error (code 100 + i) or done, decided per index; all one sender type
auto child(int i, char k) {
  return let_value(just(i, k), [](int& i, char& k) {
    using V = variant_sender<decltype(just(0)), decltype(just_error(code_error{0})), decltype(just_done())>;
    if (k == 'v') return V{just(int(i) * 10)};
    if (k == 'e') return V{just_error(code_error{100 + i})};
    return V{just_done()};
  });
}
std::string war(const std::string& kinds) {
  std::vector<decltype(child(0, 'v'))> v;
  for (std::size_t i = 0; i < kinds.size(); ++i) v.push_back(child((int)i, kinds[i]));
  return outcome(when_all_range(std::move(v)), show_vec);
}

}  // namespace

int main() {
  // when_all_range: the vector of the children's values in INDEX order; the first non-value child (in completion order, here
  // = index order: everything completes inline) decides error / done; the empty range gives the empty vector
  line("war_empty", war(""));
  line("war_v", war("v"));
  line("war_vvv", war("vvv"));
  line("war_vev", war("vev"));
  line("war_vdv", war("vdv"));
  line("war_ved", war("ved"));
  line("war_vde", war("vde"));
  line("war_eee", war("eee"));
  // just_from: the callable's result; a throwing callable -> error
  line("just_from_v", outcome(just_from([] { return 7; }), show_int));
  line("just_from_throw", outcome(just_from([]() -> int { throw code_error{31}; }), show_int));
  // just_void_or_done(b): value () when b, done otherwise
  line("jvod_true", outcome(then(just_void_or_done(true), [] { return 1; }), show_int));
  line("jvod_false", outcome(then(just_void_or_done(false), [] { return 1; }), show_int));
  // let_value_with: the state lives for the successor; result = the successor's
  line("lvw_v", outcome(let_value_with([] { return 5; }, [](int& st) { return then(just(), [&st] { return st + 1; }); }), show_int));
  line("lvw_e", outcome(let_value_with([] { return 5; }, [](int& st) { return then(just(), [&st]() -> int { throw code_error{st}; }); }), show_int));
  // defer: the sender is made at connect time; result = that sender's
  line("defer_v", outcome(defer([] { return just(9); }), show_int));
  line("defer_d", outcome(let_done(defer([] { return just_done(); }), [] { return just(-5); }), show_int));
  // dematerialize(materialize(s)) = s on all three channels
  line("demat_mat_v", outcome(dematerialize(materialize(just(3))), show_int));
  line("demat_mat_e", outcome(dematerialize(materialize(then(just(), []() -> int { throw code_error{33}; }))), show_int));
  line("demat_mat_d", outcome(let_done(dematerialize(materialize(just_done())), [] { return just(-6); }), show_int));
  // into_variant: the single value signature wrapped as variant<tuple<...>>
  line("intov_v", outcome(then(into_variant(just(4)), [](std::variant<std::tuple<int>> v) { return std::get<0>(std::get<0>(v)) + 1; }), show_int));
  // variant_sender: completes as the active alternative
  {
    using V = variant_sender<decltype(just(0)), decltype(just_done())>;
    line("variant_first", outcome(then(V{just(8)}, [](int v) { return v; }), show_int));
    line("variant_second", outcome(then(V{just_done()}, [](int v) { return v; }), show_int));
  }
  // let_error / let_done / upon_error / upon_done map the named channel and pass the others through
  line("let_error_maps", outcome(let_error(then(just(), []() -> int { throw code_error{35}; }), [](auto&&) { return just(-1); }), show_int));
  line("let_error_passes_v", outcome(let_error(just(2), [](auto&&) { return just(-1); }), show_int));
  line("let_done_maps", outcome(let_done(then(just_done(), [] { return 0; }), [] { return just(-2); }), show_int));
  line("upon_done_maps", outcome(upon_done(then(just_done(), [] { return 0; }), [] { return -3; }), show_int));
  line("upon_error_maps", outcome(upon_error(then(just(), []() -> int { throw code_error{36}; }), [](auto&&) { return -4; }), show_int));
  // repeat_effect_until: value () after the predicate said true; the source's error ends it
  {
    int n = 0;
    line("repeat_until_3", outcome(then(repeat_effect_until(then(just(), [&n] { ++n; }), [&n] { return n >= 3; }), [&n] { return n; }), show_int));
    int m = 0;
    line("repeat_error", outcome(then(repeat_effect_until(then(just(), [&m] { if (++m == 2) throw code_error{37}; }), [] { return false; }), [&m] { return m; }), show_int));
  }
  // retry_when: retried after the trigger's value; the trigger's done / error ends it with done / that error
  {
    int a = 0;
    line("retry_third_time", outcome(retry_when(then(just(), [&a]() -> int { if (++a < 3) throw code_error{38}; return a; }),
                                               [](std::exception_ptr) { return just(); }), show_int));
    line("retry_trigger_done", outcome(retry_when(then(just(), []() -> int { throw code_error{39}; }),
                                                 [](std::exception_ptr) { return just_done(); }), show_int));
    line("retry_trigger_error", outcome(retry_when(then(just(), []() -> int { throw code_error{40}; }),
                                                  [](std::exception_ptr) { return just_error(code_error{41}); }), show_int));
  }
  std::printf("END\n");
  return 0;
}
