// K3 driver for C17: runs the real find_if / bulk_schedule on inputs read from stdin and prints
// what the predicate / set_next observed, in the format of the extracted model (ocaml handlers
// find_par / find_seq / bulk_indices).
#include <unifex/find_if.hpp>
#include <unifex/bulk_schedule.hpp>
#include <unifex/bulk_transform.hpp>
#include <unifex/bulk_join.hpp>
#include <unifex/just.hpp>
#include <unifex/then.hpp>
#include <unifex/sync_wait.hpp>
#include <unifex/inline_scheduler.hpp>
#include <unifex/let_value_with_stop_source.hpp>
#include <unifex/let_done.hpp>
#include <unifex/inplace_stop_token.hpp>
#include <unifex/static_thread_pool.hpp>
#include <unifex/on.hpp>
#include <cstdio>
#include <iostream>
#include <sstream>
#include <string>
#include <vector>
#include <set>
#include <mutex>

#include <unifex/indexed_for.hpp>
#include <iterator>
#include <stdexcept>

using namespace unifex;

// indexed_for.hpp only forward-declares the policies it dispatches on (in the global namespace ::execution)
namespace execution {
class sequenced_policy {};
class parallel_policy {};
}  // namespace execution

static std::string join(const std::vector<long>& v) {
  std::string s;
  for (size_t i = 0; i < v.size(); ++i) { if (i) s += ","; s += std::to_string(v[i]); }
  return s;
}

// IntPred: the predicate returns int, truthy values are even numbers 2..10 (never exactly 1): "satisfying
// the predicate" means contextually convertible to true
template <bool IntPred = false, typename Policy>
static std::string run_find(long n, const std::set<long>& hits, Policy pol, bool pool) {
  const long guard = 4096;
  std::vector<int> buf(n + 2 * guard, 0);
  int* base = buf.data() + guard;
  std::vector<long> visited;
  std::mutex m;
  long limit = n + 3000;
  auto pred = [&](const int& v) noexcept -> std::conditional_t<IntPred, int, bool> {
    long off = &v - base;
    std::lock_guard<std::mutex> lk(m);
    visited.push_back(off);
    if ((long)visited.size() > limit) return 2;  // runaway scan (pre-fix tree): force an end
    if constexpr (IntPred) return hits.count(off) != 0 ? 2 + 2 * (int)(off % 5) : 0;
    else return hits.count(off) != 0;
  };
  long res;
  if (pool) {
    static_thread_pool ctx(3);
    auto r = sync_wait(on(ctx.get_scheduler(),
        then(find_if(just(base, base + n), pred, pol), [&](int* it) noexcept { return (long)(it - base); })));
    res = r ? *r : -999;
  } else {
    auto r = sync_wait(then(find_if(just(base, base + n), pred, pol), [&](int* it) noexcept { return (long)(it - base); }));
    res = r ? *r : -999;
  }
  return std::to_string(res) + " [" + join(visited) + "]";
}

// a many-receiver that records set_next indices, carries a stop token and an execution policy
template <typename Policy>
struct bulk_rec {
  std::vector<long>* idx;
  std::string* term;
  inplace_stop_source* src;
  long stop_after;  // request stop when index + 1 == stop_after
  void set_next(std::size_t i) & noexcept {
    if (!term->empty()) *term += "!next-after-terminal";
    idx->push_back((long)i);
    if ((long)i + 1 == stop_after) src->request_stop();
  }
  void set_value() && noexcept { *term += "value"; }
  void set_done() && noexcept { *term += "done"; }
  template <typename E> void set_error(E&&) && noexcept { *term += "error"; }
  friend inplace_stop_token tag_invoke(tag_t<get_stop_token>, const bulk_rec& r) noexcept { return r.src->get_token(); }
  friend Policy tag_invoke(tag_t<get_execution_policy>, const bulk_rec&) noexcept { return Policy{}; }
};

template <typename Policy>
static std::string run_bulk(long n, long k /* -1 = none */) {
  std::vector<long> idx; std::string term; inplace_stop_source src;
  if (k == 0) src.request_stop();
  auto op = connect(bulk_schedule(inline_scheduler{}, (std::size_t)n),
                    bulk_rec<Policy>{&idx, &term, &src, k > 0 ? 16 * k : -1});
  start(op);
  return term + " [" + join(idx) + "]";
}

// bulk_transform/bulk_join on top, stop requested from inside the function via let_value_with_stop_source
static std::string run_bulk_stack(long n, long k) {
  std::vector<long> idx; std::string term;
  auto r = sync_wait(let_value_with_stop_source([&](inplace_stop_source& src) {
    if (k == 0) src.request_stop();
    return bulk_join(bulk_transform(bulk_schedule(inline_scheduler{}, (std::size_t)n),
        [&, k](std::size_t i) noexcept { idx.push_back((long)i); if (k > 0 && (long)i + 1 == 16 * k) src.request_stop(); },
        seq));
  }));
  term = r ? "value" : "done";
  return term + " [" + join(idx) + "]";
}

// ---- indexed_for: func(idx, values...) for every idx of the range (forward iteration for seq, operator[] for par), then
// the predecessor's values are passed on; a throwing func -> set_error, no further index
struct ifor_iter {
  using value_type = long; using reference = long; using difference_type = std::ptrdiff_t; using pointer = long*;
  using iterator_category = std::random_access_iterator_tag;
  long base_;
  long operator[](std::size_t off) const { return base_ + (long)off; }
  long operator*() const { return base_; }
  ifor_iter& operator++() { ++base_; return *this; }
  ifor_iter operator++(int) { auto c = *this; ++base_; return c; }
  bool operator!=(const ifor_iter& o) const { return base_ != o.base_; }
};
struct ifor_range {
  long n;
  using iterator = ifor_iter;
  ifor_iter begin() { return {0}; }
  ifor_iter end() { return {n}; }
  std::size_t size() const { return (std::size_t)n; }
};
template <typename Policy>
static std::string run_ifor(long n, long throw_at) {
  std::vector<long> idx; std::string term = "none"; long acc = -1;
  try {
    auto r = sync_wait(indexed_for(just(42L), Policy{}, ifor_range{n}, [&](long i, long& x) {
      idx.push_back(i);
      if (i == throw_at) throw std::runtime_error("f");
      x += i;
    }));
    term = r ? "value" : "done";
    if (r) acc = *r;
  } catch (const std::runtime_error&) { term = "error"; }
  return term + " [" + join(idx) + "] acc=" + std::to_string(acc);
}

// ---- execution policies: what bulk_schedule's receiver reports under a stack of bulk_transforms ----------
template <typename P> static const char* pol_name() {
  if constexpr (std::is_same_v<P, sequenced_policy>) return "seq";
  else if constexpr (std::is_same_v<P, unsequenced_policy>) return "unseq";
  else if constexpr (std::is_same_v<P, parallel_policy>) return "par";
  else if constexpr (std::is_same_v<P, parallel_unsequenced_policy>) return "par_unseq";
  else return "?";
}
// the source: a many-sender that only reports the policy its receiver shows
static std::string g_seen;
struct probe_source {
  template <template <typename...> class Variant, template <typename...> class Tuple>
  using value_types = Variant<Tuple<>>;
  template <template <typename...> class Variant, template <typename...> class Tuple>
  using next_types = Variant<Tuple<>>;
  template <template <typename...> class Variant> using error_types = Variant<>;
  static constexpr bool sends_done = true;
  template <typename R> struct op {
    R r;
    void start() noexcept {
      using P = std::remove_cv_t<std::remove_reference_t<decltype(get_execution_policy(r))>>;
      g_seen = pol_name<P>();
      unifex::set_next(r);
      unifex::set_value(std::move(r));
    }
  };
  template <typename R> friend op<unifex::remove_cvref_t<R>> tag_invoke(tag_t<connect>, probe_source, R&& r) { return {(R&&)r}; }
};
struct plain_rec {   // no get_execution_policy customisation
  void set_next() & noexcept {}
  void set_value() && noexcept {}
  void set_done() && noexcept {}
  template <typename E> void set_error(E&&) && noexcept {}
};
template <typename P> struct pol_rec : plain_rec {
  friend P tag_invoke(tag_t<get_execution_policy>, const pol_rec&) noexcept { return P{}; }
};
template <typename Sender>
static std::string policy_bottom(Sender s, const std::string& b) {
  g_seen = "unset";
  auto go = [&](auto rec) { auto op = connect(std::move(s), std::move(rec)); start(op); };
  if (b == "none") go(plain_rec{});
  else if (b == "seq") go(pol_rec<sequenced_policy>{});
  else if (b == "unseq") go(pol_rec<unsequenced_policy>{});
  else if (b == "par") go(pol_rec<parallel_policy>{});
  else if (b == "par_unseq") go(pol_rec<parallel_unsequenced_policy>{});
  else if (b == "join") { sync_wait(bulk_join(std::move(s))); }
  else return "ERR bottom";
  return g_seen;
}
template <int Depth, typename Sender>
static std::string policy_stack(Sender s, const std::string& b, const std::vector<std::string>& ps, size_t i) {
  if (i == ps.size()) return policy_bottom(std::move(s), b);
  if constexpr (Depth == 0) { return "ERR depth"; }
  else {
    auto f = []() noexcept {};
    const std::string& p = ps[i];
    if (p == "seq") return policy_stack<Depth - 1>(bulk_transform(std::move(s), f, seq), b, ps, i + 1);
    if (p == "unseq") return policy_stack<Depth - 1>(bulk_transform(std::move(s), f, unseq), b, ps, i + 1);
    if (p == "par") return policy_stack<Depth - 1>(bulk_transform(std::move(s), f, par), b, ps, i + 1);
    if (p == "par_unseq") return policy_stack<Depth - 1>(bulk_transform(std::move(s), f, par_unseq), b, ps, i + 1);
    return "ERR policy";
  }
}

int main() {
  std::string line;
  while (std::getline(std::cin, line)) {
    std::istringstream is(line);
    std::string cmd; is >> cmd;
    if (cmd == "find_par" || cmd == "find_seq" || cmd == "find_par_pool" || cmd == "find_par_int" || cmd == "find_seq_int") {
      long n; is >> n; std::string bar; is >> bar;
      std::set<long> hits; long h; while (is >> h) hits.insert(h);
      if (cmd == "find_par") std::cout << run_find(n, hits, par, false) << "\n";
      else if (cmd == "find_par_pool") std::cout << run_find(n, hits, par, true) << "\n";
      else if (cmd == "find_par_int") std::cout << run_find<true>(n, hits, par, false) << "\n";
      else if (cmd == "find_seq_int") std::cout << run_find<true>(n, hits, seq, false) << "\n";
      else std::cout << run_find(n, hits, seq, false) << "\n";
    } else if (cmd == "bulk_indices") {
      long n; std::string ks, pol = "seq"; is >> n >> ks >> pol;
      long k = ks == "none" ? -1 : std::stol(ks);
      if (pol == "seq") std::cout << run_bulk<sequenced_policy>(n, k) << "\n";
      else if (pol == "par") std::cout << run_bulk<parallel_policy>(n, k) << "\n";
      else if (pol == "unseq") std::cout << run_bulk<unsequenced_policy>(n, k) << "\n";
      else if (pol == "par_unseq") std::cout << run_bulk<parallel_unsequenced_policy>(n, k) << "\n";
      else if (pol == "stack") std::cout << run_bulk_stack(n, k) << "\n";
      else std::cout << "ERR policy\n";
    } else if (cmd == "indexed_for") {
      long n, t = -1; std::string pol; is >> n >> pol >> t;
      std::cout << (pol == "par" ? run_ifor<::execution::parallel_policy>(n, t) : run_ifor<::execution::sequenced_policy>(n, t)) << "\n";
    } else if (cmd == "policy") {
      std::string b; is >> b; std::vector<std::string> ps; std::string p; while (is >> p) ps.push_back(p);
      std::cout << policy_stack<3>(probe_source{}, b, ps, 0) << "\n";
    } else {
      std::cout << "ERR unknown\n";
    }
    std::cout.flush();
  }
}
