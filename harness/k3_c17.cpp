// K3 driver for C17: runs the real find_if / bulk_schedule on inputs read from stdin and prints
// what the predicate / set_next observed, in the format of the extracted model (ocaml handlers
// find_par / find_seq / bulk_indices).
#include <unifex/find_if.hpp>
#include <unifex/bulk_schedule.hpp>
#include <unifex/bulk_transform.hpp>
#include <unifex/bulk_join.hpp>
#include <unifex/just.hpp>
#include <unifex/then.hpp>
#include <unifex/sync_wait.hpp>
#include <unifex/inline_scheduler.hpp>
#include <unifex/let_value_with_stop_source.hpp>
#include <unifex/let_done.hpp>
#include <unifex/inplace_stop_token.hpp>
#include <unifex/static_thread_pool.hpp>
#include <unifex/on.hpp>
#include <cstdio>
#include <iostream>
#include <sstream>
#include <string>
#include <vector>
#include <set>
#include <mutex>

using namespace unifex;

static std::string join(const std::vector<long>& v) {
  std::string s;
  for (size_t i = 0; i < v.size(); ++i) { if (i) s += ","; s += std::to_string(v[i]); }
  return s;
}

template <typename Policy>
static std::string run_find(long n, const std::set<long>& hits, Policy pol, bool pool) {
  const long guard = 4096;
  std::vector<int> buf(n + 2 * guard, 0);
  int* base = buf.data() + guard;
  std::vector<long> visited;
  std::mutex m;
  long limit = n + 3000;
  auto pred = [&](const int& v) noexcept {
    long off = &v - base;
    std::lock_guard<std::mutex> lk(m);
    visited.push_back(off);
    if ((long)visited.size() > limit) return true;  // runaway scan (pre-fix tree): force an end
    return hits.count(off) != 0;
  };
  long res;
  if (pool) {
    static_thread_pool ctx(3);
    auto r = sync_wait(on(ctx.get_scheduler(),
        then(find_if(just(base, base + n), pred, pol), [&](int* it) noexcept { return (long)(it - base); })));
    res = r ? *r : -999;
  } else {
    auto r = sync_wait(then(find_if(just(base, base + n), pred, pol), [&](int* it) noexcept { return (long)(it - base); }));
    res = r ? *r : -999;
  }
  return std::to_string(res) + " [" + join(visited) + "]";
}

// a many-receiver that records set_next indices, carries a stop token and an execution policy
template <typename Policy>
struct bulk_rec {
  std::vector<long>* idx;
  std::string* term;
  inplace_stop_source* src;
  long stop_after;  // request stop when index + 1 == stop_after
  void set_next(std::size_t i) & noexcept {
    if (!term->empty()) *term += "!next-after-terminal";
    idx->push_back((long)i);
    if ((long)i + 1 == stop_after) src->request_stop();
  }
  void set_value() && noexcept { *term += "value"; }
  void set_done() && noexcept { *term += "done"; }
  template <typename E> void set_error(E&&) && noexcept { *term += "error"; }
  friend inplace_stop_token tag_invoke(tag_t<get_stop_token>, const bulk_rec& r) noexcept { return r.src->get_token(); }
  friend Policy tag_invoke(tag_t<get_execution_policy>, const bulk_rec&) noexcept { return Policy{}; }
};

template <typename Policy>
static std::string run_bulk(long n, long k /* -1 = none */) {
  std::vector<long> idx; std::string term; inplace_stop_source src;
  if (k == 0) src.request_stop();
  auto op = connect(bulk_schedule(inline_scheduler{}, (std::size_t)n),
                    bulk_rec<Policy>{&idx, &term, &src, k > 0 ? 16 * k : -1});
  start(op);
  return term + " [" + join(idx) + "]";
}

// bulk_transform/bulk_join on top, stop requested from inside the function via let_value_with_stop_source
static std::string run_bulk_stack(long n, long k) {
  std::vector<long> idx; std::string term;
  auto r = sync_wait(let_value_with_stop_source([&](inplace_stop_source& src) {
    if (k == 0) src.request_stop();
    return bulk_join(bulk_transform(bulk_schedule(inline_scheduler{}, (std::size_t)n),
        [&, k](std::size_t i) noexcept { idx.push_back((long)i); if (k > 0 && (long)i + 1 == 16 * k) src.request_stop(); },
        seq));
  }));
  term = r ? "value" : "done";
  return term + " [" + join(idx) + "]";
}

int main() {
  std::string line;
  while (std::getline(std::cin, line)) {
    std::istringstream is(line);
    std::string cmd; is >> cmd;
    if (cmd == "find_par" || cmd == "find_seq" || cmd == "find_par_pool") {
      long n; is >> n; std::string bar; is >> bar;
      std::set<long> hits; long h; while (is >> h) hits.insert(h);
      if (cmd == "find_par") std::cout << run_find(n, hits, par, false) << "\n";
      else if (cmd == "find_par_pool") std::cout << run_find(n, hits, par, true) << "\n";
      else std::cout << run_find(n, hits, seq, false) << "\n";
    } else if (cmd == "bulk_indices") {
      long n; std::string ks, pol = "seq"; is >> n >> ks >> pol;
      long k = ks == "none" ? -1 : std::stol(ks);
      if (pol == "seq") std::cout << run_bulk<sequenced_policy>(n, k) << "\n";
      else if (pol == "par") std::cout << run_bulk<parallel_policy>(n, k) << "\n";
      else if (pol == "unseq") std::cout << run_bulk<unsequenced_policy>(n, k) << "\n";
      else if (pol == "par_unseq") std::cout << run_bulk<parallel_unsequenced_policy>(n, k) << "\n";
      else if (pol == "stack") std::cout << run_bulk_stack(n, k) << "\n";
      else std::cout << "ERR policy\n";
    } else {
      std::cout << "ERR unknown\n";
    }
    std::cout.flush();
  }
}
