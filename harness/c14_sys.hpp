// c14_sys.hpp — syscall pass-through wrappers for the C14 drivers (io_epoll_context under dsched).
//
// Included by a C14 driver BEFORE any unifex header (the shim has already pulled in every system
// header, so the macros below only touch library and driver text).  The driver then compiles a
// private copy of /repo/source/linux/io_epoll_context.cpp into its own translation unit
// (#include <unifex/../../source/linux/io_epoll_context.cpp>), so that
//   * the blocking epoll_wait of the I/O thread becomes yield-and-poll: a virtual thread never
//     sleeps in the kernel while it holds the dsched baton;
//   * every epoll_ctl / epoll_wait / readv / writev / read(eventfd) / write(eventfd) of the library
//     is a yield point of the scheduler and is logged as an action, so the kernel-side registration
//     set and the eventfd counter are visible in the trace.
// The kernel itself is real (real epoll instance, pipes, eventfd): nothing is simulated.
//
// Because the driver's object defines every symbol of io_epoll_context.cpp, the linker never pulls
// the archive member io_epoll_context.o (compiled with the plain shim) out of libunifex_<cfg>.a.
#pragma once
#include <dirent.h>
#include "dsched.hpp"

namespace c14 {

struct Tables {
  std::map<const void*, std::string> ptr_names;   // epoll_event.data.ptr -> name
  std::map<int, std::string> fd_names;
  std::map<int, const void*> shadow;              // fd -> data.ptr of the successful ADDs not yet DELeted
  std::set<const void*> dead;                     // pointers into operations that have completed
  // driver hook: a returned pointer that must not reach the library although its operation has not
  // completed yet (returns the reason, "" = fine), e.g. a completion whose execute_ was already consumed
  std::function<std::string(const void*)> stale_hook;
  long stale_returned = 0;
};
inline Tables& tab() { static Tables t; return t; }
inline void reset() { tab() = Tables{}; }
inline void name_ptr(const void* p, const char* n) { tab().ptr_names[p] = n; }
inline void name_fd(int fd, const char* n) { tab().fd_names[fd] = n; }
inline void mark_dead(const void* p) { tab().dead.insert(p); }
inline std::string pname(const void* p) {
  auto it = tab().ptr_names.find(p);
  if (it != tab().ptr_names.end()) return it->second;
  char b[32]; std::snprintf(b, sizeof b, "ptr%p", p); return b;
}
inline std::string fname(int fd) {
  auto it = tab().fd_names.find(fd);
  if (it != tab().fd_names.end()) return it->second;
  return "fd" + std::to_string(fd);
}
inline const char* ename(int e) {
  switch (e) {
    case 0: return "0"; case EAGAIN: return "EAGAIN"; case EPERM: return "EPERM"; case ENOENT: return "ENOENT";
    case EEXIST: return "EEXIST"; case EISDIR: return "EISDIR"; case EBADF: return "EBADF"; case EFAULT: return "EFAULT";
    case EINVAL: return "EINVAL"; case EPIPE: return "EPIPE"; case EINTR: return "EINTR";
  }
  static thread_local char b[16]; std::snprintf(b, sizeof b, "E%d", e); return b;
}

// number of open descriptors of the process
inline int fd_count() {
  int n = 0;
  if (DIR* d = ::opendir("/proc/self/fd")) {
    while (auto* e = ::readdir(d)) if (e->d_name[0] != '.') ++n;
    ::closedir(d);
    --n;  // the directory stream itself
  }
  return n;
}

// the kernel's own view of an epoll instance: the target descriptors registered with it
// (/proc/self/fdinfo/<epfd> has one "tfd: <fd> events: <mask> data: <u64> ..." line per registration)
inline std::vector<std::pair<int, std::uint64_t>> kernel_regs(int epfd) {
  std::vector<std::pair<int, std::uint64_t>> r;
  char path[64]; std::snprintf(path, sizeof path, "/proc/self/fdinfo/%d", epfd);
  if (FILE* f = std::fopen(path, "r")) {
    char line[256];
    while (std::fgets(line, sizeof line, f)) {
      int tfd; unsigned ev; unsigned long long data;
      if (std::sscanf(line, "tfd: %d events: %x data: %llx", &tfd, &ev, &data) == 3) r.emplace_back(tfd, data);
    }
    std::fclose(f);
  }
  return r;
}
inline bool kernel_registered(int epfd, int fd) {
  for (auto& p : kernel_regs(epfd)) if (p.first == fd) return true;
  return false;
}

inline bool epoll_ready(int epfd) {
  pollfd p{epfd, POLLIN, 0};
  return ::poll(&p, 1, 0) > 0;
}

// ---- wrappers (real syscall; yield point before it; action after it) ---------------------------
inline int sys_epoll_ctl(int epfd, int op, int fd, epoll_event* ev) {
  if (!dsched::active()) return ::epoll_ctl(epfd, op, fd, ev);
  dsched::pre(nullptr, dsched::K_SYSCALL, 0);
  const void* ptr = ev ? ev->data.ptr : nullptr;
  int rc = ::epoll_ctl(epfd, op, fd, ev);
  int e = rc < 0 ? errno : 0;
  if (op == EPOLL_CTL_ADD) {
    if (rc == 0) tab().shadow[fd] = ptr;
    dsched::action("epoll_ctl ADD %s %s rc=%d %s", fname(fd).c_str(), pname(ptr).c_str(), rc, ename(e));
  } else if (op == EPOLL_CTL_DEL) {
    if (rc == 0) tab().shadow.erase(fd);
    dsched::action("epoll_ctl DEL %s rc=%d %s", fname(fd).c_str(), rc, ename(e));
  } else {
    dsched::action("epoll_ctl MOD %s rc=%d %s", fname(fd).c_str(), rc, ename(e));
  }
  errno = e;
  return rc;
}

inline int sys_epoll_wait(int epfd, epoll_event* evs, int maxev, int timeout) {
  if (!dsched::active()) return ::epoll_wait(epfd, evs, maxev, timeout);
  dsched::pre(nullptr, dsched::K_SYSCALL, 0);
  for (;;) {
    int rc = ::epoll_wait(epfd, evs, maxev, 0);
    int e = rc < 0 ? errno : 0;
    if (rc < 0 && e == EINTR) continue;
    if (rc > 0) {
      // A pointer into an operation that has already completed must never reach the library (it
      // would be dereferenced): report it, drop it from the result and remove the registration.
      int k = 0;
      std::string names;
      for (int i = 0; i < rc; ++i) {
        const void* p = evs[i].data.ptr;
        std::string why = tab().dead.count(p) ? "operation already completed"
                          : tab().stale_hook ? tab().stale_hook(p) : std::string();
        if (!why.empty()) {
          tab().stale_returned++;
          int sfd = -1;
          for (auto& kv : tab().shadow) if (kv.second == p) sfd = kv.first;
          dsched::action("STALE epoll_wait returned %s (%s) on %s", pname(p).c_str(), why.c_str(),
                         sfd >= 0 ? fname(sfd).c_str() : "?");
          if (sfd >= 0) { epoll_event z = {}; ::epoll_ctl(epfd, EPOLL_CTL_DEL, sfd, &z); tab().shadow.erase(sfd); }
          continue;
        }
        if (!names.empty()) names += ",";
        names += pname(p);
        evs[k++] = evs[i];
      }
      rc = k;
      if (rc == 0) continue;
      dsched::action("epoll_wait %s -> %s", timeout == 0 ? "poll" : "block", names.c_str());
      return rc;
    }
    if (rc < 0) { dsched::action("epoll_wait -> rc=%d %s", rc, ename(e)); errno = e; return rc; }
    if (timeout == 0) { dsched::action("epoll_wait poll -> none"); return 0; }
    // would sleep in the kernel: hand the baton over until the epoll instance is readable
    dsched::action("epoll_wait blocks");
    dsched::block_until([epfd] { return epoll_ready(epfd); });
  }
}

inline ssize_t sys_readv(int fd, const iovec* iov, int cnt) {
  if (!dsched::active()) return ::readv(fd, iov, cnt);
  dsched::pre(nullptr, dsched::K_SYSCALL, 0);
  ssize_t rc = ::readv(fd, iov, cnt);
  int e = rc < 0 ? errno : 0;
  dsched::action("readv %s rc=%zd %s", fname(fd).c_str(), rc, ename(e));
  errno = e;
  return rc;
}
inline ssize_t sys_writev(int fd, const iovec* iov, int cnt) {
  if (!dsched::active()) return ::writev(fd, iov, cnt);
  dsched::pre(nullptr, dsched::K_SYSCALL, 0);
  ssize_t rc = ::writev(fd, iov, cnt);
  int e = rc < 0 ? errno : 0;
  dsched::action("writev %s rc=%zd %s", fname(fd).c_str(), rc, ename(e));
  errno = e;
  return rc;
}
// read/write are used by the library on the eventfd (and the timerfd) only
inline ssize_t sys_read(int fd, void* buf, std::size_t n) {
  if (!dsched::active()) return ::read(fd, buf, n);
  dsched::pre(nullptr, dsched::K_SYSCALL, 0);
  ssize_t rc = ::read(fd, buf, n);
  int e = rc < 0 ? errno : 0;
  unsigned long long v = 0;
  if (rc == 8) std::memcpy(&v, buf, 8);
  dsched::action("read %s rc=%zd %s v=%llu", fname(fd).c_str(), rc, ename(e), v);
  errno = e;
  return rc;
}
inline ssize_t sys_write(int fd, const void* buf, std::size_t n) {
  if (!dsched::active()) return ::write(fd, buf, n);
  dsched::pre(nullptr, dsched::K_SYSCALL, 0);
  ssize_t rc = ::write(fd, buf, n);
  int e = rc < 0 ? errno : 0;
  dsched::action("write %s rc=%zd %s", fname(fd).c_str(), rc, ename(e));
  errno = e;
  return rc;
}

}  // namespace c14

#ifndef C14_NO_RENAME
#define epoll_ctl c14::sys_epoll_ctl
#define epoll_wait c14::sys_epoll_wait
#define readv c14::sys_readv
#define writev c14::sys_writev
#define read(fd, buf, n) c14::sys_read(fd, buf, n)
#define write(fd, buf, n) c14::sys_write(fd, buf, n)
#endif
